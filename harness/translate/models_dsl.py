"""Fail-closed translator: dadi library model functions -> programs of the DSL of coq/theories/Model/DSL.v (C15).

Every top-level function that carries `__param_names__` in the six model files is translated.  The recognised
vocabulary is exactly what the library uses:

    a, b, c = params | g = params[0]                      parameter unpacking
    xx = Numerics.default_grid(pts)                        Grid
    phi = PhiManip.phi_1D(xx, ...)                         Phi1D      (arguments bound with the CURRENT signature)
    phi = PhiManip.phi_1D_to_2D / phi_2D_to_3D_split_1|2   Split
    phi = PhiManip.phi_2D_to_3D_admix(phi, f, xx,xx,xx)    AdmixNew
    phi = PhiManip.phi_2D_admix_1_into_2 / _2_into_1 / phi_3D_admix_*   Pulse
    phi = Integration.one_pop/two_pops/three_pops(...)     Integrate  (all keyword/positional arguments resolved with the
                                                           CURRENT signature of dadi/Integration.py into per-population lists
                                                           and the full migration matrix)
    phi = PhiManip.remove_pop / reorder_pops               Remove / Reorder
    fs = Spectrum.from_phi(phi, ns, (xx,..)) ; return fs   FromPhi ; also from_phi_inbreeding
    t = <arithmetic expression>                            temporaries (inlined)
    nu_func = lambda t: <expr> | def nu_func(t): return <expr>     time functions (inlined, time variable = TVar)
    x = nu_func(<expr>)                                    evaluation of a time function at a point
    f, g = _helper(e1, .., k=e)  |  f = _helper(..)        call of a module-level HELPER function (a function of the model file - or of
    Integration.two_pops(.., nu1=_helper(..))              the file it star-imports - without __param_names__), INLINED: the arguments are
                                                           bound with the helper's CURRENT signature (defaults must be constant arithmetic),
                                                           its body may only consist of single-assignment temporaries, lambdas / nested
                                                           `def f(t): return <expr>`, calls of further helpers, and one final
                                                           `return v` | `return v1, .., vn` (scalars or time functions)
    if a >= b: ... else: ...                               IfGe (the continuation is copied into both branches)
    return sibling((e1, ..., en), ns, pts)                 sibling model, inlined
    *_mscore(params): command = '...'; sub_dict = {...}; return command % sub_dict      MsCmd

Anything else raises Refuse.  The caller turns a refusal into a failed obligation.
"""
import ast, os, re
from fractions import Fraction

MODEL_FILES = ['dadi/Demographics1D.py', 'dadi/Demographics2D.py', 'dadi/Demographics3D.py',
               'dadi/PortikModels/portik_models_2d.py', 'dadi/PortikModels/portik_models_3d.py',
               'dadi/DFE/DemogSelModels.py']
STAR_IMPORTS = {'dadi/Demographics2D.py': 'dadi/PortikModels/portik_models_2d.py',
                'dadi/Demographics3D.py': 'dadi/PortikModels/portik_models_3d.py'}

class Refuse(Exception):
    pass

# ------------------------------------------------------------------------------------------------
# expressions (JSON-able nested lists)
def C(x):
    f = Fraction(x)
    return ['const', '%d/%d' % (f.numerator, f.denominator)]
def V(i):
    return ['var', i]
T_ = ['t']

def subst_t(e, arg):
    if e[0] == 't':
        return arg
    if e[0] in ('var', 'const'):
        return e
    return [e[0]] + [subst_t(x, arg) for x in e[1:]]

def has_t(e):
    if e[0] == 't':
        return True
    if e[0] in ('var', 'const'):
        return False
    return any(has_t(x) for x in e[1:])

def expr_vars(e, acc=None):
    acc = set() if acc is None else acc
    if e[0] == 'var':
        acc.add(e[1])
    elif e[0] not in ('t', 'const'):
        for x in e[1:]:
            expr_vars(x, acc)
    return acc

# ------------------------------------------------------------------------------------------------
# signatures of the numerical layer, read from the current source
def _sig_of(fn):
    a = fn.args
    if a.vararg or a.kwarg or a.kwonlyargs or a.posonlyargs:
        raise Refuse('%s: unsupported signature' % fn.name)
    names = [x.arg for x in a.args]
    defaults = [None] * (len(names) - len(a.defaults)) + list(a.defaults)
    return list(zip(names, defaults))

def load_signatures(repo):
    sigs = {}
    def top(path, wanted, prefix):
        tree = ast.parse(open(os.path.join(repo, path)).read())
        for n in tree.body:
            if isinstance(n, ast.FunctionDef) and n.name in wanted:
                if prefix + n.name in sigs:
                    raise Refuse('%s defined twice in %s' % (n.name, path))
                sigs[prefix + n.name] = _sig_of(n)
        for w in wanted:
            if prefix + w not in sigs:
                raise Refuse('%s: function %s not found' % (path, w))
    top('dadi/Integration.py', ['one_pop', 'two_pops', 'three_pops'], 'Integration.')
    top('dadi/PhiManip.py', ['phi_1D', 'phi_1D_to_2D', 'phi_2D_to_3D_split_1', 'phi_2D_to_3D_split_2', 'phi_2D_to_3D_admix',
                             'phi_2D_admix_1_into_2', 'phi_2D_admix_2_into_1', 'phi_3D_admix_1_and_2_into_3',
                             'phi_3D_admix_1_and_3_into_2', 'phi_3D_admix_2_and_3_into_1', 'remove_pop', 'reorder_pops'], 'PhiManip.')
    # Numerics.default_grid is a module-level alias of a grid constructor taking the number of points first
    ntree = ast.parse(open(os.path.join(repo, 'dadi/Numerics.py')).read())
    al = [n for n in ntree.body if isinstance(n, ast.Assign) and len(n.targets) == 1 and isinstance(n.targets[0], ast.Name)
          and n.targets[0].id == 'default_grid']
    if len(al) != 1 or not isinstance(al[0].value, ast.Name):
        raise Refuse('Numerics.default_grid is not a single alias of a grid function')
    gf = [n for n in ntree.body if isinstance(n, ast.FunctionDef) and n.name == al[0].value.id]
    if len(gf) != 1:
        raise Refuse('Numerics.%s not found' % al[0].value.id)
    sigs['Numerics.default_grid'] = _sig_of(gf[0])
    sigs['Numerics.default_grid.target'] = al[0].value.id
    tree = ast.parse(open(os.path.join(repo, 'dadi/Spectrum_mod.py')).read())
    cls = [n for n in tree.body if isinstance(n, ast.ClassDef) and n.name == 'Spectrum']
    if len(cls) != 1:
        raise Refuse('class Spectrum not found')
    for n in cls[0].body:
        if isinstance(n, ast.FunctionDef) and n.name in ('from_phi', 'from_phi_inbreeding'):
            if not any(isinstance(d, ast.Name) and d.id == 'staticmethod' for d in n.decorator_list):
                raise Refuse('Spectrum.%s is not a staticmethod' % n.name)
            sigs['Spectrum.' + n.name] = _sig_of(n)
    for w in ('Spectrum.from_phi', 'Spectrum.from_phi_inbreeding'):
        if w not in sigs:
            raise Refuse(w + ' not found')
    return sigs

def bind(sig, call, what):
    """argument name -> ast node (given) ; second dict: names left at their default (ast of the default)"""
    given = {}
    names = [n for n, _ in sig]
    if len(call.args) > len(names):
        raise Refuse('%s: too many positional arguments' % what)
    for a in call.args:
        if isinstance(a, ast.Starred):
            raise Refuse('%s: starred argument' % what)
    for n, a in zip(names, call.args):
        given[n] = a
    for kw in call.keywords:
        if kw.arg is None:
            raise Refuse('%s: **kwargs' % what)
        if kw.arg not in names:
            raise Refuse('%s: unknown keyword %s' % (what, kw.arg))
        if kw.arg in given:
            raise Refuse('%s: argument %s given twice' % (what, kw.arg))
        given[kw.arg] = kw.value
    dflt = {}
    for n, d in sig:
        if n not in given:
            if d is None:
                raise Refuse('%s: required argument %s missing' % (what, n))
            dflt[n] = d
    return given, dflt

# ------------------------------------------------------------------------------------------------
class Env:
    def __init__(self):
        self.scal = {}      # name -> expr
        self.funcs = {}     # name -> expr with TVar
        self.strs = {}      # name -> python string constant
        self.dicts = {}     # name -> list of (key, expr)
        self.grids = set()
        self.phi = None     # name of the density variable
        self.d = 0          # current number of populations
        self.fs = {}        # name -> True (spectrum variables, produced by from_phi)
        self.fdeps = {}     # time function name -> names of THIS frame its body reads (Python closures bind late: the
                            # translation inlines the values at the definition, so none of them may be re-bound later)
        self.stale = {}     # time function name -> name it reads that was re-bound after its definition
    def copy(self):
        e = Env()
        e.scal = dict(self.scal); e.funcs = dict(self.funcs); e.strs = dict(self.strs); e.dicts = dict(self.dicts)
        e.grids = set(self.grids); e.phi = self.phi; e.d = self.d; e.fs = dict(self.fs)
        e.fdeps = {k: set(v) for k, v in self.fdeps.items()}; e.stale = dict(self.stale)
        return e
    def rebinding(self, name):
        """a name is (re)bound in this frame: a time function defined earlier that reads it would see the NEW value when it is
        finally called (late binding), the translation has inlined the old one: such a function may not be used any more"""
        for f, deps in self.fdeps.items():
            if name in deps and f in self.funcs and f != name:
                self.stale[f] = name
        self.stale.pop(name, None)
    def use_func(self, name):
        if name in self.stale:
            raise Refuse('the time function %s is used after %s, which it reads, was re-bound (closures bind late)' % (name, self.stale[name]))
        return self.funcs[name]
    def def_func(self, name, e, deps):
        self.rebinding(name)
        self.funcs[name] = e; self.fdeps[name] = set(deps); self.scal.pop(name, None)

def free_names(body, bound):
    return {x.id for x in ast.walk(body) if isinstance(x, ast.Name)} - set(bound)

class ModuleInfo:
    def __init__(self, repo, rel):
        self.rel = rel
        self.path = os.path.join(repo, rel)
        self.tree = ast.parse(open(self.path).read())
        self.funcs = {}
        self.param_names = {}
        self.aliases = {}
        self.star = None
        self.modnames = set()     # names bound to the expected dadi modules / numpy
        self._scan(repo)

    def _scan(self, repo):
        for k, n in enumerate(self.tree.body):
            if isinstance(n, ast.Expr) and isinstance(n.value, ast.Constant) and isinstance(n.value.value, str):
                continue
            if isinstance(n, ast.Import):
                for a in n.names:
                    if a.name == 'numpy' and a.asname is None:
                        self.modnames.add('numpy')
                    else:
                        raise Refuse('%s: unexpected import %s' % (self.rel, a.name))
                continue
            if isinstance(n, ast.ImportFrom):
                if n.module == 'dadi' and n.level == 0:
                    for a in n.names:
                        if a.asname is not None or a.name not in ('Numerics', 'PhiManip', 'Integration', 'Spectrum'):
                            raise Refuse('%s: unexpected import from dadi: %s' % (self.rel, a.name))
                        self.modnames.add(a.name)
                elif n.module == 'dadi.Spectrum_mod' and [a.name for a in n.names] == ['Spectrum'] and n.names[0].asname is None:
                    self.modnames.add('Spectrum')
                elif self.rel in STAR_IMPORTS and n.module == STAR_IMPORTS[self.rel][:-3].replace('/', '.') \
                        and [a.name for a in n.names] == ['*']:
                    self.star = STAR_IMPORTS[self.rel]
                else:
                    raise Refuse('%s: unexpected import from %s' % (self.rel, n.module))
                continue
            if isinstance(n, ast.FunctionDef):
                if n.name in self.funcs:
                    raise Refuse('%s: function %s defined twice' % (self.rel, n.name))
                if n.decorator_list:
                    raise Refuse('%s: decorated function %s' % (self.rel, n.name))
                self.funcs[n.name] = n
                continue
            if isinstance(n, ast.Assign) and len(n.targets) == 1:
                t = n.targets[0]
                if isinstance(t, ast.Attribute) and t.attr == '__param_names__' and isinstance(t.value, ast.Name):
                    if not isinstance(n.value, ast.List) or not all(isinstance(e, ast.Constant) and isinstance(e.value, str) for e in n.value.elts):
                        raise Refuse('%s: %s.__param_names__ is not a list of string literals' % (self.rel, t.value.id))
                    if t.value.id not in self.funcs:
                        raise Refuse('%s: __param_names__ set on unknown name %s' % (self.rel, t.value.id))
                    if t.value.id in self.param_names:
                        raise Refuse('%s: %s.__param_names__ assigned twice' % (self.rel, t.value.id))
                    self.param_names[t.value.id] = [e.value for e in n.value.elts]
                    continue
                if isinstance(t, ast.Name) and isinstance(n.value, ast.Name) and n.value.id in self.funcs:
                    self.aliases[t.id] = n.value.id
                    continue
            raise Refuse('%s: unexpected module-level statement at line %d' % (self.rel, getattr(n, 'lineno', 0)))

class Translator:
    def __init__(self, repo):
        self.repo = repo
        self.sigs = load_signatures(repo)
        self.mods = {}
        self.errors = {}
        for rel in MODEL_FILES:
            try:
                self.mods[rel] = ModuleInfo(repo, rel)
            except (Refuse, SyntaxError, OSError) as e:
                self.errors[rel] = str(e)

    # -- lookup of sibling models ---------------------------------------------------------------
    def resolve(self, mod, name):
        name = mod.aliases.get(name, name)
        if name in mod.funcs:
            return mod, mod.funcs[name]
        if mod.star and mod.star in self.mods:
            m2 = self.mods[mod.star]
            name = m2.aliases.get(name, name)
            if name in m2.funcs:
                return m2, m2.funcs[name]
        return None, None

    # -- expressions -----------------------------------------------------------------------------
    def expr(self, n, env, mod, tname=None):
        if isinstance(n, ast.Constant):
            v = n.value
            if isinstance(v, bool) or not isinstance(v, (int, float)):
                raise Refuse('constant %r in arithmetic' % (v,))
            return C(Fraction(repr(v)) if isinstance(v, float) else v)
        if isinstance(n, ast.Name):
            if tname is not None and n.id == tname:
                return T_
            if n.id in env.scal:
                return env.scal[n.id]
            raise Refuse('unknown scalar name %s' % n.id)
        if isinstance(n, ast.BinOp):
            op = {ast.Add: 'add', ast.Sub: 'sub', ast.Mult: 'mul', ast.Div: 'div', ast.Pow: 'pow'}.get(type(n.op))
            if op is None:
                raise Refuse('operator %s' % type(n.op).__name__)
            return [op, self.expr(n.left, env, mod, tname), self.expr(n.right, env, mod, tname)]
        if isinstance(n, ast.UnaryOp):
            if isinstance(n.op, ast.USub):
                return ['neg', self.expr(n.operand, env, mod, tname)]
            if isinstance(n.op, ast.UAdd):
                return self.expr(n.operand, env, mod, tname)
            raise Refuse('unary operator')
        if isinstance(n, ast.Call):
            f = n.func
            if isinstance(f, ast.Attribute) and isinstance(f.value, ast.Name) and f.value.id == 'numpy' and 'numpy' in mod.modnames \
                    and f.attr in ('exp', 'log') and len(n.args) == 1 and not n.keywords:
                return [f.attr, self.expr(n.args[0], env, mod, tname)]
            if isinstance(f, ast.Name) and f.id in env.funcs and len(n.args) == 1 and not n.keywords:
                return subst_t(env.use_func(f.id), self.expr(n.args[0], env, mod, tname))
            if isinstance(f, ast.Name) and self.is_helper(mod, f.id, env):
                vals = self.helper_call(n, env, mod)
                if len(vals) != 1 or vals[0][0] != 'scal':
                    raise Refuse('helper %s does not return one scalar where one is needed' % f.id)
                return vals[0][1]
            raise Refuse('call %s in arithmetic' % ast.unparse(f))
        raise Refuse('expression %s' % type(n).__name__)

    def timefunc(self, n, env, mod):
        """argument of an integration: scalar expression, name of a local time function, or a lambda"""
        if isinstance(n, ast.Name) and n.id in env.funcs:
            return env.use_func(n.id)
        if isinstance(n, ast.Lambda):
            return self.lam(n, env, mod)
        if isinstance(n, ast.Call) and isinstance(n.func, ast.Name) and self.is_helper(mod, n.func.id, env):
            vals = self.helper_call(n, env, mod)
            if len(vals) != 1:
                raise Refuse('helper %s returns %d values where one is needed' % (n.func.id, len(vals)))
            return vals[0][1]
        return self.expr(n, env, mod)

    def lam(self, n, env, mod):
        a = n.args
        if len(a.args) != 1 or a.defaults or a.vararg or a.kwarg or a.kwonlyargs:
            raise Refuse('lambda with other than one plain argument')
        return self.expr(n.body, env, mod, tname=a.args[0].arg)

    # -- module-level helper functions (inlined) -------------------------------------------------------
    def is_helper(self, mod, name, env):
        """a call `name(...)`: name is not a local of the frame and resolves to a module-level function of the model file (or
        of the file it star-imports) that is NOT a model (no __param_names__)"""
        if name in env.scal or name in env.funcs or name in env.grids or name == env.phi or name in env.fs:
            return False
        m2, fn = self.resolve(mod, name)
        return fn is not None and fn.name not in m2.param_names

    def value(self, n, env, mod):
        """('func', expr with TVar) | ('scal', t-free expr) of an argument / returned value"""
        if isinstance(n, ast.Name) and n.id in env.funcs:
            return ('func', env.use_func(n.id))
        if isinstance(n, ast.Lambda):
            return ('func', self.lam(n, env, mod))
        if isinstance(n, ast.Call) and isinstance(n.func, ast.Name) and self.is_helper(mod, n.func.id, env):
            vals = self.helper_call(n, env, mod)
            if len(vals) != 1:
                raise Refuse('helper %s returns %d values where one is needed' % (n.func.id, len(vals)))
            return vals[0]
        return ('scal', self.expr(n, env, mod))

    def helper_call(self, call, env, mod):
        """inlines `helper(args)`: -> [('func' | 'scal', expr)] of the returned value(s).  Fail-closed: the helper's frame is
        single-assignment (so that the late binding of its closures cannot matter), its body is temporaries, time functions,
        calls of further helpers and ONE final return; it reads no module-level name but numpy and other helpers."""
        name = call.func.id
        m2, fn = self.resolve(mod, name)
        if fn is None or fn.name in m2.param_names:
            raise Refuse('call of %s is not a call of a module-level helper function' % name)
        self._hdepth = getattr(self, '_hdepth', 0) + 1
        self._helpers_used = getattr(self, '_helpers_used', set()) | {'%s:%s' % (m2.rel, fn.name)}
        try:
            if self._hdepth > 6:
                raise Refuse('helper calls nested too deeply (%s)' % name)
            what = 'helper %s' % fn.name
            sig = _sig_of(fn)
            given, dflt = bind(sig, call, what)
            henv = Env()
            bound = set()
            for pn, _ in sig:
                if pn in bound:
                    raise Refuse('%s: parameter %s named twice' % (what, pn))
                bound.add(pn)
                if pn in given:
                    kind, e = self.value(given[pn], env, mod)
                else:
                    # defaults are evaluated once, at definition time, in the module scope: constant arithmetic only
                    kind, e = 'scal', self.expr(dflt[pn], Env(), m2)
                    if expr_vars(e) or has_t(e):
                        raise Refuse('%s: default of %s is not a constant' % (what, pn))
                if kind == 'func':
                    henv.funcs[pn] = e; henv.fdeps[pn] = set()
                else:
                    henv.scal[pn] = e
            body = [s for s in fn.body if not (isinstance(s, ast.Expr) and isinstance(s.value, ast.Constant) and isinstance(s.value.value, str))]
            if not body or not isinstance(body[-1], ast.Return) or body[-1].value is None:
                raise Refuse('%s does not end in `return <value(s)>`' % what)
            def bind_name(nm, kind, e, deps=()):
                if nm in bound:
                    raise Refuse('%s: the name %s is bound twice (the frame of a helper must be single-assignment)' % (what, nm))
                bound.add(nm)
                if kind == 'func':
                    henv.def_func(nm, e, deps)
                else:
                    henv.rebinding(nm); henv.scal[nm] = e
            for s in body[:-1]:
                if isinstance(s, ast.FunctionDef):
                    a = s.args
                    b2 = [x for x in s.body if not (isinstance(x, ast.Expr) and isinstance(x.value, ast.Constant))]
                    if len(a.args) != 1 or a.defaults or a.vararg or a.kwarg or a.kwonlyargs or a.posonlyargs or s.decorator_list \
                            or len(b2) != 1 or not isinstance(b2[0], ast.Return) or b2[0].value is None:
                        raise Refuse('%s: nested def %s is not `def f(t): return <expr>`' % (what, s.name))
                    bind_name(s.name, 'func', self.expr(b2[0].value, henv, m2, tname=a.args[0].arg), free_names(b2[0].value, [a.args[0].arg]))
                    continue
                if isinstance(s, ast.Assign) and len(s.targets) == 1:
                    tg, v = s.targets[0], s.value
                    if isinstance(tg, ast.Name):
                        if isinstance(v, ast.Lambda):
                            bind_name(tg.id, 'func', self.lam(v, henv, m2), free_names(v.body, [x.arg for x in v.args.args]))
                        else:
                            kind, e = self.value(v, henv, m2)
                            bind_name(tg.id, kind, e)
                        continue
                    if isinstance(tg, ast.Tuple) and all(isinstance(e, ast.Name) for e in tg.elts) and isinstance(v, ast.Call) \
                            and isinstance(v.func, ast.Name) and self.is_helper(m2, v.func.id, henv):
                        vals = self.helper_call(v, henv, m2)
                        if len(vals) != len(tg.elts):
                            raise Refuse('%s: %d names unpack the %d values of %s' % (what, len(tg.elts), len(vals), v.func.id))
                        for e_, (kind, e) in zip(tg.elts, vals):
                            bind_name(e_.id, kind, e)
                        continue
                raise Refuse('%s: statement %s at line %d is outside the vocabulary of helper functions' % (what, type(s).__name__, getattr(s, 'lineno', 0)))
            rv = body[-1].value
            elts = list(rv.elts) if isinstance(rv, ast.Tuple) else [rv]
            if not elts or any(isinstance(e, ast.Starred) for e in elts):
                raise Refuse('%s: unsupported return value' % what)
            return [self.value(e, henv, m2) for e in elts]
        finally:
            self._hdepth -= 1

    def bind_values(self, names, vals, env, args3):
        """binds the value(s) returned by a helper to local names of the model's frame"""
        for nm, (kind, e) in zip(names, vals):
            if nm in (args3[0], args3[1], args3[2]):
                raise Refuse('assignment to the argument %s' % nm)
            if nm in env.grids or nm == env.phi or nm in env.fs:
                raise Refuse('value assigned to the name %s already in use' % nm)
            if kind == 'func':
                env.def_func(nm, e, ())          # closes over the helper's frame, not over this one
            else:
                env.rebinding(nm); env.scal[nm] = e; env.funcs.pop(nm, None)

    # -- calls of the numerical layer ---------------------------------------------------------------
    def modcall(self, n, mod):
        """(module, function) of a call X.f(...) where X is one of the expected module names"""
        if isinstance(n, ast.Call) and isinstance(n.func, ast.Attribute) and isinstance(n.func.value, ast.Name):
            base = n.func.value.id
            if base in ('Numerics', 'PhiManip', 'Integration', 'Spectrum') and base in mod.modnames:
                return base, n.func.attr
        return None, None

    def is_grid(self, n, env):
        return isinstance(n, ast.Name) and n.id in env.grids
    def is_phi(self, n, env):
        return isinstance(n, ast.Name) and env.phi is not None and n.id == env.phi

    def default_ok(self, dflt, name, allowed):
        """an argument left at its default: the default in the current signature must be one of `allowed` python values"""
        d = dflt[name]
        if not isinstance(d, ast.Constant) or not any(type(d.value) is type(a) and d.value == a for a in allowed):
            raise Refuse('default of %s is %s' % (name, ast.unparse(d)))
        return d.value

    def const_flag(self, n):
        if isinstance(n, ast.Constant) and isinstance(n.value, bool):
            return n.value
        raise Refuse('flag argument is not a literal True/False')

    def phi_call(self, call, env, mod, args3):
        base, fn = self.modcall(call, mod)
        key = '%s.%s' % (base, fn)
        if base is None or key not in self.sigs:
            raise Refuse('call %s is outside the vocabulary' % ast.unparse(call.func))
        given, dflt = bind(self.sigs[key], call, key)
        def need_default(name, allowed):
            if name in given:
                raise Refuse('%s: argument %s is not supported' % (key, name))
            self.default_ok(dflt, name, allowed)
        def get(name):
            return given[name] if name in given else dflt[name]
        if key == 'PhiManip.phi_1D':
            if not self.is_grid(given.get('xx'), env):
                raise Refuse('phi_1D: first argument is not the grid')
            need_default('theta', [None]); need_default('deme_ids', [None])
            ins = {'op': 'phi1d'}
            for a in ('nu', 'theta0', 'gamma', 'h', 'beta'):
                ins[a] = self.expr(get(a), env, mod)
            env.d = 1
            return ins
        if key in ('PhiManip.phi_1D_to_2D', 'PhiManip.phi_2D_to_3D_split_1', 'PhiManip.phi_2D_to_3D_split_2'):
            d, parent = {'phi_1D_to_2D': (1, 0), 'phi_2D_to_3D_split_1': (2, 0), 'phi_2D_to_3D_split_2': (2, 1)}[fn]
            names = [nm for nm, _ in self.sigs[key]]
            if names[:2] != ['xx', names[1]] or not names[1].startswith('phi'):
                raise Refuse('%s: unexpected signature %r' % (key, names))
            if not self.is_grid(given.get('xx'), env) or not self.is_phi(given.get(names[1]), env):
                raise Refuse('%s: arguments are not (grid, density)' % key)
            need_default('deme_ids', [None])
            if env.d != d:
                raise Refuse('%s applied to a %d-population density' % (fn, env.d))
            env.d = d + 1
            return {'op': 'split', 'd': d, 'parent': parent}
        if key == 'PhiManip.phi_2D_to_3D_admix':
            names = [nm for nm, _ in self.sigs[key]]
            if names != ['phi', 'f1', 'xx', 'yy', 'zz', 'deme_ids']:
                raise Refuse('%s: unexpected signature %r' % (key, names))
            if not self.is_phi(given['phi'], env) or not all(self.is_grid(given[g], env) for g in ('xx', 'yy', 'zz')):
                raise Refuse('%s: arguments are not (density, f, grids)' % key)
            need_default('deme_ids', [None])
            if env.d != 2:
                raise Refuse('%s applied to a %d-population density' % (fn, env.d))
            env.d = 3
            return {'op': 'admixnew', 'd': 2, 'fs': [self.expr(given['f1'], env, mod)]}
        m = re.fullmatch(r'phi_(\d)D_admix_(\d)(?:_and_(\d))?_into_(\d)', fn or '')
        if base == 'PhiManip' and m:
            d = int(m.group(1)); srcs = [int(m.group(2))] + ([int(m.group(3))] if m.group(3) else []); dst = int(m.group(4))
            names = [nm for nm, _ in self.sigs[key]]
            fnames = ['f'] if len(srcs) == 1 else ['f%d' % s for s in srcs]
            gnames = ['xx', 'yy', 'zz'][:d]
            if names != ['phi'] + fnames + gnames:
                raise Refuse('%s: unexpected signature %r' % (key, names))
            if not self.is_phi(given['phi'], env) or not all(self.is_grid(given[g], env) for g in gnames):
                raise Refuse('%s: arguments are not (density, proportions, grids)' % key)
            if env.d != d:
                raise Refuse('%s applied to a %d-population density' % (fn, env.d))
            return {'op': 'pulse', 'd': d, 'srcs': [s - 1 for s in srcs], 'dst': dst - 1,
                    'fs': [self.expr(given[f], env, mod) for f in fnames]}
        if key == 'PhiManip.remove_pop':
            if [nm for nm, _ in self.sigs[key]] != ['phi', 'xx', 'popnum']:
                raise Refuse('remove_pop: unexpected signature')
            if not self.is_phi(given['phi'], env) or not self.is_grid(given['xx'], env):
                raise Refuse('remove_pop: arguments')
            k = given['popnum']
            if not (isinstance(k, ast.Constant) and isinstance(k.value, int) and 1 <= k.value <= env.d):
                raise Refuse('remove_pop: population number is not a literal in range')
            env.d -= 1
            return {'op': 'remove', 'k': k.value - 1}
        if key == 'PhiManip.reorder_pops':
            if [nm for nm, _ in self.sigs[key]] != ['phi', 'neworder']:
                raise Refuse('reorder_pops: unexpected signature')
            o = given['neworder']
            if not self.is_phi(given['phi'], env) or not isinstance(o, (ast.List, ast.Tuple)) or \
                    not all(isinstance(e, ast.Constant) and isinstance(e.value, int) for e in o.elts):
                raise Refuse('reorder_pops: arguments')
            perm = [e.value - 1 for e in o.elts]
            if sorted(perm) != list(range(env.d)):
                raise Refuse('reorder_pops: not a permutation of the populations')
            return {'op': 'reorder', 'perm': perm}
        if base == 'Integration':
            d = {'one_pop': 1, 'two_pops': 2, 'three_pops': 3}[fn]
            if env.d != d:
                raise Refuse('%s applied to a %d-population density' % (fn, env.d))
            if not self.is_phi(given.get('phi'), env) or not self.is_grid(given.get('xx'), env):
                raise Refuse('%s: first arguments are not (density, grid)' % key)
            nus = [None] * d; gam = [None] * d; hs = [None] * d; fro = [None] * d; nom = [False] * d
            ms = [[C(0)] * d for _ in range(d)]
            seen_m = set()
            theta0 = beta = Tt = None
            beta = C(1)
            for nm, _ in self.sigs[key]:
                if nm in ('phi', 'xx'):
                    continue
                node = get(nm)
                if nm == 'T':
                    Tt = self.expr(node, env, mod); continue
                if nm == 'initial_t':
                    if not (isinstance(node, ast.Constant) and type(node.value) in (int, float) and node.value == 0):
                        raise Refuse('%s: initial_t is not 0' % key)
                    continue
                if nm in ('enable_cuda_cached',):
                    need_default(nm, [False]); continue
                if nm == 'deme_ids':
                    need_default(nm, [None]); continue
                if nm == 'theta0':
                    theta0 = self.timefunc(node, env, mod); continue
                if nm == 'beta' and d == 1:
                    beta = self.timefunc(node, env, mod); continue
                mm = re.fullmatch(r'(nu|gamma|h|frozen|nomut)(\d?)', nm)
                if mm and ((d == 1 and mm.group(2) == '' and mm.group(1) != 'nomut') or (d > 1 and mm.group(2) != '' and 1 <= int(mm.group(2)) <= d)):
                    i = 0 if d == 1 else int(mm.group(2)) - 1
                    kind = mm.group(1)
                    if kind == 'nu':
                        nus[i] = self.timefunc(node, env, mod)
                    elif kind == 'gamma':
                        gam[i] = self.timefunc(node, env, mod)
                    elif kind == 'h':
                        hs[i] = self.timefunc(node, env, mod)
                    elif kind == 'frozen':
                        fro[i] = self.const_flag(node)
                    else:
                        nom[i] = self.const_flag(node)
                    continue
                mm = re.fullmatch(r'm(\d)(\d)', nm)
                if mm and d > 1:
                    i, j = int(mm.group(1)) - 1, int(mm.group(2)) - 1
                    if not (0 <= i < d and 0 <= j < d and i != j) or (i, j) in seen_m:
                        raise Refuse('%s: migration argument %s' % (key, nm))
                    seen_m.add((i, j))
                    ms[i][j] = self.timefunc(node, env, mod)
                    continue
                raise Refuse('%s: parameter %s of the current signature is outside the vocabulary' % (key, nm))
            if Tt is None or theta0 is None or any(x is None for x in nus + gam + hs + fro) or len(seen_m) != d * (d - 1):
                raise Refuse('%s: the current signature lacks an expected parameter' % key)
            if has_t(Tt):
                raise Refuse('%s: duration depends on the time variable' % key)
            return {'op': 'integrate', 'T': Tt, 'nus': nus, 'ms': ms, 'gammas': gam, 'hs': hs, 'theta0': theta0, 'beta': beta,
                    'frozen': fro, 'nomut': nom}
        raise Refuse('call %s is outside the vocabulary' % key)

    def fromphi_call(self, call, env, mod, args3):
        base, fn = self.modcall(call, mod)
        key = 'Spectrum.%s' % fn
        if base != 'Spectrum' or fn not in ('from_phi', 'from_phi_inbreeding'):
            return None
        given, dflt = bind(self.sigs[key], call, key)
        exp_names = {'from_phi': ['phi', 'ns', 'xxs', 'mask_corners', 'pop_ids', 'admix_props', 'het_ascertained', 'force_direct'],
                     'from_phi_inbreeding': ['phi', 'ns', 'xxs', 'Fs', 'ploidys', 'mask_corners', 'pop_ids', 'admix_props', 'het_ascertained', 'force_direct']}[fn]
        if [nm for nm, _ in self.sigs[key]] != exp_names:
            raise Refuse('%s: unexpected signature' % key)
        for nm, allowed in (('mask_corners', [True]), ('pop_ids', [None]), ('admix_props', [None]), ('het_ascertained', [None]),
                            ('force_direct', [False] if fn == 'from_phi' else [True])):
            if nm in given:
                raise Refuse('%s: argument %s is not supported' % (key, nm))
            self.default_ok(dflt, nm, allowed)
        if not self.is_phi(given['phi'], env):
            raise Refuse('%s: first argument is not the density' % key)
        if not (isinstance(given['ns'], ast.Name) and given['ns'].id == args3[1]):
            raise Refuse('%s: sample sizes are not the ns argument' % key)
        xxs = given['xxs']
        if not isinstance(xxs, (ast.Tuple, ast.List)) or len(xxs.elts) != env.d or not all(self.is_grid(g, env) for g in xxs.elts):
            raise Refuse('%s: grids do not match the %d populations' % (key, env.d))
        if fn == 'from_phi':
            return {'op': 'fromphi', 'd': env.d}
        Fs, pl = given['Fs'], given['ploidys']
        if not isinstance(Fs, (ast.Tuple, ast.List)) or not isinstance(pl, (ast.Tuple, ast.List)) or len(Fs.elts) != env.d or len(pl.elts) != env.d:
            raise Refuse('%s: Fs / ploidys do not match the populations' % key)
        return {'op': 'fromphi_inb', 'd': env.d, 'Fs': [self.expr(e, env, mod) for e in Fs.elts],
                'ploidy': [self.expr(e, env, mod) for e in pl.elts]}

    # -- statements ------------------------------------------------------------------------------
    def block(self, stmts, env, mod, args3, pvals, st, depth):
        """returns the program (list of instructions, last possibly an if-node); every path must end in return"""
        prog = []
        for k, s in enumerate(stmts):
            if isinstance(s, ast.Expr) and isinstance(s.value, ast.Constant) and isinstance(s.value.value, str):
                continue
            if isinstance(s, ast.If):
                t = s.test
                if not (isinstance(t, ast.Compare) and len(t.ops) == 1 and isinstance(t.ops[0], ast.GtE)):
                    raise Refuse('if with a test other than a >= b')
                a = self.expr(t.left, env, mod); b = self.expr(t.comparators[0], env, mod)
                rest = stmts[k + 1:]
                e1, e2 = env.copy(), env.copy()
                p1 = self.block(list(s.body) + rest, e1, mod, args3, pvals, st, depth)
                p2 = self.block(list(s.orelse) + rest, e2, mod, args3, pvals, st, depth)
                prog.append({'op': 'if', 'a': a, 'b': b, 'then': p1, 'else': p2})
                return prog
            if isinstance(s, ast.Return):
                v = s.value
                if isinstance(v, ast.Name) and v.id in env.fs:
                    if env.fs[v.id] != 'last':
                        raise Refuse('returned spectrum is not the last operation')
                    return prog
                if isinstance(v, ast.Call):
                    ins = self.fromphi_call(v, env, mod, args3)
                    if ins is not None:
                        prog.append(ins)
                        return prog
                    # sibling model
                    f = v.func
                    if isinstance(f, ast.Name) and len(v.args) == 3 and not v.keywords and args3[1] is not None \
                            and isinstance(v.args[1], ast.Name) and v.args[1].id == args3[1] \
                            and isinstance(v.args[2], ast.Name) and v.args[2].id == args3[2] \
                            and isinstance(v.args[0], (ast.Tuple, ast.List)):
                        m2, fn = self.resolve(mod, f.id)
                        if fn is None:
                            raise Refuse('call of unknown model %s' % f.id)
                        if depth > 6:
                            raise Refuse('model calls nested too deeply')
                        if prog or env.phi is not None or env.grids:
                            raise Refuse('sibling model called after other operations')
                        vals = [self.expr(e, env, mod) for e in v.args[0].elts]
                        if depth == st['depth0']:
                            # provenance (used by the mutation-adequacy analysis of C15 only): this model is a wrapper,
                            # its program is the callee's program with the callee's parameters replaced by `vals`
                            st['calls'] = {'file': m2.rel, 'name': fn.name, 'vals': vals, 'multi': 'calls' in st}
                        sub = self.function(m2, fn, vals, st, depth + 1)
                        return sub
                    raise Refuse('return of %s' % ast.unparse(v)[:60])
                if isinstance(v, ast.BinOp) and isinstance(v.op, ast.Mod) and isinstance(v.left, ast.Name) and v.left.id in env.strs \
                        and isinstance(v.right, ast.Name) and v.right.id in env.dicts and args3[1] is None:
                    keys = re.findall(r'%\((\w+)\)', env.strs[v.left.id])
                    dk = [kk for kk, _ in env.dicts[v.right.id]]
                    if sorted(set(keys)) != sorted(set(dk)):
                        raise Refuse('ms command: format keys %r != dictionary keys %r' % (sorted(set(keys)), sorted(dk)))
                    prog.append({'op': 'mscmd', 'es': [e for _, e in env.dicts[v.right.id]]})
                    return prog
                raise Refuse('unsupported return')
            if isinstance(s, ast.FunctionDef):
                a = s.args
                body = [x for x in s.body if not (isinstance(x, ast.Expr) and isinstance(x.value, ast.Constant))]
                if len(a.args) != 1 or a.defaults or a.vararg or a.kwarg or a.kwonlyargs or s.decorator_list \
                        or len(body) != 1 or not isinstance(body[0], ast.Return) or body[0].value is None:
                    raise Refuse('nested def %s is not `def f(t): return <expr>`' % s.name)
                if s.name in (args3[0], args3[1], args3[2]) or s.name in env.grids or s.name == env.phi or s.name in env.fs:
                    raise Refuse('nested def re-uses the name %s' % s.name)
                env.def_func(s.name, self.expr(body[0].value, env, mod, tname=a.args[0].arg), free_names(body[0].value, [a.args[0].arg]))
                continue
            if isinstance(s, ast.Assign) and len(s.targets) == 1:
                tg, v = s.targets[0], s.value
                # parameter unpacking
                if isinstance(tg, ast.Tuple) and isinstance(v, ast.Name) and v.id == args3[0]:
                    if st['unpacked'] is not None and depth == st['depth0'] and st['unpacked']:
                        raise Refuse('parameters unpacked twice')
                    names = []
                    for e in tg.elts:
                        if not isinstance(e, ast.Name):
                            raise Refuse('unpacking target is not a plain name')
                        names.append(e.id)
                    if len(set(names)) != len(names):
                        raise Refuse('a name is bound twice in the parameter unpacking')
                    if pvals is None:
                        vals = [V(i) for i in range(len(names))]
                        st['unpacked'] = list(range(len(names))); st['unpack_names'] = names
                    else:
                        if len(pvals) != len(names):
                            raise Refuse('model is called with %d values but unpacks %d' % (len(pvals), len(names)))
                        vals = pvals
                    for nme, val in zip(names, vals):
                        env.rebinding(nme); env.scal[nme] = val; env.funcs.pop(nme, None)
                    continue
                # value(s) returned by a module-level helper function (inlined)
                if isinstance(v, ast.Call) and isinstance(v.func, ast.Name) and self.is_helper(mod, v.func.id, env) \
                        and (isinstance(tg, ast.Name) or (isinstance(tg, ast.Tuple) and all(isinstance(e, ast.Name) for e in tg.elts))):
                    names = [tg.id] if isinstance(tg, ast.Name) else [e.id for e in tg.elts]
                    if len(set(names)) != len(names):
                        raise Refuse('a name is bound twice in the unpacking of %s' % v.func.id)
                    vals = self.helper_call(v, env, mod)
                    if len(vals) != len(names):
                        raise Refuse('%d name(s) receive the %d value(s) of %s' % (len(names), len(vals), v.func.id))
                    self.bind_values(names, vals, env, args3)
                    continue
                if isinstance(tg, ast.Name) and isinstance(v, ast.Subscript) and isinstance(v.value, ast.Name) and v.value.id == args3[0]:
                    ix = v.slice
                    if not (isinstance(ix, ast.Constant) and isinstance(ix.value, int) and ix.value >= 0):
                        raise Refuse('parameter index is not a non-negative literal')
                    if pvals is None:
                        st['unpacked'] = (st['unpacked'] or []) + [ix.value]
                        st['unpack_names'] = (st.get('unpack_names') or []) + [tg.id]
                        st['index_style'] = True
                        env.rebinding(tg.id); env.scal[tg.id] = V(ix.value)
                    else:
                        if ix.value >= len(pvals):
                            raise Refuse('parameter index out of range of the values passed')
                        env.rebinding(tg.id); env.scal[tg.id] = pvals[ix.value]
                    continue
                if not isinstance(tg, ast.Name):
                    raise Refuse('assignment target %s' % type(tg).__name__)
                name = tg.id
                if name in (args3[0], args3[1], args3[2]):
                    raise Refuse('assignment to the argument %s' % name)
                # strings / dictionaries of the mscore helpers
                if isinstance(v, ast.Constant) and isinstance(v.value, str) and args3[1] is None:
                    env.strs[name] = v.value; continue
                if isinstance(v, ast.Dict) and args3[1] is None:
                    items = []
                    for kk, vv in zip(v.keys, v.values):
                        if not (isinstance(kk, ast.Constant) and isinstance(kk.value, str)):
                            raise Refuse('dictionary key is not a string literal')
                        items.append((kk.value, self.expr(vv, env, mod)))
                    env.dicts[name] = items; continue
                if isinstance(v, ast.Lambda):
                    if name in env.grids or name == env.phi or name in env.fs:
                        raise Refuse('time function assigned to the name %s already in use' % name)
                    env.def_func(name, self.lam(v, env, mod), free_names(v.body, [x.arg for x in v.args.args])); continue
                base, fn = self.modcall(v, mod)
                if base == 'Numerics':
                    if fn != 'default_grid' or len(v.args) != 1 or v.keywords or not (isinstance(v.args[0], ast.Name) and v.args[0].id == args3[2]) \
                            or len(self.sigs['Numerics.default_grid']) < 1 or any(d is None for _, d in self.sigs['Numerics.default_grid'][1:]):
                        raise Refuse('grid construction other than Numerics.default_grid(pts)')
                    if env.phi is not None:
                        raise Refuse('grid rebuilt after the density exists')
                    env.grids.add(name); prog.append({'op': 'grid'})
                    for kf in env.fs:
                        env.fs[kf] = 'stale'
                    continue
                if base in ('PhiManip', 'Integration'):
                    if name in env.grids or name in env.scal or name in env.funcs:
                        raise Refuse('density assigned to the name %s already in use' % name)
                    if env.phi is not None and name != env.phi:
                        raise Refuse('a second density variable %s' % name)
                    was_none = env.phi is None
                    if was_none and not (base == 'PhiManip' and fn == 'phi_1D'):
                        raise Refuse('%s.%s before the density exists' % (base, fn))
                    if not was_none and fn == 'phi_1D':
                        raise Refuse('density re-initialised')
                    ins = self.phi_call(v, env, mod, args3)
                    env.phi = name
                    prog.append(ins)
                    for kf in env.fs:
                        env.fs[kf] = 'stale'
                    continue
                if base == 'Spectrum':
                    ins = self.fromphi_call(v, env, mod, args3)
                    if ins is None:
                        raise Refuse('call Spectrum.%s is outside the vocabulary' % fn)
                    for kf in env.fs:
                        env.fs[kf] = 'stale'
                    env.fs[name] = 'last'
                    prog.append(ins)
                    continue
                # scalar temporary
                if name in env.grids or name == env.phi or name in env.fs:
                    raise Refuse('scalar assigned to the name %s already in use' % name)
                val = self.expr(v, env, mod)
                env.rebinding(name); env.scal[name] = val
                env.funcs.pop(name, None)
                continue
            raise Refuse('statement %s at line %d' % (type(s).__name__, getattr(s, 'lineno', 0)))
        raise Refuse('a path ends without return')

    def function(self, mod, fn, pvals, st, depth):
        a = fn.args
        if a.defaults or a.vararg or a.kwarg or a.kwonlyargs or a.posonlyargs:
            raise Refuse('%s: unsupported signature' % fn.name)
        names = [x.arg for x in a.args]
        if len(names) == 3:
            args3 = (names[0], names[1], names[2])
        elif len(names) == 1 and pvals is None:
            args3 = (names[0], None, None)
        else:
            raise Refuse('%s: signature is neither (params, ns, pts) nor (params)' % fn.name)
        env = Env()
        return self.block(fn.body, env, mod, args3, pvals, st, depth)

    def translate(self, rel, name):
        """-> dict(name, file, kind, param_names, unpacked, unpack_names, prog)"""
        if rel in self.errors:
            raise Refuse(self.errors[rel])
        mod = self.mods[rel]
        fn = mod.funcs[name]
        st = {'unpacked': None, 'depth0': 0}
        self._helpers_used = set()
        prog = self.function(mod, fn, None, st, 0)
        kind = 'mscore' if len(fn.args.args) == 1 else 'sfs'
        last = prog
        return {'name': name, 'file': rel, 'kind': kind, 'param_names': mod.param_names[name],
                'unpacked': st['unpacked'] or [], 'unpack_names': st.get('unpack_names') or [],
                'index_style': bool(st.get('index_style')), 'prog': prog, 'lineno': fn.lineno, 'calls': st.get('calls'),
                'helpers': sorted(self._helpers_used)}

    def all_models(self):
        """[(file, name)] of every function carrying __param_names__, in source order"""
        out = []
        for rel in MODEL_FILES:
            if rel in self.mods:
                m = self.mods[rel]
                for n in m.tree.body:
                    if isinstance(n, ast.FunctionDef) and n.name in m.param_names:
                        out.append((rel, n.name))
        return out

# ------------------------------------------------------------------------------------------------
# parameter kinds (the documented bounds) from the declared names
def kind_of(name):
    if name.startswith('nu'):
        return 'pos'
    if name.startswith('T'):
        return 'nonneg'
    if re.fullmatch(r'm\w*', name):
        return 'nonneg'
    if name.startswith('gamma'):
        return 'free'
    if name in ('s', 'f', 'F'):
        return 'frac'
    return 'unknown'

def assum_of(names):
    k = [kind_of(n) for n in names]
    return {'pos': [i for i, x in enumerate(k) if x == 'pos'], 'nonneg': [i for i, x in enumerate(k) if x == 'nonneg'],
            'frac': [i for i, x in enumerate(k) if x == 'frac']}

# ------------------------------------------------------------------------------------------------
# Coq text
def coq_expr(e):
    k = e[0]
    if k == 'var':
        return '(Var %d)' % e[1]
    if k == 't':
        return 'TVar'
    if k == 'const':
        n, d = e[1].split('/')
        n = int(n)
        return '(Const (%s # %s))' % (('(%d)' % n) if n < 0 else str(n), d)
    nm = {'add': 'Add', 'sub': 'Sub', 'mul': 'Mul', 'div': 'Div', 'neg': 'Neg', 'exp': 'Exp', 'log': 'Log', 'pow': 'Pow'}[k]
    return '(%s %s)' % (nm, ' '.join(coq_expr(x) for x in e[1:]))

def coq_list(xs):
    return '[' + '; '.join(xs) + ']'
def coq_nats(xs):
    if not xs:
        return '(@nil nat)'
    return '[' + '; '.join('%d%%nat' % x for x in xs) + ']'
def coq_bools(xs):
    return '[' + '; '.join('true' if x else 'false' for x in xs) + ']'

def coq_instr(i):
    o = i['op']
    E = coq_expr
    if o == 'grid':
        return 'IGrid'
    if o == 'phi1d':
        return '(IPhi1D %s %s %s %s %s)' % tuple(E(i[k]) for k in ('nu', 'theta0', 'gamma', 'h', 'beta'))
    if o == 'split':
        return '(ISplit %d %d)' % (i['d'], i['parent'])
    if o == 'admixnew':
        return '(IAdmixNew %d %s)' % (i['d'], coq_list([E(x) for x in i['fs']]))
    if o == 'pulse':
        return '(IPulse %d %s %d %s)' % (i['d'], coq_nats(i['srcs']), i['dst'], coq_list([E(x) for x in i['fs']]))
    if o == 'integrate':
        return '(IIntegrate %s %s %s %s %s %s %s %s %s)' % (
            E(i['T']), coq_list([E(x) for x in i['nus']]), coq_list([coq_list([E(x) for x in r]) for r in i['ms']]),
            coq_list([E(x) for x in i['gammas']]), coq_list([E(x) for x in i['hs']]), E(i['theta0']), E(i['beta']),
            coq_bools(i['frozen']), coq_bools(i['nomut']))
    if o == 'remove':
        return '(IRemove %d)' % i['k']
    if o == 'reorder':
        return '(IReorder %s)' % coq_nats(i['perm'])
    if o == 'fromphi':
        return '(IFromPhi %d)' % i['d']
    if o == 'fromphi_inb':
        return '(IFromPhiInb %d %s %s)' % (i['d'], coq_list([E(x) for x in i['Fs']]), coq_list([E(x) for x in i['ploidy']]))
    if o == 'mscmd':
        return '(IMsCmd %s)' % coq_list([E(x) for x in i['es']])
    raise ValueError(o)

def coq_prog(p):
    if not p:
        return 'Done'
    h = p[0]
    if h['op'] == 'if':
        assert len(p) == 1
        return '(IfGe %s %s %s %s)' % (coq_expr(h['a']), coq_expr(h['b']), coq_prog(h['then']), coq_prog(h['else']))
    return '(Step %s %s)' % (coq_instr(h), coq_prog(p[1:]))

def coq_assum(a):
    return '{| a_pos := %s; a_nonneg := %s; a_frac := %s |}' % (coq_nats(a['pos']), coq_nats(a['nonneg']), coq_nats(a['frac']))

def prog_vars(p, acc=None):
    acc = set() if acc is None else acc
    for i in p:
        if i['op'] == 'if':
            expr_vars(i['a'], acc); expr_vars(i['b'], acc); prog_vars(i['then'], acc); prog_vars(i['else'], acc)
            continue
        for k, v in i.items():
            if k in ('op', 'd', 'parent', 'srcs', 'dst', 'k', 'perm', 'frozen', 'nomut'):
                continue
            if k == 'ms':
                for r in v:
                    for e in r:
                        expr_vars(e, acc)
            elif isinstance(v, list) and v and isinstance(v[0], list):
                for e in v:
                    expr_vars(e, acc)
            elif isinstance(v, list) and v and isinstance(v[0], str):
                expr_vars(v, acc)
    return acc
