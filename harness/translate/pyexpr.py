"""Fail-closed translator: straight-line Python arithmetic functions -> Coq terms over R.

Recognised shape of a function body:
    [docstring]
    a, b, c = <argument name>          (tuple unpacking of a sequence argument)
    t = <expr>                         (single-assignment temporaries; inlined)
    return <expr>
<expr>: names, int/float constants, + - * / , unary -, ** with a small non-negative int literal,
        calls listed in FUNCS (numpy.exp/log/abs..., passed in by the caller).
Anything else raises Refuse (the caller turns a refusal into a broken obligation).
"""
import ast
from fractions import Fraction

class Refuse(Exception):
    pass

DEFAULT_FUNCS = {'exp': 'exp', 'log': 'ln', 'abs': 'Rabs', 'sqrt': 'sqrt'}

def find_function(path, name):
    src = open(path).read()
    tree = ast.parse(src)
    hits = [n for n in tree.body if isinstance(n, ast.FunctionDef) and n.name == name]
    if len(hits) != 1:
        raise Refuse('%s: expected exactly one top-level def %s, found %d' % (path, name, len(hits)))
    return hits[0]

def const_to_coq(v):
    if isinstance(v, bool):
        raise Refuse('boolean constant')
    if isinstance(v, int):
        return '(%d)' % v if v >= 0 else '(-(%d))' % (-v)
    if isinstance(v, float):
        f = Fraction(repr(v))          # decimal literal as written (0.5 -> 1/2, 0.25 -> 1/4)
        if f.denominator == 1:
            return const_to_coq(f.numerator)
        s = '(%d / %d)' % (abs(f.numerator), f.denominator)
        return s if f >= 0 else '(- %s)' % s
    raise Refuse('constant %r' % (v,))

class Tr:
    def __init__(self, funcs=None, seq_args=None):
        self.funcs = dict(DEFAULT_FUNCS if funcs is None else funcs)
        self.env = {}           # temporaries: name -> coq text
        self.vars = []          # scalar variables in order of introduction
        self.seq_args = seq_args or {}

    def expr(self, e):
        if isinstance(e, ast.BinOp):
            l = self.expr(e.left)
            if isinstance(e.op, ast.Pow):
                if isinstance(e.right, ast.Constant) and isinstance(e.right.value, int) and 0 <= e.right.value <= 8:
                    return '(%s ^ %d)' % (l, e.right.value)
                raise Refuse('power with non-literal exponent')
            r = self.expr(e.right)
            op = {ast.Add: '+', ast.Sub: '-', ast.Mult: '*', ast.Div: '/'}.get(type(e.op))
            if op is None:
                raise Refuse('operator %s' % type(e.op).__name__)
            return '(%s %s %s)' % (l, op, r)
        if isinstance(e, ast.UnaryOp):
            if isinstance(e.op, ast.USub):
                return '(- %s)' % self.expr(e.operand)
            if isinstance(e.op, ast.UAdd):
                return self.expr(e.operand)
            raise Refuse('unary operator')
        if isinstance(e, ast.Constant):
            return const_to_coq(e.value)
        if isinstance(e, ast.Name):
            if e.id in self.env:
                return self.env[e.id]
            if e.id in self.vars:
                return e.id
            raise Refuse('unknown name %s' % e.id)
        if isinstance(e, ast.Call):
            fn = e.func
            nm = fn.attr if isinstance(fn, ast.Attribute) else fn.id if isinstance(fn, ast.Name) else None
            if nm in self.funcs and len(e.args) == 1 and not e.keywords:
                return '(%s %s)' % (self.funcs[nm], self.expr(e.args[0]))
            raise Refuse('call to %s' % (nm,))
        raise Refuse('expression %s' % type(e).__name__)

def translate_function(path, name, funcs=None, coq_name=None):
    """Returns (coq_definition_text, list_of_parameter_names, groups) where groups maps a sequence
    argument to the names it was unpacked into."""
    fn = find_function(path, name)
    if fn.args.vararg or fn.args.kwarg or fn.args.kwonlyargs:
        raise Refuse('varargs')
    t = Tr(funcs)
    argnames = [a.arg for a in fn.args.args]
    groups = {}
    body = list(fn.body)
    if body and isinstance(body[0], ast.Expr) and isinstance(body[0].value, ast.Constant) and isinstance(body[0].value.value, str):
        body = body[1:]
    scalars = set(argnames)
    ret = None
    for st in body:
        if ret is not None:
            raise Refuse('statement after return')
        if isinstance(st, ast.Assign) and len(st.targets) == 1:
            tg = st.targets[0]
            if isinstance(tg, ast.Tuple) and isinstance(st.value, ast.Name) and st.value.id in scalars:
                names = []
                for el in tg.elts:
                    if not isinstance(el, ast.Name):
                        raise Refuse('unpack target')
                    names.append(el.id)
                groups[st.value.id] = names
                scalars.discard(st.value.id)
                t.vars.extend(names)
            elif isinstance(tg, ast.Name):
                for a in argnames:
                    if a in scalars and a not in t.vars:
                        t.vars.append(a)
                if tg.id in t.env or tg.id in t.vars:
                    raise Refuse('re-assignment of %s' % tg.id)
                t.env[tg.id] = t.expr(st.value)
            else:
                raise Refuse('assignment shape')
        elif isinstance(st, ast.Return) and st.value is not None:
            for a in argnames:
                if a in scalars and a not in t.vars:
                    t.vars.append(a)
            ret = t.expr(st.value)
        else:
            raise Refuse('statement %s' % type(st).__name__)
    if ret is None:
        raise Refuse('no return')
    params = []
    for a in argnames:
        params.extend(groups.get(a, [a]))
    cn = coq_name or ('gen_' + name)
    text = 'Definition %s %s : R :=\n  %s.' % (cn, ' '.join('(%s : R)' % p for p in params), ret)
    return text, params, groups
