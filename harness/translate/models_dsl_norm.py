"""Python mirror of `simp` / `norm` / `subst` / `relabel` of coq/theories/Model/DSL.v.

NOT used for any pass/fail decision: every obligation is decided inside Coq.  Used (a) by the one-off search that
compiled harness/props/c15_nesting.json (harness/tools/c15_search.py), (b) to print a readable difference when a
Coq obligation fails, (c) to evaluate a substitution numerically (parameter vector of the complex model at the
nesting point).
"""
import math
from fractions import Fraction

def cq(e):
    return Fraction(e[1]) if e[0] == 'const' else None
def C(x):
    f = Fraction(x)
    return ['const', '%d/%d' % (f.numerator, f.denominator)]

def is_c(e, v):
    return e[0] == 'const' and Fraction(e[1]) == v

def eqb(a, b):
    if a[0] != b[0]:
        return False
    if a[0] == 'const':
        return Fraction(a[1]) == Fraction(b[1])
    if a[0] == 'var':
        return a[1] == b[1]
    if a[0] == 't':
        return True
    return all(eqb(x, y) for x, y in zip(a[1:], b[1:]))

def is_pos(A, e):
    k = e[0]
    if k == 'var':
        return e[1] in A['pos'] or e[1] in A['frac']
    if k == 'const':
        return Fraction(e[1]) > 0
    if k in ('add', 'mul', 'div'):
        return is_pos(A, e[1]) and is_pos(A, e[2])
    if k == 'sub':
        return e[2][0] == 'var' and is_c(e[1], 1) and e[2][1] in A['frac']
    return k in ('exp', 'pow')

def is_nonneg(A, e):
    if is_pos(A, e):
        return True
    k = e[0]
    if k == 'var':
        return e[1] in A['nonneg']
    if k == 'const':
        return Fraction(e[1]) >= 0
    if k in ('add', 'mul'):
        return is_nonneg(A, e[1]) and is_nonneg(A, e[2])
    return False

def simp(A, e):
    k = e[0]
    if k in ('var', 't'):
        return e
    if k == 'const':
        return C(Fraction(e[1]))
    a = simp(A, e[1]); b = simp(A, e[2]) if len(e) > 2 else None
    ca = cq(a); cb = cq(b) if b is not None else None
    if k == 'add':
        if ca is not None and cb is not None: return C(ca + cb)
        if ca is not None: return b if ca == 0 else ['add', a, b]
        if cb is not None: return a if cb == 0 else ['add', a, b]
        return ['add', a, b]
    if k == 'sub':
        if ca is not None and cb is not None: return C(ca - cb)
        if cb is not None: return a if cb == 0 else ['sub', a, b]
        if eqb(a, b): return C(0)
        if ca is not None and b[0] == 'sub' and is_c(b[1], 1):       # one_minus_arg b = Some b[2]
            return b[2] if ca == 1 else ['sub', a, b]
        if a[0] == 'add':                                             # add_cancel: (r + b) - b = r, (b + r) - b = r
            if eqb(a[2], b): return a[1]
            if eqb(a[1], b): return a[2]
        return ['sub', a, b]
    if k == 'mul':
        if ca is not None and cb is not None: return C(ca * cb)
        if ca is not None: return C(0) if ca == 0 else b if ca == 1 else ['mul', a, b]
        if cb is not None: return C(0) if cb == 0 else a if cb == 1 else ['mul', a, b]
        return ['mul', a, b]
    if k == 'div':
        if ca is not None and cb is not None: return ['div', a, b] if cb == 0 else C(ca / cb)
        if ca is not None: return C(0) if ca == 0 else ['div', a, b]
        if cb is not None: return a if cb == 1 else ['div', a, b]
        return C(1) if eqb(a, b) and is_pos(A, a) else ['div', a, b]
    if k == 'neg':
        return C(-ca) if ca is not None else ['neg', a]
    if k == 'exp':
        if is_c(a, 0): return C(1)
        if a[0] == 'log' and is_pos(A, a[1]): return a[1]
        return ['exp', a]
    if k == 'log':
        return C(0) if is_c(a, 1) else ['log', a]
    if k == 'pow':
        if is_c(a, 1): return C(1)
        if is_c(b, 0): return C(1)
        if is_c(b, 1) and is_pos(A, a): return a
        return ['pow', a, b]
    raise ValueError(k)

def subst(sg, e):
    k = e[0]
    if k == 'var':
        return sg[e[1]] if e[1] < len(sg) else C(0)
    if k in ('t', 'const'):
        return e
    return [k] + [subst(sg, x) for x in e[1:]]

EXPR_FIELDS = ('nu', 'theta0', 'gamma', 'h', 'beta', 'T')
LIST_FIELDS = ('fs', 'nus', 'gammas', 'hs', 'Fs', 'ploidy', 'es')

def map_instr(f, i):
    if i['op'] == 'if':
        return {'op': 'if', 'a': f(i['a']), 'b': f(i['b']), 'then': map_prog(f, i['then']), 'else': map_prog(f, i['else'])}
    o = dict(i)
    for k in EXPR_FIELDS:
        if k in o:
            o[k] = f(o[k])
    for k in LIST_FIELDS:
        if k in o:
            o[k] = [f(x) for x in o[k]]
    if 'ms' in o:
        o['ms'] = [[f(x) for x in r] for r in o['ms']]
    return o

def map_prog(f, p):
    return [map_instr(f, i) for i in p]

def is_identity(i):
    if i['op'] == 'integrate':
        return is_c(i['T'], 0)
    if i['op'] == 'pulse':
        return all(is_c(f, 0) for f in i['fs'])
    return False

def is_lt(A, x, y):
    if is_c(x, 0) and is_pos(A, y):
        return True
    if y[0] == 'add':
        return (eqb(x, y[1]) and is_pos(A, y[2])) or (eqb(x, y[2]) and is_pos(A, y[1]))
    return False

def decide_ge(A, x, y):
    cx, cy = cq(x), cq(y)
    if cx is not None and cy is not None:
        return cy <= cx
    if eqb(x, y):
        return True
    if is_c(y, 0) and is_nonneg(A, x):
        return True
    if is_lt(A, x, y):
        return False
    return None

def norm(A, p):
    out = []
    for i in p:
        if i['op'] == 'if':
            a = simp(A, i['a']); b = simp(A, i['b'])
            d = decide_ge(A, a, b)
            if d is True:
                return fuse(out + norm(A, i['then']))
            if d is False:
                return fuse(out + norm(A, i['else']))
            return fuse(out) + [{'op': 'if', 'a': a, 'b': b, 'then': norm(A, i['then']), 'else': norm(A, i['else'])}]
        j = map_instr(lambda e: simp(A, e), i)
        if not is_identity(j):
            out.append(j)
    return fuse(out)

def fuse(p):
    """rule `fuse` of DSL.v: a third population created by admixture DIRECTLY after the first split (phi_1D_to_2D: density on the
    diagonal) is the split of population 2 whatever the proportion.  Applied to a normalised straight-line prefix (the Coq
    normaliser applies it bottom-up at every Step; a rewritten instruction never enables another rewrite, so the result is the same)"""
    out = list(p)
    for k in range(len(out) - 1):
        a, b = out[k], out[k + 1]
        if a['op'] == 'split' and a['d'] == 1 and a['parent'] == 0 and b['op'] == 'admixnew' and b['d'] == 2 and len(b['fs']) == 1:
            out[k + 1] = {'op': 'split', 'd': 2, 'parent': 1}
    return out

def instr_eq(i, j):
    if i['op'] != j['op']:
        return False
    if i['op'] == 'if':
        return eqb(i['a'], j['a']) and eqb(i['b'], j['b']) and prog_eq(i['then'], j['then']) and prog_eq(i['else'], j['else'])
    if set(i) != set(j):
        return False
    for k in i:
        if k == 'op':
            continue
        if k in EXPR_FIELDS:
            if not eqb(i[k], j[k]): return False
        elif k in LIST_FIELDS:
            if len(i[k]) != len(j[k]) or not all(eqb(x, y) for x, y in zip(i[k], j[k])): return False
        elif k == 'ms':
            if len(i[k]) != len(j[k]): return False
            for r, s in zip(i[k], j[k]):
                if len(r) != len(s) or not all(eqb(x, y) for x, y in zip(r, s)): return False
        elif i[k] != j[k]:
            return False
    return True

def prog_eq(p, q):
    return len(p) == len(q) and all(instr_eq(i, j) for i, j in zip(p, q))

def first_difference(p, q):
    for k, (i, j) in enumerate(zip(p, q)):
        if not instr_eq(i, j):
            return k, i, j
    if len(p) != len(q):
        return min(len(p), len(q)), (p[len(q)] if len(p) > len(q) else None), (q[len(p)] if len(q) > len(p) else None)
    return None

def relabel(pm, p):
    """pm: dict d -> permutation (new axis i carries old population pm[d][i])"""
    out = []
    for i in p:
        if i['op'] == 'if':
            out.append({'op': 'if', 'a': i['a'], 'b': i['b'], 'then': relabel(pm, i['then']), 'else': relabel(pm, i['else'])})
            continue
        o = dict(i)
        if i['op'] == 'split':
            o['parent'] = pm[i['d']].index(i['parent'])
        elif i['op'] == 'pulse':
            pi = pm[i['d']]
            o['srcs'] = [pi.index(s) for s in i['srcs']]; o['dst'] = pi.index(i['dst'])
        elif i['op'] == 'integrate':
            pi = pm[len(i['nus'])]
            for k in ('nus', 'gammas', 'hs', 'frozen', 'nomut'):
                o[k] = [i[k][a] for a in pi]
            o['ms'] = [[i['ms'][a][b] for b in pi] for a in pi]
        out.append(o)
    return out

def evaluate(e, env, t=0.0):
    k = e[0]
    if k == 'var': return env[e[1]]
    if k == 't': return t
    if k == 'const': return float(Fraction(e[1]))
    a = evaluate(e[1], env, t)
    b = evaluate(e[2], env, t) if len(e) > 2 else None
    if k == 'add': return a + b
    if k == 'sub': return a - b
    if k == 'mul': return a * b
    if k == 'div': return a / b
    if k == 'neg': return -a
    if k == 'exp': return math.exp(a)
    if k == 'log': return math.log(a)
    if k == 'pow': return a ** b
    raise ValueError(k)

def show_expr(e, names=None):
    k = e[0]
    if k == 'var': return names[e[1]] if names and e[1] < len(names) else 'p%d' % e[1]
    if k == 't': return 't'
    if k == 'const':
        f = Fraction(e[1]); return str(f)
    if k in ('neg', 'exp', 'log'):
        return '%s(%s)' % ({'neg': '-', 'exp': 'exp', 'log': 'log'}[k], show_expr(e[1], names))
    op = {'add': '+', 'sub': '-', 'mul': '*', 'div': '/', 'pow': '**'}[k]
    return '(%s %s %s)' % (show_expr(e[1], names), op, show_expr(e[2], names))

def show_instr(i, names=None):
    S = lambda e: show_expr(e, names)
    o = i['op']
    if o == 'integrate':
        return 'Integrate{T=%s; nus=[%s]; ms=%s; gammas=[%s]; hs=[%s]; theta0=%s; frozen=%s}' % (
            S(i['T']), ', '.join(S(x) for x in i['nus']), [[S(x) for x in r] for r in i['ms']],
            ', '.join(S(x) for x in i['gammas']), ', '.join(S(x) for x in i['hs']), S(i['theta0']), i['frozen'])
    if o == 'if':
        return 'If %s >= %s' % (S(i['a']), S(i['b']))
    parts = []
    for k, v in i.items():
        if k == 'op': continue
        if k in EXPR_FIELDS: parts.append('%s=%s' % (k, S(v)))
        elif k in LIST_FIELDS: parts.append('%s=[%s]' % (k, ', '.join(S(x) for x in v)))
        else: parts.append('%s=%r' % (k, v))
    return '%s(%s)' % (o, ', '.join(parts))
