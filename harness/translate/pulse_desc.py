"""Fail-closed extractor for dadi/PhiManip.py: reads the population constructors and the in-place
admixture pulse functions with `ast` and returns, for each, a descriptor

    {name, dim, args, axgrids, gdep, dest, gint}

args    : the proportion arguments handed to _<n>_pop_admixture_intermediates, in order, each
          ('PF', i)  = i-th proportion parameter of the public function,
          ('PRest',) = 1 - p0 - p1 - ... over all its proportion parameters in signature order,
          ('PZ', v)  = integer literal
axgrids : for each axis slot of the helper, the index of the grid parameter that is passed
gdep    : index of the grid parameter passed as the helper's last argument (grid deposited on)
dest    : axis that is sliced / integrated out / overwritten (None for constructors: new last axis)
gint    : index of the grid parameter passed to Numerics.trapz (= gdep for constructors)

Anything outside the recognised shape raises Refuse.  Nothing is guessed.
"""
import ast, re

class Refuse(Exception):
    pass

HELPERS = {2: '_two_pop_admixture_intermediates', 3: '_three_pop_admixture_intermediates',
           4: '_four_pop_admixture_intermediates', 5: '_five_pop_admixture_intermediates'}
PULSE_RE = re.compile(r'^phi_(\d)D_admix_.*$')

def parse(path):
    return ast.parse(open(path).read())

def find(tree, name):
    hits = [n for n in tree.body if isinstance(n, ast.FunctionDef) and n.name == name]
    if len(hits) != 1:
        raise Refuse('expected exactly one top-level def %s, found %d' % (name, len(hits)))
    return hits[0]

def body_wo_doc(fn):
    b = list(fn.body)
    if b and isinstance(b[0], ast.Expr) and isinstance(b[0].value, ast.Constant) and isinstance(b[0].value.value, str):
        b = b[1:]
    return b

def same(node, src):
    """node is, up to formatting, the statement/expression written in src"""
    want = ast.parse(src).body[0]
    if isinstance(want, ast.Expr) and not isinstance(node, ast.Expr):
        want = want.value
    return ast.dump(node) == ast.dump(want)

def is_name(e, n=None):
    return isinstance(e, ast.Name) and (n is None or e.id == n)

def chain(e, op):
    """left-associated chain  a op b op c  -> [a, b, c]"""
    out = []
    while isinstance(e, ast.BinOp) and isinstance(e.op, op):
        out.append(e.right)
        e = e.left
    out.append(e)
    return out[::-1]

def is_nuax(e):
    return (isinstance(e, ast.Name) and e.id == 'nuax') or \
           (isinstance(e, ast.Attribute) and e.attr == 'newaxis' and is_name(e.value, 'numpy'))

def is_full_slice(e):
    return isinstance(e, ast.Slice) and e.lower is None and e.upper is None and e.step is None

def sub_elts(s):
    sl = s.slice
    return list(sl.elts) if isinstance(sl, ast.Tuple) else [sl]

def rest_expr(e, names):
    """e is  1 - n0 - n1 - ...  over exactly `names` in order"""
    c = chain(e, ast.Sub)
    return (len(c) == len(names) + 1 and isinstance(c[0], ast.Constant) and c[0].value == 1 and type(c[0].value) is int
            and all(is_name(x, n) for x, n in zip(c[1:], names)))

# ------------------------------------------------------------------------------------------------
# _admixture_intermediates: the index / guard statements, and the three arithmetic lines

CORE_INDEX_STMTS = [
    'upper_z_index = numpy.searchsorted(zz, ad_z)',
    'upper_z_index = numpy.minimum(upper_z_index, len(zz)-1)',
    'upper_z_index = numpy.maximum(upper_z_index, 1)',
    'lower_z_index = upper_z_index - 1',
    'upper_z = zz[upper_z_index]',
    'lower_z = zz[lower_z_index]',
    'delz0 = zz[lower_z_index] - zz[lower_z_index-1]',
    'delz0 = numpy.where(lower_z_index == 0, 0, delz0)',
    'delz1 = zz[upper_z_index] - zz[lower_z_index]',
    'delz1 = numpy.where(upper_z_index == 0, 0, delz1)',
    'delz2 = zz[(upper_z_index+1)%len(zz)] - zz[upper_z_index]',
    'delz2 = numpy.where(upper_z_index == len(zz)-1, 0, delz2)',
]
CORE_RETURN = 'return lower_z_index, upper_z_index, frac_lower, frac_upper, norm'
CORE_ARITH = ['frac_lower', 'frac_upper', 'norm']

def extract_core(tree):
    """returns {'frac_lower': ast expr, 'frac_upper': ..., 'norm': ...} after checking everything else verbatim"""
    fn = find(tree, '_admixture_intermediates')
    if [a.arg for a in fn.args.args] != ['phi', 'ad_z', 'zz'] or fn.args.vararg or fn.args.kwarg or fn.args.defaults:
        raise Refuse('_admixture_intermediates: signature changed')
    b = body_wo_doc(fn)
    if len(b) != len(CORE_INDEX_STMTS) + 4:
        raise Refuse('_admixture_intermediates: %d statements, expected %d' % (len(b), len(CORE_INDEX_STMTS) + 4))
    for st, src in zip(b, CORE_INDEX_STMTS):
        if not same(st, src):
            raise Refuse('_admixture_intermediates: statement differs from the modelled one: expected `%s`, found `%s`'
                         % (src, ast.unparse(st)))
    arith = {}
    for st, nm in zip(b[len(CORE_INDEX_STMTS):], CORE_ARITH):
        if not (isinstance(st, ast.Assign) and len(st.targets) == 1 and is_name(st.targets[0], nm)):
            raise Refuse('_admixture_intermediates: expected an assignment to %s' % nm)
        arith[nm] = st.value
    if not same(b[-1], CORE_RETURN):
        raise Refuse('_admixture_intermediates: return statement changed')
    return arith

# ------------------------------------------------------------------------------------------------
# _<n>_pop_admixture_intermediates

def extract_helper(tree, n):
    """-> {'n', 'check': bool, 'coefs': [('PF', i) ... , ('PRest',)], 'params': [...]}"""
    name = HELPERS[n]
    fn = find(tree, name)
    params = [a.arg for a in fn.args.args]
    if len(params) != 1 + (n - 1) + n + 1 or fn.args.vararg or fn.args.kwarg or fn.args.defaults:
        raise Refuse('%s: signature %r' % (name, params))
    phi, fs, grids, new = params[0], params[1:n], params[n:2 * n], params[-1]
    b = body_wo_doc(fn)
    check = False
    if b and isinstance(b[0], ast.If):
        t = b[0].test
        ok = (isinstance(t, ast.Compare) and len(t.ops) == 1 and isinstance(t.ops[0], ast.Gt)
              and isinstance(t.comparators[0], ast.Constant) and t.comparators[0].value == 1
              and not b[0].orelse and len(b[0].body) == 1 and isinstance(b[0].body[0], ast.Raise))
        if ok:
            terms = chain(t.left, ast.Add)
            ok = len(terms) == len(fs) and all(is_name(x, f) for x, f in zip(terms, fs))
        if ok:
            r = b[0].body[0].exc
            ok = isinstance(r, ast.Call) and is_name(r.func, 'ValueError')
        if not ok:
            raise Refuse('%s: proportion test not of the shape  if f1 + f2 + ... > 1: raise ValueError' % name)
        check = True
        b = b[1:]
    if len(b) != 3:
        raise Refuse('%s: body has %d statements after the test, expected 3' % (name, len(b)))
    st = b[0]
    if not (isinstance(st, ast.Assign) and len(st.targets) == 1 and isinstance(st.targets[0], ast.Name)):
        raise Refuse('%s: expected ad_w = ...' % name)
    adname = st.targets[0].id
    terms = chain(st.value, ast.Add)
    if len(terms) != n:
        raise Refuse('%s: ad-mixed frequency has %d terms, expected %d' % (name, len(terms), n))
    coefs = []
    for k, t in enumerate(terms):
        if not (isinstance(t, ast.BinOp) and isinstance(t.op, ast.Mult) and isinstance(t.right, ast.Subscript)
                and is_name(t.right.value, grids[k])):
            raise Refuse('%s: term %d is not coef*%s[...]' % (name, k, grids[k]))
        el = sub_elts(t.right)
        if len(el) != n or not all((is_full_slice(e) if j == k else is_nuax(e)) for j, e in enumerate(el)):
            raise Refuse('%s: term %d is not broadcast along axis %d' % (name, k, k))
        c = t.left
        if isinstance(c, ast.Name) and c.id in fs:
            coefs.append(('PF', fs.index(c.id)))
        elif rest_expr(c, fs):
            coefs.append(('PRest',))
        else:
            raise Refuse('%s: coefficient of term %d not recognised: %s' % (name, k, ast.unparse(c)))
    st = b[1]
    if not (isinstance(st, ast.Assign) and len(st.targets) == 1 and isinstance(st.targets[0], ast.Tuple)
            and len(st.targets[0].elts) == 5 and isinstance(st.value, ast.Call)
            and is_name(st.value.func, '_admixture_intermediates') and not st.value.keywords
            and len(st.value.args) == 3 and is_name(st.value.args[0], phi) and is_name(st.value.args[1], adname)
            and is_name(st.value.args[2], new)):
        raise Refuse('%s: call of _admixture_intermediates(%s, %s, %s) not found' % (name, phi, adname, new))
    outs = [e.id for e in st.targets[0].elts if isinstance(e, ast.Name)]
    if not (isinstance(b[2], ast.Return) and isinstance(b[2].value, ast.Tuple)
            and [getattr(e, 'id', None) for e in b[2].value.elts] == outs and len(outs) == 5):
        raise Refuse('%s: does not return the five intermediates in order' % name)
    return {'n': n, 'check': check, 'coefs': coefs}

def expected_helper(n):
    return {'n': n, 'check': n >= 3, 'coefs': [('PF', i) for i in range(n - 1)] + [('PRest',)]}

# ------------------------------------------------------------------------------------------------
# public functions

def split_params(fn, want_deme_ids):
    params = [a.arg for a in fn.args.args]
    if fn.args.vararg or fn.args.kwarg or fn.args.kwonlyargs:
        raise Refuse('%s: varargs' % fn.name)
    if want_deme_ids:
        if not (params and params[-1] == 'deme_ids' and len(fn.args.defaults) == 1):
            raise Refuse('%s: expected a trailing deme_ids=None' % fn.name)
        params = params[:-1]
    elif fn.args.defaults:
        raise Refuse('%s: unexpected defaults' % fn.name)
    return params

def helper_call(fn, st, props, grids, phi):
    """st:  a, b, c, d, e = _<n>_pop_admixture_intermediates(phi, <args>, <grids>, <gdep>)"""
    if not (isinstance(st, ast.Assign) and len(st.targets) == 1 and isinstance(st.targets[0], ast.Tuple)
            and len(st.targets[0].elts) == 5 and all(isinstance(e, ast.Name) for e in st.targets[0].elts)
            and isinstance(st.value, ast.Call) and isinstance(st.value.func, ast.Name) and not st.value.keywords):
        raise Refuse('%s: expected the five intermediates to be assigned from a helper call' % fn.name)
    hn = st.value.func.id
    ns = [n for n, h in HELPERS.items() if h == hn]
    if not ns:
        raise Refuse('%s: calls %s, not an admixture-intermediates helper' % (fn.name, hn))
    n = ns[0]
    a = st.value.args
    if len(a) != 1 + (n - 1) + n + 1 or not is_name(a[0], phi):
        raise Refuse('%s: helper call has %d arguments' % (fn.name, len(a)))
    args = []
    for e in a[1:n]:
        if isinstance(e, ast.Name) and e.id in props:
            args.append(('PF', props.index(e.id)))
        elif isinstance(e, ast.Constant) and type(e.value) is int:
            args.append(('PZ', e.value))
        elif rest_expr(e, props):
            args.append(('PRest',))
        else:
            raise Refuse('%s: proportion argument not recognised: %s' % (fn.name, ast.unparse(e)))
    gi = []
    for e in a[n:]:
        if not (isinstance(e, ast.Name) and e.id in grids):
            raise Refuse('%s: grid argument not recognised: %s' % (fn.name, ast.unparse(e)))
        gi.append(grids.index(e.id))
    outs = [e.id for e in st.targets[0].elts]
    return n, args, gi[:-1], gi[-1], outs

def is_demes_append(st):
    return (isinstance(st, ast.Expr) and isinstance(st.value, ast.Call) and isinstance(st.value.func, ast.Attribute)
            and st.value.func.attr == 'append' and isinstance(st.value.func.value, ast.Attribute)
            and st.value.func.value.attr == 'cache' and is_name(st.value.func.value.value, 'Demes'))

def axis_of_extent(e, phi, grids):
    """phi.shape[k] -> k ; len(<grid k>) -> k"""
    if (isinstance(e, ast.Subscript) and isinstance(e.value, ast.Attribute) and e.value.attr == 'shape'
            and is_name(e.value.value, phi) and isinstance(e.slice, ast.Constant) and type(e.slice.value) is int):
        return e.slice.value
    if isinstance(e, ast.Call) and is_name(e.func, 'len') and len(e.args) == 1 and isinstance(e.args[0], ast.Name) \
            and e.args[0].id in grids:
        return grids.index(e.args[0].id)
    raise Refuse('extent not recognised: %s' % ast.unparse(e))

def is_call(e, mod, attr, nargs=None):
    return (isinstance(e, ast.Call) and isinstance(e.func, ast.Attribute) and e.func.attr == attr
            and is_name(e.func.value, mod) and (nargs is None or len(e.args) == nargs))

def extract_pulse(tree, name):
    fn = find(tree, name)
    m = PULSE_RE.match(name)
    d = int(m.group(1))
    params = split_params(fn, False)
    if len(params) != 1 + (d - 1) + d:
        raise Refuse('%s: %d parameters, expected phi + %d proportions + %d grids' % (name, len(params), d - 1, d))
    phi, props, grids = params[0], params[1:d], params[d:]
    b = [st for st in body_wo_doc(fn) if not is_demes_append(st)]
    if len(b) < 6:
        raise Refuse('%s: body too short' % name)
    n, args, axgrids, gdep, outs = helper_call(fn, b[0], props, grids, phi)
    if n != d:
        raise Refuse('%s: calls the %d-population helper' % (name, n))
    lo_i, up_i, fl, fu, nrm = outs
    # lower_cont / upper_cont / idx = numpy.arange(extent), in any order, then the loop nest, then return phi
    conts = {}
    idxvar = None; idxaxis = None
    for st in b[1:-2]:
        if not (isinstance(st, ast.Assign) and len(st.targets) == 1 and isinstance(st.targets[0], ast.Name)):
            raise Refuse('%s: unexpected statement %s' % (name, ast.unparse(st)))
        t = st.targets[0].id
        v = st.value
        if isinstance(v, ast.BinOp) and isinstance(v.op, ast.Mult) and is_name(v.right, nrm) and is_name(v.left, fl):
            conts['lower'] = t
        elif isinstance(v, ast.BinOp) and isinstance(v.op, ast.Mult) and is_name(v.right, nrm) and is_name(v.left, fu):
            conts['upper'] = t
        elif is_call(v, 'numpy', 'arange', 1):
            idxvar = t; idxaxis = axis_of_extent(v.args[0], phi, grids)
        else:
            raise Refuse('%s: unexpected assignment %s' % (name, ast.unparse(st)))
    if set(conts) != {'lower', 'upper'} or idxvar is None:
        raise Refuse('%s: lower_cont / upper_cont / index vector not all found' % name)
    if not (isinstance(b[-1], ast.Return) and is_name(b[-1].value, phi)):
        raise Refuse('%s: does not return phi' % name)
    # loop nest
    loops = []      # (var, axis)
    st = b[-2]
    while isinstance(st, ast.For):
        if not (isinstance(st.target, ast.Name) and isinstance(st.iter, ast.Call) and is_name(st.iter.func, 'range')
                and len(st.iter.args) == 1 and not st.orelse and len(st.body) >= 1):
            raise Refuse('%s: loop shape' % name)
        loops.append((st.target.id, axis_of_extent(st.iter.args[0], phi, grids)))
        if len(st.body) == 1:
            st = st.body[0]
        else:
            inner = st.body
            break
    else:
        raise Refuse('%s: loop nest without body' % name)
    if len(loops) != d - 1 or len(set(a for _, a in loops)) != d - 1:
        raise Refuse('%s: %d loops for %d populations' % (name, len(loops), d))
    dest = [k for k in range(d) if k not in [a for _, a in loops]]
    if len(dest) != 1:
        raise Refuse('%s: destination axis ambiguous' % name)
    dest = dest[0]
    if idxaxis != dest:
        raise Refuse('%s: index vector runs over axis %d, destination is %d' % (name, idxaxis, dest))
    var_at = {a: v for v, a in loops}
    def check_sub(s, base):
        """s is base[<loop vars at their axes, full slice at dest>] (trailing full slices may be omitted)"""
        if not (isinstance(s, ast.Subscript) and is_name(s.value, base)):
            raise Refuse('%s: expected a subscript of %s, found %s' % (name, base, ast.unparse(s)))
        el = sub_elts(s)
        if len(el) > d:
            raise Refuse('%s: too many indices in %s' % (name, ast.unparse(s)))
        for k in range(d):
            if k < len(el):
                ok = is_full_slice(el[k]) if k == dest else is_name(el[k], var_at[k])
            else:
                ok = (k == dest)
            if not ok:
                raise Refuse('%s: index %d of %s does not address the line along axis %d' % (name, k, ast.unparse(s), dest))
    if len(inner) != 4:
        raise Refuse('%s: innermost body has %d statements, expected 4' % (name, len(inner)))
    z, s_lo, s_up, s_tr = inner
    if not (isinstance(z, ast.Assign) and len(z.targets) == 1 and isinstance(z.targets[0], ast.Name)
            and is_call(z.value, 'numpy', 'zeros', 1) and isinstance(z.value.args[0], ast.Tuple) and len(z.value.args[0].elts) == 2
            and all(axis_of_extent(e, phi, grids) == dest for e in z.value.args[0].elts)):
        raise Refuse('%s: temporary is not numpy.zeros((n_dest, n_dest))' % name)
    tmp = z.targets[0].id
    def check_dep(st, which, idxname, contname, allow_aug):
        if isinstance(st, ast.Assign) and len(st.targets) == 1:
            tg, val = st.targets[0], st.value
        elif allow_aug and isinstance(st, ast.AugAssign) and isinstance(st.op, ast.Add):
            tg, val = st.target, st.value
        else:
            raise Refuse('%s: %s deposit statement shape' % (name, which))
        if not (isinstance(tg, ast.Subscript) and is_name(tg.value, tmp)):
            raise Refuse('%s: %s deposit does not write the temporary' % (name, which))
        el = sub_elts(tg)
        if len(el) != 2 or not is_name(el[0], idxvar):
            raise Refuse('%s: %s deposit rows are not the index vector' % (name, which))
        check_sub(el[1], idxname)
        check_sub(val, contname)
    check_dep(s_lo, 'lower', lo_i, conts['lower'], False)
    check_dep(s_up, 'upper', up_i, conts['upper'], True)
    if not (isinstance(s_tr, ast.Assign) and len(s_tr.targets) == 1 and is_call(s_tr.value, 'Numerics', 'trapz', 2)
            and is_name(s_tr.value.args[0], tmp) and isinstance(s_tr.value.args[1], ast.Name)
            and s_tr.value.args[1].id in grids and len(s_tr.value.keywords) == 1 and s_tr.value.keywords[0].arg == 'axis'
            and isinstance(s_tr.value.keywords[0].value, ast.Constant) and s_tr.value.keywords[0].value.value == 0):
        raise Refuse('%s: integration statement is not phi[...] = Numerics.trapz(tmp, <grid>, axis=0)' % name)
    check_sub(s_tr.targets[0], phi)
    gint = grids.index(s_tr.value.args[1].id)
    return {'name': name, 'dim': d, 'args': args, 'axgrids': axgrids, 'gdep': gdep, 'dest': dest, 'gint': gint}

def extract_cons(tree, name, d):
    """phi_<d>D_to_<d+1>D...(phi, f.., grids.., newgrid, deme_ids=None)"""
    fn = find(tree, name)
    params = split_params(fn, True)
    if len(params) != 1 + (d - 1) + d + 1:
        raise Refuse('%s: %d parameters' % (name, len(params)))
    phi, props, grids = params[0], params[1:d], params[d:]
    b = [st for st in body_wo_doc(fn) if not is_demes_append(st)]
    if len(b) != 1 + d + 4:
        raise Refuse('%s: %d statements, expected %d' % (name, len(b), d + 5))
    n, args, axgrids, gdep, outs = helper_call(fn, b[0], props, grids, phi)
    if n != d:
        raise Refuse('%s: calls the %d-population helper' % (name, n))
    lo_i, up_i, fl, fu, nrm = outs
    idx = []
    for k, st in enumerate(b[1:1 + d]):
        ok = (isinstance(st, ast.Assign) and len(st.targets) == 1 and isinstance(st.targets[0], ast.Name)
              and isinstance(st.value, ast.Subscript) and is_call(st.value.value, 'numpy', 'arange', 1))
        if ok:
            el = sub_elts(st.value)
            ok = (axis_of_extent(st.value.value.args[0], phi, grids) == k and len(el) == d
                  and all((is_full_slice(e) if j == k else is_nuax(e)) for j, e in enumerate(el)))
        if not ok:
            raise Refuse('%s: index array %d is not numpy.arange(len(grid %d)) broadcast along axis %d' % (name, k, k, k))
        idx.append(st.targets[0].id)
    z = b[1 + d]
    if not (isinstance(z, ast.Assign) and len(z.targets) == 1 and isinstance(z.targets[0], ast.Name)
            and is_call(z.value, 'numpy', 'zeros', 1) and isinstance(z.value.args[0], ast.Tuple)
            and [axis_of_extent(e, phi, grids) for e in z.value.args[0].elts] == list(range(d)) + [gdep]):
        raise Refuse('%s: result is not numpy.zeros((len(grid 0), ..., len(new grid)))' % name)
    res = z.targets[0].id
    def check_dep(st, aug, idxname, frac):
        if aug:
            ok = isinstance(st, ast.AugAssign) and isinstance(st.op, ast.Add); tg = st.target if ok else None
        else:
            ok = isinstance(st, ast.Assign) and len(st.targets) == 1; tg = st.targets[0] if ok else None
        ok = ok and isinstance(tg, ast.Subscript) and is_name(tg.value, res)
        if ok:
            el = sub_elts(tg)
            ok = len(el) == d + 1 and all(is_name(e, i) for e, i in zip(el[:d], idx)) and is_name(el[d], idxname)
        v = st.value
        ok = ok and isinstance(v, ast.BinOp) and isinstance(v.op, ast.Mult) and is_name(v.left, frac) and is_name(v.right, nrm)
        if not ok:
            raise Refuse('%s: deposit statement not recognised: %s' % (name, ast.unparse(st)))
    check_dep(b[2 + d], False, lo_i, fl)
    check_dep(b[3 + d], True, up_i, fu)
    if not (isinstance(b[-1], ast.Return) and is_name(b[-1].value, res)):
        raise Refuse('%s: does not return the new array' % name)
    return {'name': name, 'dim': d, 'args': args, 'axgrids': axgrids, 'gdep': gdep, 'dest': None, 'gint': gdep}

def extract_split(tree, name, admix_desc):
    """phi_2D_to_3D_split_k(xx, phi_2D, deme_ids=None):  check_xx(xx); return phi_2D_to_3D_admix(phi_2D, c, xx,xx,xx, deme_ids)"""
    fn = find(tree, name)
    params = split_params(fn, True)
    if len(params) != 2:
        raise Refuse('%s: parameters %r' % (name, params))
    g, phi = params
    b = body_wo_doc(fn)
    if not (len(b) == 2 and same(b[0], 'check_xx(%s)' % g) and isinstance(b[1], ast.Return) and isinstance(b[1].value, ast.Call)
            and is_name(b[1].value.func, 'phi_2D_to_3D_admix') and not b[1].value.keywords and len(b[1].value.args) == 6):
        raise Refuse('%s: body is not check_xx + return phi_2D_to_3D_admix(...)' % name)
    a = b[1].value.args
    if not (is_name(a[0], phi) and isinstance(a[1], ast.Constant) and type(a[1].value) is int
            and all(is_name(e, g) for e in a[2:5]) and is_name(a[5], 'deme_ids')):
        raise Refuse('%s: arguments of phi_2D_to_3D_admix not recognised' % name)
    if admix_desc['args'] != [('PF', 0)]:
        raise Refuse('phi_2D_to_3D_admix does not forward its proportion unchanged')
    gi = [0, 0, 0]
    return {'name': name, 'dim': 2, 'args': [('PZ', a[1].value)], 'axgrids': [gi[k] for k in admix_desc['axgrids']],
            'gdep': gi[admix_desc['gdep']], 'dest': None, 'gint': gi[admix_desc['gint']]}

def pulse_names(tree):
    return [n.name for n in tree.body if isinstance(n, ast.FunctionDef) and PULSE_RE.match(n.name)]

# ------------------------------------------------------------------------------------------------
# Coq printing

def coq_arg(a):
    if a[0] == 'PF':
        return 'PF %d' % a[1]
    if a[0] == 'PZ':
        return 'PZ (%d)' % a[1]
    return 'PRest'

def coq_desc(d):
    return 'mkp "%s"%%string %d [%s] [%s] %d %s %d' % (
        d['name'], d['dim'], '; '.join(coq_arg(a) for a in d['args']), '; '.join(str(g) for g in d['axgrids']),
        d['gdep'], 'None' if d['dest'] is None else '(Some %d)' % d['dest'], d['gint'])
