"""C20 — fail-closed structural translators (Python `ast`, plus a line parser for the .pyx wrappers).

  integrator_protocols(Integration.py)  entry protocol of every function whose first parameter is `phi`
  pyx_wrappers(integration_c.pyx)       every `def implicit_*`: raw data pointer of `phi`, returns `phi`
  reorder_descriptor(PhiManip.py)       reorder_pops: transposed view or copy
  demes_handoff(Demes/Demes.py)         _integrate_phi hands `phi` straight to Integration.*_pops
  spectrum_S(Spectrum_mod.py)           Spectrum.S: save mask / mask_corners / sum / restore
  param_mutations(file)                 every syntactic mutation of a parameter (subscript / attribute store,
                                        augmented assignment, mutating method call) before the parameter is re-bound
  cache_keys(file)                      every module-level `NAME = {}` and, per function using it, the key expression
  spectrum_operators(Spectrum_mod.py)   the exec-generated arithmetic operators of class Spectrum: per method, does the constructor call
                                        that builds the result copy its inputs (data AND mask), what are newdata / newmask made from
  copy_keywords(root)                   every call in dadi/**/*.py (exec templates included) that passes a `copy=` keyword

A translator REFUSES (raises Refuse) when the source leaves the recognised shape; it never guesses.
"""
import ast, re, builtins


class Refuse(Exception):
    pass


def _parse(path):
    import warnings
    try:
        with open(path) as f, warnings.catch_warnings():
            warnings.simplefilter('ignore')          # invalid escape sequences in docstrings of the library
            return ast.parse(f.read())
    except (OSError, SyntaxError) as e:
        raise Refuse('%s: %s' % (path, e))


def _body_wo_doc(fn):
    b = list(fn.body)
    if b and isinstance(b[0], ast.Expr) and isinstance(getattr(b[0], 'value', None), ast.Constant) and isinstance(b[0].value.value, str):
        b = b[1:]
    return b


def _is_copy_of(node, name):
    """`name = name.copy()` / `name = numpy.array(name, copy=True)` / `name = numpy.copy(name)`"""
    if not (isinstance(node, ast.Assign) and len(node.targets) == 1 and isinstance(node.targets[0], ast.Name) and node.targets[0].id == name):
        return False
    v = node.value
    if not isinstance(v, ast.Call):
        return False
    f = v.func
    if isinstance(f, ast.Attribute) and f.attr == 'copy' and isinstance(f.value, ast.Name) and f.value.id == name and not v.args:
        return all(k.arg == 'order' and isinstance(k.value, ast.Constant) and k.value.value == 'C' for k in v.keywords)
    if isinstance(f, ast.Attribute) and isinstance(f.value, ast.Name) and f.value.id in ('numpy', 'np') and f.attr in ('copy', 'array') \
            and len(v.args) == 1 and isinstance(v.args[0], ast.Name) and v.args[0].id == name:
        if f.attr == 'copy':
            return not v.keywords
        return all((k.arg == 'copy' and isinstance(k.value, ast.Constant) and k.value.value is True) or k.arg == 'dtype' for k in v.keywords)
    return False


def _stores_to(fn, name):
    """line numbers of every re-binding of the bare name inside fn (nested functions excluded)"""
    out = []
    for n in _walk_no_nested(fn):
        if isinstance(n, (ast.Assign, ast.AnnAssign, ast.AugAssign, ast.For, ast.With, ast.NamedExpr)):
            tg = n.targets if isinstance(n, ast.Assign) else [getattr(n, 'target', None)] if not isinstance(n, ast.With) else [i.optional_vars for i in n.items]
            for t in tg:
                if t is None:
                    continue
                for m in ast.walk(t):
                    if isinstance(m, ast.Name) and m.id == name and isinstance(m.ctx, ast.Store):
                        if isinstance(n, ast.AugAssign):
                            continue   # in-place for arrays: not a re-binding
                        out.append(n.lineno)
    return sorted(out)


def _walk_no_nested(fn):
    """ast.walk that does not descend into nested function / class definitions / lambdas"""
    todo = [n for n in fn.body if not isinstance(n, (ast.FunctionDef, ast.AsyncFunctionDef, ast.ClassDef, ast.Lambda))]
    while todo:
        n = todo.pop()
        yield n
        for c in ast.iter_child_nodes(n):
            if isinstance(c, (ast.FunctionDef, ast.AsyncFunctionDef, ast.ClassDef, ast.Lambda)):
                continue
            todo.append(c)


KERNEL_OWNERS = ('int_c',)      # tridiag.tridiag(a, b, c, r) returns a new array


def integrator_protocols(path):
    """{name: descriptor} for every top-level function of Integration.py whose first parameter is called phi."""
    tree = _parse(path)
    out = {}
    for fn in tree.body:
        if not isinstance(fn, ast.FunctionDef) or not fn.args.args or fn.args.args[0].arg != 'phi':
            continue
        body = _body_wo_doc(fn)
        if not body:
            raise Refuse('%s: empty body' % fn.name)
        d = {'line': fn.lineno}
        d['copies_at_entry'] = _is_copy_of(body[0], 'phi')
        copy_lines = [n.lineno for n in body if _is_copy_of(n, 'phi')]          # top level of the body only
        d['copy_line'] = copy_lines[0] if copy_lines else None
        rebinds = _stores_to(fn, 'phi')
        first_rebind = rebinds[0] if rebinds else 10 ** 9
        rets, early = [], []
        for n in _walk_no_nested(fn):
            if isinstance(n, ast.Return):
                if isinstance(n.value, ast.Name) and n.value.id == 'phi':
                    rets.append(n.lineno)
                    if n.lineno < first_rebind:
                        early.append(n.lineno)       # returns the caller's own array
        d['returns_phi'] = sorted(rets)
        d['early_return_before_copy'] = bool(early) and (d['copy_line'] is None or min(early) < d['copy_line'])
        d['returns_argument_lines'] = sorted(early)
        kern, inject, deleg, mut = [], [], [], []
        for n in _walk_no_nested(fn):
            if isinstance(n, ast.Call):
                f = n.func
                if isinstance(f, ast.Attribute) and isinstance(f.value, ast.Name) and f.value.id in KERNEL_OWNERS:
                    a0 = n.args[0].id if n.args and isinstance(n.args[0], ast.Name) else ast.unparse(n.args[0]) if n.args else None
                    kern.append((f.value.id + '.' + f.attr, a0, n.lineno))
                elif isinstance(f, ast.Name) and f.id.startswith('_inject_mutations'):
                    a0 = n.args[0].id if n.args and isinstance(n.args[0], ast.Name) else None
                    inject.append((f.id, a0, n.lineno))
                elif isinstance(f, ast.Name) and 'const_params' in f.id:
                    a0 = n.args[0].id if n.args and isinstance(n.args[0], ast.Name) else None
                    deleg.append((f.id, a0, n.lineno))
            if isinstance(n, (ast.Assign, ast.AugAssign)):
                for t in (n.targets if isinstance(n, ast.Assign) else [n.target]):
                    if isinstance(t, ast.Subscript) and isinstance(t.value, ast.Name) and t.value.id == 'phi':
                        mut.append(n.lineno)
        d['kernels'] = sorted(set((k, a) for k, a, _ in kern))
        d['kernel_lines'] = sorted(l for _, _, l in kern)
        d['inject'] = sorted(set((k, a) for k, a, _ in inject))
        d['delegates'] = sorted(set((k, a) for k, a, _ in deleg))
        d['work_lines'] = sorted([l for _, _, l in kern] + [l for _, _, l in inject] + [l for _, _, l in deleg] + mut)
        # every place that works on `phi` must come after the copy (if any)
        d['works_on_argument'] = bool(d['work_lines']) and (d['copy_line'] is None or min(d['work_lines']) < d['copy_line'])
        d['kernels_on'] = sorted(set(a for _, a in d['kernels'] + d['inject'] + d['delegates'] if a is not None) | ({None} if any(a is None for _, a in d['kernels'] + d['inject'] + d['delegates']) else set()), key=str)
        out[fn.name] = d
    if not out:
        raise Refuse('no function with first parameter phi in %s' % path)
    return out


def classify_integrator(name, d):
    """'copy' | 'inplace' | refuse"""
    if d['kernels_on'] not in ([], ['phi']):
        raise Refuse('%s: kernels / helpers are called on %r, not on phi' % (name, d['kernels_on']))
    if d['copies_at_entry'] and not d['early_return_before_copy'] and not d['works_on_argument']:
        return 'copy'
    if d['copy_line'] is None:
        return 'inplace'
    raise Refuse('%s: phi is copied at line %d, but not as the first statement (work at %r, returns of the argument at %r)'
                 % (name, d['copy_line'], d['work_lines'][:3], d['returns_argument_lines']))


_PYX_DEF = re.compile(r'^def\s+(\w+)\s*\(([^)]*)\)\s*:', re.M | re.S)


def pyx_wrappers(path):
    """{wrapper: {'c_func':..., 'first_arg':..., 'returns':...}} for every def in integration_c.pyx"""
    try:
        txt = open(path).read()
    except OSError as e:
        raise Refuse(str(e))
    txt_nc = re.sub(r'#.*', '', txt)
    ms = list(_PYX_DEF.finditer(txt_nc))
    if not ms:
        raise Refuse('no def in %s' % path)
    out = {}
    for i, m in enumerate(ms):
        name, params = m.group(1), m.group(2)
        body = txt_nc[m.end(): ms[i + 1].start() if i + 1 < len(ms) else len(txt_nc)]
        p0 = params.split(',')[0].split()
        if p0[-1] != 'phi' or p0[:-1] != ['np.ndarray']:
            raise Refuse('%s: first parameter is %r, expected `np.ndarray phi`' % (name, params.split(',')[0]))
        calls = re.findall(r'\b(c_\w+)\s*\(\s*(<double\s*\*>\s*)?([\w\.]+)', body)
        stmts = [s.strip() for s in re.split(r'\n(?=\S|\s{4}\S)', body) if s.strip()]
        rets = re.findall(r'^\s*return\s+(.+?)\s*$', body, re.M)
        if len(calls) != 1 or calls[0][0] != 'c_' + name:
            raise Refuse('%s: expected exactly one call of c_%s, found %r' % (name, name, [c[0] for c in calls]))
        other = re.sub(r'\bc_\w+\s*\(.*?\)\s*(?=\n\s*return)', '', body, flags=re.S)
        other = re.sub(r'^\s*return\s+.+$', '', other, flags=re.M).strip()
        if other:
            raise Refuse('%s: statements besides the kernel call and the return: %r' % (name, other[:80]))
        out[name] = {'c_func': calls[0][0], 'first_arg': re.sub(r'\s+', '', (calls[0][1] or '') + calls[0][2]), 'returns': rets}
    return out


def _find_func(tree, name, cls=None):
    scope = tree.body
    if cls:
        cs = [n for n in tree.body if isinstance(n, ast.ClassDef) and n.name == cls]
        if not cs:
            raise Refuse('class %s not found' % cls)
        scope = cs[0].body
    fs = [n for n in scope if isinstance(n, ast.FunctionDef) and n.name == name]
    if len(fs) != 1:
        raise Refuse('function %s%s not found (or defined %d times)' % (cls + '.' if cls else '', name, len(fs)))
    return fs[0]


def reorder_descriptor(path):
    fn = _find_func(_parse(path), 'reorder_pops')
    kinds = []
    for n in _walk_no_nested(fn):
        if isinstance(n, ast.Assign) and len(n.targets) == 1 and isinstance(n.targets[0], ast.Name) and n.targets[0].id == 'phi':
            src = ast.unparse(n.value)
            if re.fullmatch(r'phi\.transpose\(\w+\)', src):
                kinds.append('transposed-view')
            elif re.fullmatch(r'(numpy|np)\.ascontiguousarray\(phi\.transpose\(\w+\)\)', src) or re.fullmatch(r'phi\.transpose\(\w+\)\.copy\(\)', src):
                kinds.append('transposed-copy')
            else:
                raise Refuse('reorder_pops: unrecognised re-binding of phi: %s' % src)
    rets = [ast.unparse(n.value) for n in _walk_no_nested(fn) if isinstance(n, ast.Return) and n.value is not None]
    if len(kinds) != 1 or rets != ['phi']:
        raise Refuse('reorder_pops: expected one transposition of phi and `return phi`, got %r / %r' % (kinds, rets))
    return kinds[0]


def demes_handoff(path):
    """every dadi.Integration.<X>_pops(...) call of _integrate_phi with the expression handed over as phi"""
    fn = _find_func(_parse(path), '_integrate_phi')
    out = {}
    for n in _walk_no_nested(fn):
        if isinstance(n, ast.Call) and isinstance(n.func, ast.Attribute) and n.func.attr in ('one_pop', 'two_pops', 'three_pops', 'four_pops', 'five_pops'):
            if not n.args:
                raise Refuse('_integrate_phi: %s called without positional phi' % n.func.attr)
            out[n.func.attr] = ast.unparse(n.args[0])
    if sorted(out) != sorted(['one_pop', 'two_pops', 'three_pops', 'four_pops', 'five_pops']):
        raise Refuse('_integrate_phi: integrator calls found: %r' % sorted(out))
    return out


def spectrum_S(path):
    fn = _find_func(_parse(path), 'S', cls='Spectrum')
    src = [ast.unparse(s) for s in _body_wo_doc(fn)]
    restore = ['oldmask = self.mask.copy()', 'self.mask_corners()', 'S = self.sum()', 'self.mask = oldmask', 'return S']
    if src == restore:
        return 'save-mutate-restore'
    muts = [s for s in src if re.search(r'\bself\.(mask_corners|unmask_all)\(|\bself\.mask\b.*=|\bself\[', s)]
    if not muts:
        return 'pure'
    raise Refuse('Spectrum.S: mutation of self without the save/restore bracket: %r' % src)


MUTATORS = {'append', 'extend', 'insert', 'pop', 'remove', 'sort', 'reverse', 'clear', 'update', 'fill', 'resize', 'put',
            'itemset', 'setdefault', '__setitem__', 'popitem', 'setflags', 'partition', 'byteswap'}


def param_mutations(path, cls=None):
    """{qualified function name: [(param, kind, line)]}: syntactic mutations of a parameter object made before the
    parameter name is re-bound.  `self` is skipped (methods are observed at run time)."""
    tree = _parse(path)
    out = {}

    def scan(fn, qual):
        params = [a.arg for a in fn.args.posonlyargs + fn.args.args + fn.args.kwonlyargs]
        params = [p for p in params if p not in ('self', 'cls', 'subtype')]
        found = []
        for p in params:
            rb = _stores_to(fn, p)
            first = rb[0] if rb else 10 ** 9
            for n in _walk_no_nested(fn):
                ln = getattr(n, 'lineno', None)
                if ln is None or ln >= first:
                    # a re-binding on the same line (p = f(p)) happens after the right-hand side is evaluated
                    if not (ln == first and isinstance(n, ast.Call)):
                        continue
                if isinstance(n, (ast.Assign, ast.AugAssign)):
                    for t in (n.targets if isinstance(n, ast.Assign) else [n.target]):
                        for tt in (t.elts if isinstance(t, (ast.Tuple, ast.List)) else [t]):
                            if isinstance(tt, (ast.Subscript, ast.Attribute)):
                                base = tt.value
                                while isinstance(base, (ast.Subscript, ast.Attribute)):
                                    base = base.value
                                if isinstance(base, ast.Name) and base.id == p:
                                    found.append((p, 'store', ln))
                            if isinstance(n, ast.AugAssign) and isinstance(tt, ast.Name) and tt.id == p:
                                found.append((p, 'augassign', ln))
                if isinstance(n, ast.Call) and isinstance(n.func, ast.Attribute) and n.func.attr in MUTATORS \
                        and isinstance(n.func.value, ast.Name) and n.func.value.id == p:
                    found.append((p, 'call:' + n.func.attr, ln))
        if found:
            out[qual] = sorted(set(found), key=lambda t: (t[2], t[0], t[1]))

    for n in tree.body:
        if isinstance(n, ast.FunctionDef) and cls is None:
            scan(n, n.name)
        elif isinstance(n, ast.ClassDef) and (cls is None or n.name == cls):
            for m in n.body:
                if isinstance(m, ast.FunctionDef):
                    scan(m, n.name + '.' + m.name)
    return out


# ------------------------------------------------------------------------------------------------------------------
# caches

def _norm(expr):
    s = ast.unparse(expr)
    if isinstance(expr, ast.Tuple):
        s = '(' + ', '.join(ast.unparse(e) for e in expr.elts) + ')'
    return s


def module_caches(path):
    """names bound to an empty dict at module level"""
    tree = _parse(path)
    names = []
    for n in tree.body:
        if isinstance(n, ast.Assign) and isinstance(n.value, ast.Dict) and not n.value.keys:
            for t in n.targets:
                if isinstance(t, ast.Name):
                    names.append(t.id)
    return names


def _functions_with_parents(tree):
    """(function node, enclosing function node or None), all nesting levels"""
    res = []

    def rec(node, parent):
        for c in ast.iter_child_nodes(node):
            if isinstance(c, ast.FunctionDef):
                res.append((c, parent))
                rec(c, c)
            else:
                rec(c, parent)
    rec(tree, None)
    return res


def cache_keys(path, cache, local_in=None):
    """{function: descriptor} for every function that subscripts / tests membership in `cache`.
    local_in: name of the function in which `cache` is a local dictionary (closure-level cache)."""
    tree = _parse(path)
    out = {}
    for fn, parent in _functions_with_parents(tree):
        own = [n for n in _walk_no_nested(fn)]
        keys, stores, reads = [], [], []
        single = {}
        counts = {}
        for n in own:
            if isinstance(n, ast.Assign) and len(n.targets) == 1 and isinstance(n.targets[0], ast.Name):
                counts[n.targets[0].id] = counts.get(n.targets[0].id, 0) + 1
                single[n.targets[0].id] = n
        for n in own:
            if isinstance(n, ast.Subscript) and isinstance(n.value, ast.Name) and n.value.id == cache:
                keys.append((n.slice, n.lineno))
                (stores if isinstance(n.ctx, ast.Store) else reads).append(n.lineno)
            if isinstance(n, ast.Compare) and len(n.ops) == 1 and isinstance(n.ops[0], (ast.In, ast.NotIn)) \
                    and isinstance(n.comparators[0], ast.Name) and n.comparators[0].id == cache:
                keys.append((n.left, n.lineno))
        if not keys:
            continue
        normed = set()
        key_line = None
        for k, ln in keys:
            if isinstance(k, ast.Name) and counts.get(k.id) == 1:
                key_line = single[k.id].lineno
                k = single[k.id].value
            normed.add(_norm(k))
        params = [a.arg for a in fn.args.posonlyargs + fn.args.args + fn.args.kwonlyargs]
        # the stored value: right-hand sides of  cache[...] = RHS
        rhs_names = set()
        for n in own:
            if isinstance(n, ast.Assign) and any(isinstance(t, ast.Subscript) and isinstance(t.value, ast.Name) and t.value.id == cache for t in n.targets):
                for m in ast.walk(n.value):
                    if isinstance(m, ast.Name):
                        rhs_names.add(m.id)
        key_names = set()
        for s in normed:
            for m in ast.walk(ast.parse(s, mode='eval')):
                if isinstance(m, ast.Name):
                    key_names.add(m.id)
        rebinds = {p: _stores_to(fn, p) for p in params}
        out[fn.name] = {'keys': sorted(normed), 'params': params, 'parent': parent.name if parent else None,
                        'stores': bool(stores), 'reads': bool(reads), 'rhs_names': sorted(rhs_names),
                        'key_names': sorted(key_names), 'key_line': key_line if key_line else min(l for _, l in keys),
                        'param_rebinds': {p: v for p, v in rebinds.items() if v}}
    return out


_BUILTINS = set(dir(builtins))


def key_covers(desc, module_names, closure_constants=()):
    """names the stored value is computed from that do NOT occur in the key expression.
    module-level function: every parameter must occur in the key.
    nested function: every free name of the stored right-hand side must occur in the key."""
    if desc['parent'] is None:
        need = set(desc['params'])
    else:
        need = set(desc['rhs_names']) - _BUILTINS - set(module_names) - set(closure_constants)
    return sorted(need - set(desc['key_names']))


# ------------------------------------------------------------------------------------------------------------------
# Spectrum arithmetic operators (generated with exec from two string templates)

ARITH_BINARY = ['__add__', '__radd__', '__sub__', '__rsub__', '__mul__', '__rmul__', '__div__', '__rdiv__', '__truediv__', '__rtruediv__',
                '__floordiv__', '__rfloordiv__', '__rpow__', '__pow__']
ARITH_INPLACE = ['__iadd__', '__isub__', '__imul__', '__idiv__', '__itruediv__', '__ifloordiv__', '__ipow__']


def _exec_templates(cls):
    """[(line, [method names], template text, substitution key)] for every `for NAME in [str, ...]: exec(TEMPLATE % {'key': NAME})` directly in the class body"""
    out = []
    for st in cls.body:
        for n in ast.walk(st):
            if isinstance(n, ast.Call) and isinstance(n.func, ast.Name) and n.func.id in ('exec', 'eval') and not isinstance(st, ast.For):
                raise Refuse('class Spectrum: exec/eval outside the recognised `for method in [...]: exec(template)` loops (line %d)' % n.lineno)
        if not isinstance(st, ast.For):
            continue
        has_exec = any(isinstance(n, ast.Call) and isinstance(n.func, ast.Name) and n.func.id == 'exec' for n in ast.walk(st))
        if not has_exec:
            continue
        if not (isinstance(st.target, ast.Name) and isinstance(st.iter, (ast.List, ast.Tuple)) and all(isinstance(e, ast.Constant) and isinstance(e.value, str) for e in st.iter.elts)
                and len(st.body) == 1 and isinstance(st.body[0], ast.Expr) and isinstance(st.body[0].value, ast.Call) and not st.orelse):
            raise Refuse('class Spectrum: exec loop at line %d is not `for NAME in [literal strings]: exec(...)`' % st.lineno)
        call = st.body[0].value
        if not (isinstance(call.func, ast.Name) and call.func.id == 'exec' and len(call.args) == 1 and not call.keywords):
            raise Refuse('exec call at line %d has extra arguments' % call.lineno)
        a = call.args[0]
        if not (isinstance(a, ast.BinOp) and isinstance(a.op, ast.Mod) and isinstance(a.left, ast.Constant) and isinstance(a.left.value, str)
                and isinstance(a.right, ast.Dict) and len(a.right.keys) == 1 and isinstance(a.right.keys[0], ast.Constant)
                and isinstance(a.right.values[0], ast.Name) and a.right.values[0].id == st.target.id):
            raise Refuse('exec argument at line %d is not TEMPLATE %% {key: loop variable}' % call.lineno)
        out.append((st.lineno, [e.value for e in st.iter.elts], a.left.value, a.right.keys[0].value))
    return out


def spectrum_operators(path):
    """{method: {'kind': 'binary' | 'inplace', 'line', 'copy_kw': None | True | False, 'ctor_default_copy': bool, 'masked_array_copy': text,
                 'newdata': [expr...], 'newmask': [expr...], 'ctor': text}}  - refuses anything it does not recognise"""
    tree = _parse(path)
    cls = next((n for n in tree.body if isinstance(n, ast.ClassDef) and n.name == 'Spectrum'), None)
    if cls is None:
        raise Refuse('class Spectrum not found')
    new = next((n for n in cls.body if isinstance(n, ast.FunctionDef) and n.name == '__new__'), None)
    if new is None:
        raise Refuse('Spectrum.__new__ not found')
    # default of the constructor's `copy` parameter, and how it reaches numpy.ma.masked_array
    params = new.args.args
    defaults = dict(zip([a.arg for a in params[len(params) - len(new.args.defaults):]], new.args.defaults))
    if 'copy' not in defaults or not isinstance(defaults['copy'], ast.Constant) or not isinstance(defaults['copy'].value, bool):
        raise Refuse('Spectrum.__new__: parameter `copy` without a literal True / False default')
    ctor_default = defaults['copy'].value
    ma_calls = [n for n in ast.walk(new) if isinstance(n, ast.Call) and ast.unparse(n.func) in ('numpy.ma.masked_array', 'numpy.ma.MaskedArray', 'numpy.ma.array')]
    if len(ma_calls) != 1:
        raise Refuse('Spectrum.__new__: expected exactly one numpy.ma.masked_array(...) call, found %d' % len(ma_calls))
    kw = {k.arg: ast.unparse(k.value) for k in ma_calls[0].keywords}
    if kw.get('copy') != 'copy' or kw.get('mask') != 'mask':
        raise Refuse('Spectrum.__new__: numpy.ma.masked_array is not called with mask=mask, copy=copy (%r)' % kw)
    rebinds = [l for l in _stores_to(new, 'copy')]
    if rebinds:
        raise Refuse('Spectrum.__new__ re-binds `copy` (lines %r)' % rebinds)
    out = {}
    explicit = [n.name for n in cls.body if isinstance(n, ast.FunctionDef) and n.name in ARITH_BINARY + ARITH_INPLACE]
    if explicit:
        raise Refuse('class Spectrum defines %r outside the exec templates' % explicit)
    for line, methods, template, key in _exec_templates(cls):
        for m in methods:
            try:
                t = ast.parse(template % {key: m})
            except (SyntaxError, KeyError, ValueError, TypeError) as e:
                raise Refuse('operator template at line %d does not parse for %s: %s' % (line, m, e))
            if not (len(t.body) == 1 and isinstance(t.body[0], ast.FunctionDef) and t.body[0].name == m and [a.arg for a in t.body[0].args.args] == ['self', 'other']):
                raise Refuse('operator template at line %d: not a single `def %s(self, other)`' % (line, m))
            fn = t.body[0]
            rets = [n for n in ast.walk(fn) if isinstance(n, ast.Return)]
            if len(rets) != 1 or not isinstance(rets[0].value, ast.Name):
                raise Refuse('%s: expected one `return NAME`' % m)
            if m in out:
                raise Refuse('%s generated twice' % m)
            rname = rets[0].value.id
            if rname == 'self':
                if m not in ARITH_INPLACE:
                    raise Refuse('%s returns self but is not an augmented-assignment method' % m)
                out[m] = {'kind': 'inplace', 'line': line}
                continue
            if m not in ARITH_BINARY:
                raise Refuse('unexpected generated method %s' % m)
            asg = [n for n in ast.walk(fn) if isinstance(n, ast.Assign) and len(n.targets) == 1 and isinstance(n.targets[0], ast.Name)]
            def rhs(name):
                return [ast.unparse(n.value) for n in asg if n.targets[0].id == name]
            ctor = [n.value for n in asg if n.targets[0].id == rname]
            if len(ctor) != 1 or not isinstance(ctor[0], ast.Call) or ast.unparse(ctor[0].func) != 'self.__class__.__new__':
                raise Refuse('%s: the result is not built by one self.__class__.__new__(...) call' % m)
            c = ctor[0]
            pos = [ast.unparse(a) for a in c.args]
            if pos != ['self.__class__', 'newdata', 'newmask']:
                raise Refuse('%s: constructor positional arguments are %r, expected (self.__class__, newdata, newmask)' % (m, pos))
            ckw = {k.arg: k.value for k in c.keywords}
            if None in ckw:
                raise Refuse('%s: constructor called with **kwargs' % m)
            copy_kw = None
            if 'copy' in ckw:
                if not (isinstance(ckw['copy'], ast.Constant) and isinstance(ckw['copy'].value, (bool, int))):
                    raise Refuse('%s: copy= is not a literal' % m)
                copy_kw = bool(ckw['copy'].value)
            nd, nm = rhs('newdata'), rhs('newmask')
            ok_nd = all(re.fullmatch(r'self\.data\.%s\((other\.data|other)\)' % re.escape(m), x) for x in nd) and nd
            ok_nm = all(x in ('numpy.ma.mask_or(self.mask, other.mask)', 'self.mask') for x in nm) and nm
            if not ok_nd or not ok_nm:
                raise Refuse('%s: newdata / newmask are built from %r / %r' % (m, nd, nm))
            out[m] = {'kind': 'binary', 'line': line, 'copy_kw': copy_kw, 'ctor_default_copy': ctor_default, 'newdata': nd, 'newmask': nm,
                      'copies': bool(ctor_default if copy_kw is None else copy_kw), 'ctor': ast.unparse(c)[:200]}
    return out


def copy_keywords(root):
    """['<file>:<function>:<callee>(copy=<expr>)'] for every call under root (dadi/) that passes a `copy` keyword; the text of exec templates
    of class bodies is scanned too (a regular expression on every string constant that contains `def `)"""
    import os
    out = []
    for dp, dn, fn in os.walk(root):
        dn.sort()
        if '__pycache__' in dp:
            continue
        for f in sorted(fn):
            if not f.endswith('.py'):
                continue
            path = os.path.join(dp, f)
            rel = os.path.relpath(path, root)
            tree = _parse(path)
            parents = {}
            for node in ast.walk(tree):
                for ch in ast.iter_child_nodes(node):
                    parents[ch] = node
            def owner(n):
                names = []
                while n in parents:
                    n = parents[n]
                    if isinstance(n, (ast.FunctionDef, ast.ClassDef, ast.AsyncFunctionDef)):
                        names.append(n.name)
                return '.'.join(reversed(names)) or '<module>'
            for n in ast.walk(tree):
                if isinstance(n, ast.Call):
                    for k in n.keywords:
                        if k.arg == 'copy':
                            out.append('%s:%s:%s(copy=%s)' % (rel, owner(n), ast.unparse(n.func)[-40:], ast.unparse(k.value)))
                        if k.arg is None:
                            pass
                elif isinstance(n, ast.Constant) and isinstance(n.value, str) and 'def ' in n.value and re.search(r'\bcopy\s*=', n.value):
                    for mt in re.finditer(r'\bcopy\s*=\s*([A-Za-z0-9_.]+)', n.value):
                        out.append('%s:%s:<string template>(copy=%s)' % (rel, owner(n), mt.group(1)))
    return sorted(out)
