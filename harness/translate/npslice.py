"""Fail-closed symbolic executor for the restricted numpy slice dialect of the constant-parameter drivers of
dadi/Integration.py (_one_pop_const_params, _two_pops_const_params, _three_pops_const_params and the helpers they
call: _Vfunc, _Mfunc1D/2D/3D, _compute_dfactor, _compute_delj).

An array value is (shape, index function).  A shape is a tuple of symbolic lengths  N - m  (N = len(xx); every
grid of these functions is an alias of xx) or a broadcast axis of length one (inserted with numpy.newaxis).  The
index function maps a tuple of SYMBOLIC INDICES to a scalar term.  Symbolic indices:

    ('c', k)        the index k counted from the start                         (k = 0, 1, ...)
    ('e', k)        the index N-1-k counted from the end                       (('e', -1) stands for N as a bound)
    ('s', v, o)     the index v+o for a generic interior point v, 1 <= v <= N-2
    ('a', v)        an arbitrary valid index v of a length-N axis (only full slices may be applied to it)

Whether an index lies in a slice is DECIDED from  2 <= N  and  1 <= v <= N-2  alone (function `lt`); an undecidable
membership or a possibly out-of-range read is a refusal.  Slice stores (`a[1:] += E`, `b[0,0] += t`,
`dfactor[1:-1] = E`) turn into piecewise index functions; stores under a symbolic condition (`if M[0] <= 0:`) turn
into conditional contributions; an `if` on a module-level boolean flag (use_delj_trick) executes both branches and
merges them.  Calls of module-level helper functions are inlined through the same executor; helpers named in
SUMMARISE must be elementwise in their array arguments and are emitted once as a scalar Coq Definition (the call
becomes an application of it).  The float filter idiom `q = numpy.where(numpy.isnan(q), c, q); q = numpy.where(
numpy.isinf(q), c, q)` on a quotient q = num/den is read over the reals as `if den = 0 then c else num/den`
(x/0 is nan or +-inf in float64).

Anything outside the dialect raises Refuse; the caller turns a refusal into a broken obligation.
"""
import ast
from fractions import Fraction


class Refuse(Exception):
    pass


# ------------------------------------------------------------------------------------------------
# symbolic indices

def lt(p, q):
    """p < q ?  True / False / None (undecidable from 2 <= N, 1 <= v <= N-2)."""
    if p == q:
        return False
    a, b = p[0], q[0]
    if a == 'a' or b == 'a':
        if a == 'a' and b == 'c':
            return False if q[1] == 0 else None         # v < 0 never
        if a == 'a' and b == 'e':
            return True if q[1] == -1 else None          # v < N always
        if a == 'e' and b == 'a':
            return False if p[1] == -1 else None         # N < v never
        return None
    if a == 'c' and b == 'c':
        return p[1] < q[1]
    if a == 'e' and b == 'e':
        return q[1] < p[1]
    if a == 'c' and b == 'e':                            # k < N-1-k'  <=>  N > k+k'+1
        return True if p[1] + q[1] + 1 < 2 else None
    if a == 'e' and b == 'c':                            # N-1-k < k'  <=>  N < k+k'+1
        return False if p[1] + q[1] + 1 <= 2 else None
    if a == 's' and b == 'c':                            # v+o < k ; v+o >= 1+o
        return False if 1 + p[2] >= q[1] else None
    if a == 'c' and b == 's':                            # k < v+o ; v+o >= 1+o
        return True if p[1] < 1 + q[2] else None
    if a == 's' and b == 'e':                            # v+o < N-1-k ; v+o <= N-2+o
        return True if p[2] + q[1] <= 0 else None
    if a == 'e' and b == 's':                            # N-1-k < v+o ; v+o <= N-2+o
        return False if q[2] + p[1] <= 1 else None
    if a == 's' and b == 's':
        return (p[2] < q[2]) if p[1] == q[1] else None
    return None


def in_range(p, lo, hi):
    """lo <= p < hi ?  True / False / None."""
    r1 = lt(p, lo)
    r2 = lt(p, hi)
    if r1 is True or r2 is False:
        return False
    if r1 is False and r2 is True:
        return True
    return None


def idx_eq(p, q):
    r1 = lt(p, q)
    r2 = lt(q, p)
    if r1 is True or r2 is True:
        return False
    if r1 is False and r2 is False:
        return True
    return None


def shift(p, d):
    if d == 0:
        return p
    if p[0] == 'c':
        if p[1] + d < 0:
            raise Refuse('negative index')
        return ('c', p[1] + d)
    if p[0] == 'e':
        return ('e', p[1] - d)
    if p[0] == 's':
        return ('s', p[1], p[2] + d)
    raise Refuse('a slice with an offset applied to an arbitrary index')


def dim_end(dim):
    """exclusive upper bound of a dimension N - m as an index"""
    return ('e', dim[1] - 1)


# ------------------------------------------------------------------------------------------------
# scalar terms

ZERO = ('num', Fraction(0))


def num(v):
    if isinstance(v, bool):
        raise Refuse('boolean used as a number')
    if isinstance(v, int):
        return ('num', Fraction(v))
    if isinstance(v, float):
        return ('num', Fraction(repr(v)))            # the decimal literal as written
    raise Refuse('constant %r' % (v,))


def t_add(a, b):
    if a == ZERO:
        return b
    if b == ZERO:
        return a
    return ('add', a, b)


def t_if(cond, a, b):
    """cond: ('le', t1, t2) | ('flag', name) | ('not', cond)"""
    if cond[0] == 'not':
        return t_if(cond[1], b, a)
    if a == b:
        return a
    return ('if', cond, a, b)


def walk(t):
    yield t
    if t[0] in ('add', 'sub', 'mul', 'div'):
        for s in walk(t[1]):
            yield s
        for s in walk(t[2]):
            yield s
    elif t[0] in ('neg', 'exp'):
        for s in walk(t[1]):
            yield s
    elif t[0] == 'pow':
        for s in walk(t[1]):
            yield s
    elif t[0] == 'if':
        c = t[1]
        if c[0] == 'le':
            for s in walk(c[1]):
                yield s
            for s in walk(c[2]):
                yield s
        for s in walk(t[2]):
            yield s
        for s in walk(t[3]):
            yield s
    elif t[0] == 'filt':
        for s in walk(t[2]):
            yield s
        for s in walk(t[3]):
            yield s
    elif t[0] == 'app':
        for a in t[3]:
            for s in walk(a):
                yield s


def subst_ph(t, f):
    """replace every ('ph', k, idx) node by f(k, idx)"""
    k = t[0]
    if k == 'ph':
        return f(t[1], t[2])
    if k in ('add', 'sub', 'mul', 'div'):
        return (k, subst_ph(t[1], f), subst_ph(t[2], f))
    if k in ('neg', 'exp'):
        return (k, subst_ph(t[1], f))
    if k == 'pow':
        return (k, subst_ph(t[1], f), t[2])
    if k == 'if':
        c = t[1]
        if c[0] == 'le':
            c = ('le', subst_ph(c[1], f), subst_ph(c[2], f))
        return ('if', c, subst_ph(t[2], f), subst_ph(t[3], f))
    if k == 'filt':
        return ('filt', t[1], subst_ph(t[2], f), subst_ph(t[3], f))
    if k == 'app':
        return ('app', t[1], t[2], tuple(subst_ph(a, f) for a in t[3]))
    return t


def idx_coq(p, nname='N'):
    if p[0] == 'c':
        return '%d%%nat' % p[1]
    if p[0] == 'e':
        if p[1] < 0:
            raise Refuse('index N emitted')
        return '(%s - %d)%%nat' % (nname, p[1] + 1)
    if p[0] == 's':
        if p[2] == 0:
            return p[1]
        if p[2] == 1:
            return '(S %s)' % p[1]
        if p[2] > 1:
            return '(%s + %d)%%nat' % (p[1], p[2])
        return '(%s - %d)%%nat' % (p[1], -p[2])
    if p[0] == 'a':
        return p[1]
    raise Refuse('index %r' % (p,))


def num_coq(f):
    if f.denominator == 1:
        return '(%d)' % f.numerator if f.numerator >= 0 else '(- (%d))' % (-f.numerator)
    s = '(%d / %d)' % (abs(f.numerator), f.denominator)
    return s if f >= 0 else '(- %s)' % s


def cond_coq(c, grid):
    if c[0] == 'le':
        return '(Rleb %s %s)' % (term_coq(c[1], grid), term_coq(c[2], grid))
    if c[0] == 'flag':
        return c[1]
    raise Refuse('condition %r' % (c[0],))


def term_coq(t, grid='xs'):
    """Coq text (over R, R_scope) of a term; grid reads become `x <grid> <index>`."""
    k = t[0]
    if k == 'num':
        return num_coq(t[1])
    if k == 'var':
        return t[1]
    if k == 'x':
        return '(x %s %s)' % (grid, idx_coq(t[1]))
    if k in ('add', 'sub', 'mul', 'div'):
        return '(%s %s %s)' % (term_coq(t[1], grid), {'add': '+', 'sub': '-', 'mul': '*', 'div': '/'}[k], term_coq(t[2], grid))
    if k == 'neg':
        return '(- %s)' % term_coq(t[1], grid)
    if k == 'pow':
        return '(%s ^ %d)' % (term_coq(t[1], grid), t[2])
    if k == 'exp':
        return '(exp %s)' % term_coq(t[1], grid)
    if k == 'if':
        return '(if %s then %s else %s)' % (cond_coq(t[1], grid), term_coq(t[2], grid), term_coq(t[3], grid))
    if k == 'filt':
        # peel the nan / inf filters: both must be present, same replacement constant, around a quotient
        kinds = set()
        c = t[2]
        inner = t
        while inner[0] == 'filt':
            if inner[2] != c:
                raise Refuse('float filters with different replacement values')
            kinds.add(inner[1])
            inner = inner[3]
        if kinds != {'nan', 'inf'}:
            raise Refuse('float filter idiom needs both the isnan and the isinf filter, found %s' % sorted(kinds))
        if inner[0] != 'div':
            raise Refuse('float filter idiom applied to something that is not a quotient')
        den = term_coq(inner[2], grid)
        return '(if Reqb %s 0 then %s else (%s / %s))' % (den, term_coq(c, grid), term_coq(inner[1], grid), den)
    if k == 'app':
        return '(%s %s)' % (t[1], ' '.join(list(t[2]) + [term_coq(a, grid) for a in t[3]]))
    raise Refuse('term %r cannot be emitted' % (k,))


def conds_of(t):
    """the ('le', a, b) conditions occurring in a term, in order of first occurrence"""
    out = []
    for s in walk(t):
        if s[0] == 'if' and s[1][0] == 'le' and s[1] not in out:
            out.append(s[1])
    return out


def apps_of(t, name):
    out = []
    for s in walk(t):
        if s[0] == 'app' and s[1] == name and s not in out:
            out.append(s)
    return out


# ------------------------------------------------------------------------------------------------
# values

class Sc:
    def __init__(self, term):
        self.term = term


class Arr:
    def __init__(self, shape, fn, mutable=False):
        self.shape = tuple(shape)
        self.fn = fn
        self.mutable = mutable
        self.viewed = False

    @property
    def ndim(self):
        return len(self.shape)


class Dim:                      # a symbolic length N - m as a Python-level value (len(dx))
    def __init__(self, m):
        self.m = m


class Shape:                    # phi.shape
    def __init__(self, dims):
        self.dims = tuple(dims)


class Phi:                      # the density argument: only .shape may be used
    def __init__(self, d):
        self.shape = Shape([('n', 0)] * d)


class Func:
    def __init__(self, node):
        self.node = node


class NumpyMod:
    pass


class Poison:                   # a name bound on one side of a merged branch only
    def __init__(self, name):
        self.name = name


NUAX = ('nuax',)
ONE = ('one',)


def check_read(p, dim):
    """an index handed to a real (non-broadcast) dimension must be provably inside it"""
    if p is None:
        raise Refuse('missing index for a real dimension')
    r = in_range(p, ('c', 0), dim_end(dim))
    if r is not True:
        raise Refuse('read at index %r of an axis of length N-%d is not provably in range' % (p, dim[1]))


def bshape(s1, s2):
    n = max(len(s1), len(s2))
    a = (ONE,) * (n - len(s1)) + tuple(s1)
    b = (ONE,) * (n - len(s2)) + tuple(s2)
    out = []
    for x, y in zip(a, b):
        if x == ONE:
            out.append(y)
        elif y == ONE or x == y:
            out.append(x)
        else:
            raise Refuse('shapes do not broadcast: N-%d against N-%d' % (x[1], y[1]))
    return tuple(out)


def project(idx, shape):
    """indices of a broadcast result -> indices of an operand of (shorter / broadcast) shape"""
    sub = idx[len(idx) - len(shape):]
    return tuple(None if d == ONE else p for p, d in zip(sub, shape))


def as_value(v):
    """Python numbers -> scalar terms"""
    if isinstance(v, (Sc, Arr)):
        return v
    if isinstance(v, (int, float)) and not isinstance(v, bool):
        return Sc(num(v))
    raise Refuse('value of type %s used in arithmetic' % type(v).__name__)


def lift2(op, a, b):
    a = as_value(a)
    b = as_value(b)
    if isinstance(a, Sc) and isinstance(b, Sc):
        return Sc(op(a.term, b.term))
    sa = a.shape if isinstance(a, Arr) else ()
    sb = b.shape if isinstance(b, Arr) else ()
    shp = bshape(sa, sb)
    fa = a.fn if isinstance(a, Arr) else None      # the index function AT THIS TIME (copy semantics)
    fb = b.fn if isinstance(b, Arr) else None
    ta = a.term if isinstance(a, Sc) else None
    tb = b.term if isinstance(b, Sc) else None

    def fn(idx):
        x = fa(project(idx, sa)) if fa else ta
        y = fb(project(idx, sb)) if fb else tb
        return op(x, y)
    return Arr(shp, fn)


def lift1(op, a):
    a = as_value(a)
    if isinstance(a, Sc):
        return Sc(op(a.term))
    fa = a.fn
    return Arr(a.shape, lambda idx: op(fa(idx)))


# ------------------------------------------------------------------------------------------------
# the executor

class Module:
    def __init__(self, path):
        self.path = path
        self.src = open(path).read()
        self.tree = ast.parse(self.src)
        self.funcs = {}
        self.flags = set()
        self.numpy_names = set()
        self.nuax_names = set()
        dup = set()
        for n in self.tree.body:
            if isinstance(n, ast.FunctionDef):
                if n.name in self.funcs:
                    dup.add(n.name)
                self.funcs[n.name] = n
            elif isinstance(n, ast.Import):
                for a in n.names:
                    if a.name == 'numpy':
                        self.numpy_names.add(a.asname or 'numpy')
            elif isinstance(n, ast.ImportFrom) and n.module == 'numpy':
                for a in n.names:
                    if a.name == 'newaxis':
                        self.nuax_names.add(a.asname or 'newaxis')
            elif isinstance(n, ast.Assign) and len(n.targets) == 1 and isinstance(n.targets[0], ast.Name) \
                    and isinstance(n.value, ast.Constant) and isinstance(n.value.value, bool):
                self.flags.add(n.targets[0].id)
        for d in dup:
            del self.funcs[d]       # ambiguous: a call to it is refused


class Exec:
    def __init__(self, module, summarise=()):
        self.m = module
        self.summarise = set(summarise)
        self.defs = {}            # summary name -> (flag names, parameter names, body term)
        self.nonzero = set()      # names the function rejects when equal to 0
        self.nonneg = set()       # names the function rejects when negative
        self.depth = 0

    # ---------------- names
    def lookup(self, name, env):
        if name in env:
            v = env[name]
            if isinstance(v, Poison):
                raise Refuse('name %s is bound on one branch only' % name)
            return v
        if name in self.m.funcs:
            return Func(self.m.funcs[name])
        if name in self.m.flags:
            return ('flag', name)
        if name in self.m.numpy_names:
            return NumpyMod()
        if name in self.m.nuax_names:
            return NUAX
        raise Refuse('unknown name %s' % name)

    # ---------------- expressions
    def ev(self, e, env):
        if isinstance(e, ast.Constant):
            if e.value is None or (isinstance(e.value, (int, float)) and not isinstance(e.value, bool)):
                return e.value
            raise Refuse('constant %r' % (e.value,))
        if isinstance(e, ast.Name):
            return self.lookup(e.id, env)
        if isinstance(e, ast.BinOp):
            l = self.ev(e.left, env)
            if isinstance(e.op, ast.Pow):
                if isinstance(e.right, ast.Constant) and isinstance(e.right.value, int) and not isinstance(e.right.value, bool) and 0 <= e.right.value <= 8:
                    n = e.right.value
                    return lift1(lambda t: ('pow', t, n), l)
                raise Refuse('power with a non-literal exponent')
            r = self.ev(e.right, env)
            if isinstance(l, Dim) and isinstance(r, int) and not isinstance(r, bool) and isinstance(e.op, (ast.Add, ast.Sub)):
                return Dim(l.m - r if isinstance(e.op, ast.Add) else l.m + r)
            k = {ast.Add: 'add', ast.Sub: 'sub', ast.Mult: 'mul', ast.Div: 'div'}.get(type(e.op))
            if k is None:
                raise Refuse('operator %s' % type(e.op).__name__)
            return lift2(lambda x, y: (k, x, y), l, r)
        if isinstance(e, ast.UnaryOp):
            if isinstance(e.op, ast.USub):
                if isinstance(e.operand, ast.Constant) and isinstance(e.operand.value, int) and not isinstance(e.operand.value, bool):
                    return -e.operand.value                       # -1 as an index stays a Python int
                return lift1(lambda t: ('neg', t), self.ev(e.operand, env))
            if isinstance(e.op, ast.UAdd):
                return self.ev(e.operand, env)
            raise Refuse('unary operator %s' % type(e.op).__name__)
        if isinstance(e, ast.Attribute):
            base = self.ev(e.value, env)
            if isinstance(base, Phi) and e.attr == 'shape':
                return base.shape
            if isinstance(base, Arr) and e.attr == 'ndim':
                return base.ndim
            raise Refuse('attribute .%s' % e.attr)
        if isinstance(e, (ast.Tuple, ast.List)):
            vals = [self.ev(x, env) for x in e.elts]
            return tuple(vals) if isinstance(e, ast.Tuple) else list(vals)
        if isinstance(e, ast.ListComp):
            if len(e.generators) != 1:
                raise Refuse('nested comprehension')
            g = e.generators[0]
            if g.ifs or g.is_async or not isinstance(g.target, ast.Name):
                raise Refuse('comprehension shape')
            it = self.ev(g.iter, env)
            if not isinstance(it, range):
                raise Refuse('comprehension over something other than range(<int>)')
            out = []
            for i in it:
                env2 = dict(env)
                env2[g.target.id] = i
                out.append(self.ev(e.elt, env2))
            return out
        if isinstance(e, ast.Subscript):
            base = self.ev(e.value, env)
            items = self.subscript_items(e.slice, env)
            if isinstance(base, Arr):
                return self.view(base, items)
            raise Refuse('subscript of a %s' % type(base).__name__)
        if isinstance(e, ast.Compare):
            if len(e.ops) != 1:
                raise Refuse('chained comparison')
            l = as_value(self.ev(e.left, env))
            r = as_value(self.ev(e.comparators[0], env))
            if not (isinstance(l, Sc) and isinstance(r, Sc)):
                raise Refuse('comparison of arrays')
            if isinstance(e.ops[0], ast.LtE):
                return ('le', l.term, r.term)
            if isinstance(e.ops[0], ast.GtE):
                return ('le', r.term, l.term)
            raise Refuse('comparison operator %s' % type(e.ops[0]).__name__)
        if isinstance(e, ast.Call):
            return self.call(e, env)
        raise Refuse('expression %s' % type(e).__name__)

    def subscript_items(self, s, env):
        if isinstance(s, ast.Tuple):
            return [self.item(x, env) for x in s.elts]
        if isinstance(s, ast.Slice):
            return [self.item(s, env)]
        v = self.item(s, env)
        if isinstance(v, tuple) and not (len(v) == 3 and v[0] == 'slice') and v != NUAX:
            return list(v)                           # a Python tuple of items held in a variable (dx[upslice])
        return [v]

    def item(self, s, env):
        if isinstance(s, ast.Slice):
            def bound(b):
                if b is None:
                    return None
                v = self.ev(b, env)
                if v is None or (isinstance(v, int) and not isinstance(v, bool)):
                    return v
                raise Refuse('slice bound')
            if s.step is not None:
                raise Refuse('slice with a step')
            return ('slice', bound(s.lower), bound(s.upper))
        v = self.ev(s, env)
        if v == NUAX or v is None:
            return NUAX
        if isinstance(v, int) and not isinstance(v, bool):
            return v
        if isinstance(v, tuple):
            if len(v) == 3 and v[0] == 'slice':
                return v
            for x in v:
                if not (x == NUAX or x is None or (isinstance(x, int) and not isinstance(x, bool)) or (isinstance(x, tuple) and len(x) == 3 and x[0] == 'slice')):
                    raise Refuse('index tuple element')
            return tuple(NUAX if x is None else x for x in v)
        raise Refuse('index of type %s' % type(v).__name__)

    @staticmethod
    def slice_bounds(sl, dim):
        """('slice', lo, hi) on a dimension N-m -> (start offset a >= 0, new dimension)"""
        _, lo, hi = sl
        a = 0 if lo is None else lo
        if a < 0:
            raise Refuse('negative slice start')
        if hi is None:
            cut = 0
        elif hi < 0:
            cut = -hi
        else:
            raise Refuse('slice with a non-negative stop')
        return a, ('n', dim[1] + a + cut)

    @staticmethod
    def point(k, dim):
        return ('c', k) if k >= 0 else ('e', dim[1] + (-k) - 1)

    def view(self, base, items):
        nreal = sum(1 for it in items if it != NUAX)
        if nreal > base.ndim:
            raise Refuse('too many indices')
        items = list(items) + [('slice', None, None)] * (base.ndim - nreal)
        plan = []          # per base dimension: ('pt', index) | ('sl', offset) | ('bc',) ; plus ('new',) for inserted axes
        shape = []
        bd = 0
        for it in items:
            if it == NUAX:
                plan.append(('new',))
                shape.append(ONE)
                continue
            dim = base.shape[bd]
            bd += 1
            if isinstance(it, int):
                if dim == ONE:
                    raise Refuse('integer index into a broadcast axis')
                p = self.point(it, dim)
                check_read(p, dim)
                plan.append(('pt', p))
            else:
                if dim == ONE:
                    if it != ('slice', None, None):
                        raise Refuse('partial slice of a broadcast axis')
                    plan.append(('bc',))
                    shape.append(ONE)
                else:
                    a, nd = self.slice_bounds(it, dim)
                    plan.append(('sl', a))
                    shape.append(nd)
        base.viewed = True
        bfn = base.fn
        bshape_ = base.shape

        def fn(idx):
            out = []
            j = 0
            for pl in plan:
                if pl[0] == 'new':
                    j += 1
                elif pl[0] == 'pt':
                    out.append(pl[1])
                elif pl[0] == 'bc':
                    out.append(None)
                    j += 1
                else:
                    p = idx[j]
                    j += 1
                    if p is None:
                        raise Refuse('missing index')
                    out.append(shift(p, pl[1]))
            for p, d in zip(out, bshape_):
                if d != ONE:
                    check_read(p, d)
            return bfn(tuple(out))
        if not shape:
            return Sc(fn(()))
        return Arr(shape, fn)

    # ---------------- calls
    def call(self, e, env):
        f = e.func
        # numpy.<name>(...)
        if isinstance(f, ast.Attribute) and isinstance(f.value, ast.Name) and isinstance(self.lookup_soft(f.value.id, env), NumpyMod):
            return self.numpy_call(f.attr, e, env)
        if isinstance(f, ast.Name):
            nm = f.id
            if nm not in env and nm not in self.m.funcs:
                if nm == 'len' and len(e.args) == 1 and not e.keywords:
                    a = self.ev(e.args[0], env)
                    if isinstance(a, Arr) and a.ndim >= 1 and a.shape[0] != ONE:
                        return Dim(a.shape[0][1])
                    raise Refuse('len of a non-array')
                if nm == 'range' and len(e.args) == 1 and not e.keywords:
                    a = self.ev(e.args[0], env)
                    if isinstance(a, int) and not isinstance(a, bool) and 0 <= a <= 16:
                        return range(a)
                    raise Refuse('range of a non-literal')
                if nm == 'slice' and len(e.args) == 1 and not e.keywords and self.ev(e.args[0], env) is None:
                    return ('slice', None, None)
                if nm == 'tuple' and len(e.args) == 1 and not e.keywords:
                    a = self.ev(e.args[0], env)
                    if isinstance(a, list):
                        return tuple(a)
                    raise Refuse('tuple() of a non-list')
                raise Refuse('call to %s' % nm)
            fv = self.lookup(nm, env)
            if isinstance(fv, Func):
                args = [self.ev(a, env) for a in e.args]
                kw = {}
                for k in e.keywords:
                    if k.arg is None:
                        raise Refuse('**kwargs')
                    kw[k.arg] = self.ev(k.value, env)
                if nm in self.summarise:
                    return self.summary_call(nm, fv.node, args, kw)
                return self.inline(fv.node, args, kw)
        raise Refuse('call shape')

    def lookup_soft(self, name, env):
        try:
            return self.lookup(name, env)
        except Refuse:
            return None

    def numpy_call(self, attr, e, env):
        if e.keywords:
            raise Refuse('keyword argument to numpy.%s' % attr)
        if attr == 'diff' and len(e.args) == 1:
            a = self.ev(e.args[0], env)
            if not (isinstance(a, Arr) and a.ndim == 1 and a.shape[0] != ONE):
                raise Refuse('numpy.diff of something that is not a 1-D array')
            fa = a.fn
            dim = a.shape[0]
            nd = ('n', dim[1] + 1)

            def fn(idx):
                p = idx[0]
                check_read(p, nd)
                q = shift(p, 1)
                check_read(q, dim)
                return ('sub', fa((q,)), fa((p,)))
            return Arr((nd,), fn)
        if attr == 'zeros' and len(e.args) == 1:
            s = self.ev(e.args[0], env)
            if isinstance(s, Shape):
                dims = s.dims
            elif isinstance(s, Dim):
                dims = (('n', s.m),)
            else:
                raise Refuse('numpy.zeros of a shape that is neither phi.shape nor len(<array>)+k')
            for d in dims:
                if d[1] < 0:
                    raise Refuse('array longer than the grid')

            def fn(idx, dims=dims):
                for p, d in zip(idx, dims):
                    check_read(p, d)
                return ZERO
            return Arr(dims, fn, mutable=True)
        if attr == 'exp' and len(e.args) == 1:
            return lift1(lambda t: ('exp', t), self.ev(e.args[0], env))
        if attr == 'where' and len(e.args) == 3:
            # float filter idiom: numpy.where(numpy.isnan(X), c, X) / numpy.where(numpy.isinf(X), c, X)
            c0, cv, xv = e.args
            if isinstance(c0, ast.Call) and isinstance(c0.func, ast.Attribute) and isinstance(c0.func.value, ast.Name) \
                    and isinstance(self.lookup_soft(c0.func.value.id, env), NumpyMod) and c0.func.attr in ('isnan', 'isinf') \
                    and len(c0.args) == 1 and not c0.keywords and isinstance(c0.args[0], ast.Name) and isinstance(xv, ast.Name) \
                    and c0.args[0].id == xv.id:
                kind = 'nan' if c0.func.attr == 'isnan' else 'inf'
                c = as_value(self.ev(cv, env))
                if not isinstance(c, Sc) or c.term[0] != 'num':
                    raise Refuse('replacement value of the float filter is not a literal')
                ct = c.term
                return lift1(lambda t: ('filt', kind, ct, t), self.ev(xv, env))
            raise Refuse('numpy.where outside the float filter idiom')
        raise Refuse('numpy.%s' % attr)

    def bind(self, node, args, kw):
        a = node.args
        if a.vararg or a.kwarg or a.kwonlyargs or getattr(a, 'posonlyargs', []):
            raise Refuse('%s: signature shape' % node.name)
        names = [x.arg for x in a.args]
        if len(args) > len(names):
            raise Refuse('%s: too many arguments' % node.name)
        env = {}
        for n, v in zip(names, args):
            env[n] = v
        for k, v in kw.items():
            if k not in names or k in env:
                raise Refuse('%s: keyword %s' % (node.name, k))
            env[k] = v
        defaults = a.defaults
        for n, d in zip(names[len(names) - len(defaults):], defaults):
            if n not in env:
                if not (isinstance(d, ast.Constant) and isinstance(d.value, (int, float)) and not isinstance(d.value, bool)):
                    raise Refuse('%s: default of %s is not a number' % (node.name, n))
                env[n] = d.value
        for n in names:
            if n not in env:
                raise Refuse('%s: missing argument %s' % (node.name, n))
        return names, env

    def inline(self, node, args, kw):
        self.depth += 1
        if self.depth > 6:
            raise Refuse('call depth')
        try:
            _, env = self.bind(node, args, kw)
            r = self.block(self.strip_doc(node.body), env, [], toplevel=True)
            if r is None:
                raise Refuse('%s: no return value' % node.name)
            return r[1]
        finally:
            self.depth -= 1

    def summary_call(self, name, node, args, kw):
        """An elementwise helper: executed on placeholder arrays; the result at an index is an application of ONE
        scalar Definition (the same body at every index) to the actual arguments at the indices the body reads."""
        names, env = self.bind(node, args, kw)
        order = [n for n in names if isinstance(env[n], (Arr, Sc))]
        actual = {n: env[n] for n in order}
        penv = dict(env)
        for n in order:
            v = env[n]
            if isinstance(v, Arr):
                penv[n] = Arr(v.shape, (lambda idx, n=n: ('ph', n, idx)))
            else:
                penv[n] = Sc(('ph', n, ()))
        self.depth += 1
        try:
            r = self.block(self.strip_doc(node.body), penv, [], toplevel=True)
        finally:
            self.depth -= 1
        if r is None:
            raise Refuse('%s: no return value' % name)
        res = r[1]
        afn = {n: (actual[n].fn if isinstance(actual[n], Arr) else None) for n in order}
        aterm = {n: (actual[n].term if isinstance(actual[n], Sc) else None) for n in order}
        cname = 'py_' + name

        def finish(t):
            seen = {}
            for s in walk(t):
                if s[0] == 'ph':
                    if s[1] in seen and seen[s[1]] != s[2]:
                        raise Refuse('%s is not elementwise in %s' % (name, s[1]))
                    seen[s[1]] = s[2]
            body = subst_ph(t, lambda n, idx: ('var', n))
            flags = sorted(set(s[1][1] for s in walk(body) if s[0] == 'if' and s[1][0] == 'flag'))
            used = [n for n in order if n in seen]
            d = (tuple(flags), tuple(used), body)
            if cname in self.defs and self.defs[cname] != d:
                raise Refuse('%s does not reduce to one scalar function of its elementwise arguments' % name)
            self.defs[cname] = d
            argv = []
            for n in used:
                argv.append(afn[n](seen[n]) if afn[n] else aterm[n])
            return ('app', cname, tuple(flags), tuple(argv))
        if isinstance(res, Sc):
            return Sc(finish(res.term))
        if isinstance(res, Arr):
            rfn = res.fn
            return Arr(res.shape, lambda idx: finish(rfn(idx)))
        raise Refuse('%s returns a %s' % (name, type(res).__name__))

    # ---------------- statements
    @staticmethod
    def strip_doc(body):
        if body and isinstance(body[0], ast.Expr) and isinstance(body[0].value, ast.Constant) and isinstance(body[0].value.value, str):
            return body[1:]
        return body

    def validation_guard(self, st, env):
        """`if numpy.any(numpy.less([names], 0)): raise ...` / `numpy.equal`: records the rejected inputs."""
        if not (isinstance(st, ast.If) and not st.orelse and len(st.body) == 1 and isinstance(st.body[0], ast.Raise)):
            return False
        t = st.test
        ok = False
        if isinstance(t, ast.Call) and isinstance(t.func, ast.Attribute) and t.func.attr == 'any' and len(t.args) == 1 and not t.keywords:
            c = t.args[0]
            if isinstance(c, ast.Call) and isinstance(c.func, ast.Attribute) and c.func.attr in ('less', 'equal') and len(c.args) == 2 and not c.keywords \
                    and isinstance(c.args[0], ast.List) and isinstance(c.args[1], ast.Constant) and c.args[1].value == 0 \
                    and all(isinstance(x, ast.Name) for x in c.args[0].elts):
                names = [x.id for x in c.args[0].elts]
                for n in names:
                    v = env.get(n)
                    if not (isinstance(v, Sc) and v.term == ('var', n)):
                        return False
                (self.nonzero if c.func.attr == 'equal' else self.nonneg).update(names)
                ok = True
        if not ok:
            raise Refuse('`if ...: raise` with an unrecognised test')
        return True

    def block(self, stmts, env, conds, toplevel=False, stop=None):
        """Executes statements; returns ('return', value) or None.  `stop(st)` ends the execution before st."""
        for k, st in enumerate(stmts):
            if stop is not None and stop(st):
                return ('stop', k)
            if isinstance(st, ast.Return):
                if not toplevel or conds or k != len(stmts) - 1 or st.value is None:
                    raise Refuse('return that is not the last top-level statement')
                return ('return', self.ev(st.value, env))
            self.stmt(st, env, conds)
        return None

    def stmt(self, st, env, conds):
        if isinstance(st, ast.If):
            if not conds and self.validation_guard(st, env):
                return
            c = self.ev(st.test, env)
            if not (isinstance(c, tuple) and c and c[0] in ('le', 'flag')):
                raise Refuse('if on something that is neither a scalar comparison nor a module flag')
            e1 = dict(env)
            e2 = dict(env)
            self.block(st.body, e1, conds + [c])
            self.block(st.orelse, e2, conds + [('not', c)])
            for n in set(e1) | set(e2):
                v1 = e1.get(n)
                v2 = e2.get(n)
                if v1 is v2:
                    env[n] = v1
                elif v1 is None or v2 is None or isinstance(v1, Poison) or isinstance(v2, Poison):
                    env[n] = Poison(n)
                else:
                    env[n] = self.merge(c, v1, v2)
            for n in list(env):
                if n not in e1 and n not in e2:
                    del env[n]
            return
        if isinstance(st, ast.Assign):
            v = self.ev(st.value, env)
            for tg in st.targets:
                self.assign(tg, v, env, conds)
            return
        if isinstance(st, ast.AugAssign):
            if not isinstance(st.op, ast.Add):
                raise Refuse('augmented assignment other than +=')
            if not isinstance(st.target, ast.Subscript):
                raise Refuse('+= to a name')
            v = self.ev(st.value, env)
            self.store(st.target, v, env, conds, add=True)
            return
        if isinstance(st, ast.Delete):
            if conds:
                raise Refuse('del under a condition')
            for tg in st.targets:
                if not isinstance(tg, ast.Name) or tg.id not in env:
                    raise Refuse('del target')
                del env[tg.id]
            return
        raise Refuse('statement %s' % type(st).__name__)

    def merge(self, c, v1, v2):
        if isinstance(v1, (int, float)) and isinstance(v2, (int, float)) and not isinstance(v1, bool) and v1 == v2 and type(v1) is type(v2):
            return v1
        try:
            a = as_value(v1)
            b = as_value(v2)
        except Refuse:
            return Poison('?')
        return lift2(lambda x, y: t_if(c, x, y), a, b)

    def assign(self, tg, v, env, conds):
        if isinstance(tg, ast.Name):
            if isinstance(v, Arr) and v.mutable and any(env.get(n) is v for n in env):
                pass                                        # alias of a mutable array: same object, stores are shared
            env[tg.id] = v
            return
        if isinstance(tg, (ast.Tuple, ast.List)):
            if not isinstance(v, (list, tuple)) or len(v) != len(tg.elts) or (isinstance(v, tuple) and v and v[0] in ('slice', 'le', 'flag', 'nuax')):
                raise Refuse('unpacking')
            for t1, v1 in zip(tg.elts, v):
                if not isinstance(t1, ast.Name):
                    raise Refuse('unpack target')
                env[t1.id] = v1
            return
        if isinstance(tg, ast.Subscript):
            base = self.ev(tg.value, env) if isinstance(tg.value, ast.Name) else None
            if isinstance(base, list):
                # Python-level list element (upslice[axis] = slice(None))
                if conds and any(c[0] != 'flag' and not (c[0] == 'not' and c[1][0] == 'flag') for c in conds):
                    raise Refuse('list store under a data condition')
                k = self.ev(tg.slice, env)
                if not (isinstance(k, int) and not isinstance(k, bool) and 0 <= k < len(base)):
                    raise Refuse('list index')
                base[k] = v
                return
            self.store(tg, v, env, conds, add=False)
            return
        raise Refuse('assignment target %s' % type(tg).__name__)

    def store(self, tg, v, env, conds, add):
        if not isinstance(tg.value, ast.Name):
            raise Refuse('store into an expression')
        arr = self.lookup(tg.value.id, env)
        if not isinstance(arr, Arr) or not arr.mutable:
            raise Refuse('store into %s, which is not an array created by numpy.zeros here' % tg.value.id)
        if arr.viewed:
            raise Refuse('store into %s after a view of it was taken' % tg.value.id)
        items = self.subscript_items(tg.slice, env)
        if any(it == NUAX for it in items):
            raise Refuse('newaxis in a store')
        if len(items) > arr.ndim:
            raise Refuse('too many indices in a store')
        items = list(items) + [('slice', None, None)] * (arr.ndim - len(items))
        region = []          # per dimension ('pt', p) | ('sl', a, newdim)
        rshape = []
        for it, dim in zip(items, arr.shape):
            if isinstance(it, int):
                p = self.point(it, dim)
                check_read(p, dim)
                region.append(('pt', p))
            else:
                a, nd = self.slice_bounds(it, dim)
                region.append(('sl', a, nd))
                rshape.append(nd)
        v = as_value(v)
        vshape = v.shape if isinstance(v, Arr) else ()
        if len(vshape) > len(rshape):
            raise Refuse('value has more dimensions than the target region')
        full = (ONE,) * (len(rshape) - len(vshape)) + tuple(vshape)
        for dv, dr in zip(full, rshape):
            if dv != ONE and dv != dr:
                raise Refuse('value of length N-%d stored into a region of length N-%d' % (dv[1], dr[1]))
        old = arr.fn
        vfn = v.fn if isinstance(v, Arr) else None
        vterm = v.term if isinstance(v, Sc) else None
        cs = list(conds)

        def fn(idx):
            inside = True
            local = []
            for p, rg in zip(idx, region):
                if rg[0] == 'pt':
                    r = idx_eq(p, rg[1])
                else:
                    r = in_range(p, ('c', rg[1]), ('e', rg[2][1] - 1 - rg[1]))
                if r is False:
                    inside = False
                    break
                if r is None:
                    inside = None
                elif rg[0] == 'sl':
                    local.append(shift(p, -rg[1]))
            if inside is None:
                raise Refuse('cannot decide whether index %r lies in the stored region' % (idx,))
            o = old(idx)
            if not inside:
                return o
            if vfn:
                val = vfn(project(tuple(local), vshape))
            else:
                val = vterm
            if add:
                for c in reversed(cs):
                    val = t_if(c, val, ZERO)
                return t_add(o, val)
            for c in reversed(cs):
                val = t_if(c, val, o)
            return val
        arr.fn = fn


# ------------------------------------------------------------------------------------------------
# driver-level entry

def split_at_dt(fn_node):
    """The assembly part of a constant-parameter driver ends at the first top-level assignment to `dt`."""
    body = Exec.strip_doc(fn_node.body)
    for k, st in enumerate(body):
        if isinstance(st, ast.Assign) and len(st.targets) == 1 and isinstance(st.targets[0], ast.Name) and st.targets[0].id == 'dt':
            return body[:k], body[k:]
    raise Refuse('%s: no top-level assignment to dt found' % fn_node.name)


def run_assembly(module, fname, d, summarise=('_compute_delj',)):
    """Executes the assembly part of <fname>.  Returns (executor, environment, parameter names, tail statements)."""
    if fname not in module.funcs:
        raise Refuse('function %s not found (or defined twice)' % fname)
    node = module.funcs[fname]
    a = node.args
    if a.vararg or a.kwarg or a.kwonlyargs or getattr(a, 'posonlyargs', []):
        raise Refuse('%s: signature shape' % fname)
    names = [x.arg for x in a.args]
    if names[:2] != ['phi', 'xx']:
        raise Refuse('%s: expected (phi, xx, ...) , found %r' % (fname, names[:3]))
    ex = Exec(module, summarise)
    env = {'phi': Phi(d), 'xx': Arr((('n', 0),), lambda idx: ('x', idx[0]))}
    for n in names[2:]:
        env[n] = Sc(('var', n))
    head, tail = split_at_dt(node)
    r = ex.block(head, env, [], toplevel=True)
    if r is not None:
        raise Refuse('%s: return inside the assembly part' % fname)
    return ex, env, names, tail


def tail_wiring(tail, d, coef_names):
    """What the time loop hands to the kernels.  Returns {axis: (a_name, b_name, c_name)}; refuses when a coefficient
    array is written, deleted or rebound after the assembly, when a kernel is called more than once or with arguments
    that are not (phi, a, b, c, this_dt) [1-D: tridiag.tridiag(a, b+1/this_dt, c, r) with r = phi/this_dt]."""
    AX = 'xyz'
    calls = {}
    for st in tail:
        for n in ast.walk(st):
            tgs = []
            if isinstance(n, ast.Assign):
                tgs = n.targets
            elif isinstance(n, (ast.AugAssign, ast.AnnAssign)):
                tgs = [n.target]
            elif isinstance(n, ast.Delete):
                tgs = n.targets
            elif isinstance(n, (ast.For, ast.comprehension)):
                tgs = [n.target]
            for tg in tgs:
                for s in ast.walk(tg):
                    if isinstance(s, ast.Name) and s.id in coef_names:
                        raise Refuse('coefficient array %s is modified after the assembly part' % s.id)
            if isinstance(n, ast.Call) and isinstance(n.func, ast.Attribute):
                nm = n.func.attr
                if d == 1 and nm == 'tridiag' and isinstance(n.func.value, ast.Name) and n.func.value.id == 'tridiag':
                    if n.keywords or len(n.args) != 4:
                        raise Refuse('tridiag.tridiag call shape')
                    a_, b_, c_, r_ = n.args
                    okb = isinstance(b_, ast.BinOp) and isinstance(b_.op, ast.Add) and isinstance(b_.left, ast.Name) and isinstance(b_.right, ast.BinOp) \
                        and isinstance(b_.right.op, ast.Div) and isinstance(b_.right.left, ast.Constant) and b_.right.left.value == 1 \
                        and isinstance(b_.right.right, ast.Name) and b_.right.right.id == 'this_dt'
                    if not (isinstance(a_, ast.Name) and okb and isinstance(c_, ast.Name) and isinstance(r_, ast.Name)):
                        raise Refuse('tridiag.tridiag arguments are not (a, b+1/this_dt, c, r)')
                    if 0 in calls:
                        raise Refuse('tridiag.tridiag called twice')
                    calls[0] = (a_.id, b_.left.id, c_.id)
                    # r = phi/this_dt
                    ok = False
                    for st2 in tail:
                        for m in ast.walk(st2):
                            if isinstance(m, ast.Assign) and len(m.targets) == 1 and isinstance(m.targets[0], ast.Name) and m.targets[0].id == r_.id \
                                    and isinstance(m.value, ast.BinOp) and isinstance(m.value.op, ast.Div) and isinstance(m.value.left, ast.Name) \
                                    and m.value.left.id == 'phi' and isinstance(m.value.right, ast.Name) and m.value.right.id == 'this_dt':
                                ok = True
                    if not ok:
                        raise Refuse('right-hand side r = phi/this_dt not found')
                for k in range(d):
                    if d >= 2 and nm == 'implicit_precalc_%dD%s' % (d, AX[k]) and isinstance(n.func.value, ast.Name) and n.func.value.id == 'int_c':
                        if n.keywords or len(n.args) != 5 or not all(isinstance(x, ast.Name) for x in n.args):
                            raise Refuse('%s call shape' % nm)
                        ids = [x.id for x in n.args]
                        if ids[0] != 'phi' or ids[4] != 'this_dt':
                            raise Refuse('%s arguments %r' % (nm, ids))
                        if k in calls:
                            raise Refuse('%s called twice' % nm)
                        calls[k] = tuple(ids[1:4])
    if sorted(calls) != list(range(d)):
        raise Refuse('kernel calls found for axes %r, expected %r' % (sorted(calls), list(range(d))))
    # outside the `if cuda_enabled:` hand-over (a different implementation, not modelled) the coefficient arrays occur
    # only as the arguments of the recognised kernel calls: nothing else can read, alias or change them
    uses = []

    def visit(n):
        if isinstance(n, ast.If) and isinstance(n.test, ast.Name) and n.test.id == 'cuda_enabled' and not n.orelse:
            return
        if isinstance(n, ast.Name) and n.id in coef_names:
            uses.append(n.id)
        for ch in ast.iter_child_nodes(n):
            visit(ch)
    for st in tail:
        visit(st)
    want = sorted(x for k in calls for x in calls[k])
    if sorted(uses) != want:
        raise Refuse('coefficient arrays are used after the assembly part outside the kernel calls: %r' % sorted(set(uses)))
    return calls
