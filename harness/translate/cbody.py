"""Fail-closed translator: straight-line C function *bodies* (dadi/DFE/PDFs.c) -> Coq terms over R.

Companion of cexpr.py (single `return <expr>;` expressions of the integration kernels) and pyexpr.py, with the same
structure: a tiny recursive-descent parser for the C subset that occurs, symbolic execution of the function body with
single-assignment temporaries inlined, and `Refuse` for anything outside the recognised shape (the caller turns a
refusal into a broken obligation).

Recognised body:
    declarations                      double a,b;  double *p, *q;  int ii, jj;
    scalar assignments                x = <expr>;
    parameter selection               if (N == 3){ a = params[0]; ... } else if (N == 5 || N == 6){ ... }
                                      (evaluated for the concrete N handed in by the caller)
    allocation / release              p = malloc(...);  free(p);            (ignored)
    element-wise loops                for(ii=0; ii<n; ii++){ p[ii] = <expr>; ... }   (also nested)
    the result                        output[ii*m+jj] = <expr>;   or   return <expr>;
<expr>: numbers, names, + - * / unary -, parentheses, a[i] with i a loop variable, calls in FUNCS.
An input array element  xx[ii]  becomes the scalar variable the caller names for (xx, ii); a temporary array filled in a
loop over ii is an expression in that scalar.
"""
import re
from fractions import Fraction

class Refuse(Exception):
    pass

FUNCS = {'log': ('ln', 1), 'exp': ('exp', 1), 'sqrt': ('sqrt', 1), 'pow': ('Rpower', 2), 'fabs': ('Rabs', 1)}

TOKEN = re.compile(r'\s*(?:(\d+\.\d*(?:[eE][-+]?\d+)?|\.\d+(?:[eE][-+]?\d+)?|\d+(?:[eE][-+]?\d+)?)|([A-Za-z_]\w*)|(==|\|\||&&|\+\+|<=|>=|!=|[-+*/()\[\]{};,=<>&|!]))')

def strip_comments(src):
    src = re.sub(r'/\*.*?\*/', ' ', src, flags=re.S)
    src = re.sub(r'//[^\n]*', ' ', src)
    return src

def tokenize(src):
    src = strip_comments(src)
    pos, toks = 0, []
    while pos < len(src):
        if src[pos:].strip() == '':
            break
        m = TOKEN.match(src, pos)
        if not m:
            raise Refuse('cannot tokenize near %r' % src[pos:pos + 30])
        if m.group(1) is not None:
            toks.append(('num', m.group(1)))
        elif m.group(2) is not None:
            toks.append(('id', m.group(2)))
        else:
            toks.append(('op', m.group(3)))
        pos = m.end()
    return toks

def find_function_source(path, name):
    """text between the braces of the *definition* of `name` (not the prototype)"""
    src = strip_comments(open(path).read())
    hits = [m for m in re.finditer(r'\b(?:void|double)\s+%s\s*\(([^)]*)\)\s*\{' % re.escape(name), src)]
    if len(hits) != 1:
        raise Refuse('%s: expected exactly one definition of %s, found %d' % (path, name, len(hits)))
    m = hits[0]
    depth, i = 1, m.end()
    while i < len(src) and depth:
        depth += {'{': 1, '}': -1}.get(src[i], 0)
        i += 1
    if depth:
        raise Refuse('unbalanced braces in %s' % name)
    return m.group(1), src[m.end():i - 1], src

def defines(src):
    out = {}
    for m in re.finditer(r'^\s*#define\s+(\w+)\s+(\S+)\s*$', src, flags=re.M):
        out[m.group(1)] = m.group(2)
    return out

def num_to_coq(text):
    t = text
    if t.endswith('.'):
        t = t + '0'
    f = Fraction(t)
    if f.denominator == 1:
        return '(%d)' % f.numerator
    return '(%d / %d)' % (f.numerator, f.denominator)

# ---------------------------------------------------------------------------------------------- parser (AST as tuples)

class P:
    def __init__(self, toks):
        self.t = toks
        self.i = 0
    def peek(self, k=0):
        return self.t[self.i + k] if self.i + k < len(self.t) else ('eof', '')
    def eat(self, kind=None, val=None):
        tk = self.peek()
        if (kind and tk[0] != kind) or (val is not None and tk[1] != val):
            raise Refuse('expected %s %s, got %r' % (kind, val, tk))
        self.i += 1
        return tk
    def at(self, val):
        return self.peek()[1] == val and self.peek()[0] in ('op', 'id')

    # expressions
    def expr(self):
        return self.lor()
    def lor(self):
        e = self.cmp()
        while self.at('||'):
            self.eat(); e = ('or', e, self.cmp())
        return e
    def cmp(self):
        e = self.add()
        while self.peek()[0] == 'op' and self.peek()[1] in ('==', '<'):
            op = self.eat()[1]; e = (op, e, self.add())
        return e
    def add(self):
        e = self.mul()
        while self.peek()[0] == 'op' and self.peek()[1] in ('+', '-'):
            op = self.eat()[1]; e = (op, e, self.mul())
        return e
    def mul(self):
        e = self.unary()
        while self.peek()[0] == 'op' and self.peek()[1] in ('*', '/'):
            op = self.eat()[1]; e = (op, e, self.unary())
        return e
    def unary(self):
        if self.at('-'):
            self.eat(); return ('neg', self.unary())
        if self.at('+'):
            self.eat(); return self.unary()
        return self.primary()
    def primary(self):
        k, v = self.peek()
        if k == 'num':
            self.eat(); return ('num', v)
        if k == 'op' and v == '(':
            self.eat(); e = self.expr(); self.eat('op', ')'); return e
        if k == 'id':
            self.eat()
            if self.at('('):
                self.eat(); args = []
                if not self.at(')'):
                    args.append(self.expr())
                    while self.at(','):
                        self.eat(); args.append(self.expr())
                self.eat('op', ')')
                return ('call', v, args)
            if self.at('['):
                self.eat(); idx = self.expr(); self.eat('op', ']')
                return ('idx', v, idx)
            return ('var', v)
        raise Refuse('unexpected token %r' % ((k, v),))

    # statements
    def block(self):
        self.eat('op', '{'); out = []
        while not self.at('}'):
            out.append(self.stmt())
        self.eat('op', '}')
        return out
    def body(self):
        out = []
        while self.peek()[0] != 'eof':
            out.append(self.stmt())
        return out
    def stmt(self):
        k, v = self.peek()
        if k == 'id' and v in ('double', 'int'):
            self.eat(); names = []
            while True:
                while self.at('*'):
                    self.eat()
                n = self.eat('id')[1]
                if self.at('['):            # double p[8] = {...};
                    self.eat(); self.expr(); self.eat('op', ']')
                    if self.at('='):
                        self.eat(); self.eat('op', '{')
                        while not self.at('}'):
                            self.eat()
                        self.eat('op', '}')
                names.append(n)
                if self.at(','):
                    self.eat(); continue
                break
            self.eat('op', ';')
            return ('decl', v, names)
        if k == 'id' and v == 'if':
            self.eat(); self.eat('op', '('); c = self.expr(); self.eat('op', ')')
            then = self.block(); els = None
            if self.at('else'):
                self.eat()
                els = [self.stmt()] if self.at('if') else self.block()
            return ('if', c, then, els)
        if k == 'id' and v == 'for':
            self.eat(); self.eat('op', '(')
            var = self.eat('id')[1]; self.eat('op', '='); lo = self.expr(); self.eat('op', ';')
            v2 = self.eat('id')[1]; self.eat('op', '<'); hi = self.expr(); self.eat('op', ';')
            v3 = self.eat('id')[1]; self.eat('op', '++'); self.eat('op', ')')
            if not (var == v2 == v3) or lo != ('num', '0') or hi[0] != 'var':
                raise Refuse('for loop is not  for(i=0; i<n; i++)')
            body = self.block() if self.at('{') else [self.stmt()]
            return ('for', var, hi[1], body)
        if k == 'id' and v == 'return':
            self.eat(); e = self.expr(); self.eat('op', ';')
            return ('return', e)
        if k == 'id' and v == 'free':
            self.eat(); self.eat('op', '('); self.eat('id'); self.eat('op', ')'); self.eat('op', ';')
            return ('free',)
        if k == 'id':
            self.eat()
            if self.at('['):
                self.eat(); idx = self.expr(); self.eat('op', ']'); self.eat('op', '=')
                e = self.expr(); self.eat('op', ';')
                return ('aset', v, idx, e)
            self.eat('op', '=')
            if self.peek() == ('id', 'malloc'):
                while not self.at(';'):
                    self.eat()
                self.eat('op', ';')
                return ('malloc', v)
            e = self.expr(); self.eat('op', ';')
            return ('set', v, e)
        raise Refuse('statement starting with %r' % ((k, v),))

# ---------------------------------------------------------------------------------------------- symbolic execution

class Exec:
    def __init__(self, ints, inputs, params_name, consts, funcs, out_name, out_index):
        self.ints = dict(ints)              # integer-valued names with concrete values (Nparams) -> int
        self.inputs = dict(inputs)          # (array, loopvar) -> Coq variable
        self.params_name = params_name
        self.consts = dict(consts)          # macro / constant name -> Coq text
        self.funcs = dict(FUNCS); self.funcs.update(funcs)
        self.env = {}                       # scalar -> Coq text
        self.arr = {}                       # (array, loopvar) -> Coq text
        self.loops = []                     # active loop variables (with their bounds)
        self.out_name, self.out_index = out_name, out_index
        self.result = None
        self.used_params = set()

    def cond(self, c):
        if c[0] == 'or':
            return self.cond(c[1]) or self.cond(c[2])
        if c[0] == '==' and c[1][0] == 'var' and c[1][1] in self.ints and c[2][0] == 'num':
            return self.ints[c[1][1]] == int(c[2][1])
        raise Refuse('condition is not a test of %s against a literal' % '/'.join(self.ints))

    def ex(self, e):
        k = e[0]
        if k == 'num':
            return num_to_coq(e[1])
        if k == 'var':
            n = e[1]
            if n in self.env:
                return self.env[n]
            if n in self.consts:
                return self.consts[n]
            raise Refuse('unknown name %s' % n)
        if k == 'neg':
            return '(- %s)' % self.ex(e[1])
        if k in ('+', '-', '*', '/'):
            return '(%s %s %s)' % (self.ex(e[1]), k, self.ex(e[2]))
        if k == 'idx':
            a, idx = e[1], e[2]
            if a == self.params_name:
                if idx[0] != 'num':
                    raise Refuse('params index is not a literal')
                self.used_params.add(int(idx[1]))
                return 'p%d' % int(idx[1])
            if idx[0] != 'var' or idx[1] not in [l[0] for l in self.loops]:
                raise Refuse('array %s indexed by something that is not an active loop variable' % a)
            key = (a, idx[1])
            if key in self.arr:
                return self.arr[key]
            if key in self.inputs:
                return self.inputs[key]
            raise Refuse('array element %s[%s] is not defined' % key)
        if k == 'call':
            if e[1] not in self.funcs:
                raise Refuse('call to %s' % e[1])
            name, ar = self.funcs[e[1]]
            if len(e[2]) != ar:
                raise Refuse('arity of %s' % e[1])
            return '(%s %s)' % (name, ' '.join(self.ex(a) for a in e[2]))
        raise Refuse('expression %r' % (k,))

    def run(self, stmts):
        for st in stmts:
            if self.result is not None and st[0] not in ('free', 'for'):
                raise Refuse('statement after the result')
            k = st[0]
            if k in ('decl', 'free', 'malloc'):
                continue
            if k == 'set':
                if self.loops and st[1] in self.env and False:
                    raise Refuse('re-assignment in loop')
                self.env[st[1]] = self.ex(st[2])
            elif k == 'if':
                if self.cond(st[1]):
                    self.run(st[2])
                elif st[3] is not None:
                    self.run(st[3])
            elif k == 'for':
                self.loops.append((st[1], st[2]))
                saved = dict(self.env)
                self.run(st[3])
                # scalars assigned inside a loop body are loop-local temporaries
                self.env = saved
                self.loops.pop()
            elif k == 'aset':
                a, idx, e = st[1], st[2], st[3]
                if a == self.out_name:
                    if [l[0] for l in self.loops] != self.out_index['loops'] or idx != self.out_index['expr']:
                        raise Refuse('output index is not the expected row-major expression')
                    if [l[1] for l in self.loops] != self.out_index['bounds']:
                        raise Refuse('loop bounds %r are not %r' % ([l[1] for l in self.loops], self.out_index['bounds']))
                    if self.result is not None:
                        raise Refuse('output assigned twice')
                    self.result = self.ex(e)
                else:
                    if idx[0] != 'var' or not self.loops or idx[1] != self.loops[-1][0] or len(self.loops) != 1:
                        raise Refuse('temporary array %s not filled element-wise in a simple loop' % a)
                    if (a, idx[1]) in self.arr or (a, idx[1]) in self.inputs:
                        raise Refuse('array %s assigned twice' % a)
                    self.arr[(a, idx[1])] = self.ex(e)
            elif k == 'return':
                if self.loops:
                    raise Refuse('return inside a loop')
                self.result = self.ex(st[1])
            else:
                raise Refuse('statement %s' % k)

ROW_MAJOR = {'loops': ['ii', 'jj'], 'bounds': ['n', 'm'], 'expr': ('+', ('*', ('var', 'ii'), ('var', 'm')), ('var', 'jj'))}

def translate_pdf(path, name, nparams, extra_funcs=None, coq_name=None, extra_binders=''):
    """Translate  void name(double *xx, double *yy, double *params, int n, int m, int Nparams, double *output)
    for the concrete parameter count `nparams`.  Returns (coq definition text, list of parameter names)."""
    proto, body, src = find_function_source(path, name)
    args = [a.strip() for a in proto.split(',')]
    want = ['double *xx', 'double *yy', 'double *params', 'int n', 'int m', 'int Nparams', 'double *output']
    if [re.sub(r'\s+', ' ', a) for a in args] != want:
        raise Refuse('%s: prototype %r is not %r' % (name, args, want))
    consts = {}
    d = defines(src)
    if 'M_PI' in d:
        try:
            ok = abs(float(d['M_PI']) - 3.141592653589793) < 1e-15
        except ValueError:
            ok = False
        if not ok:
            raise Refuse('#define M_PI %s is not pi' % d['M_PI'])
        consts['M_PI'] = 'PI'
    stmts = P(tokenize(body)).body()
    ex = Exec({'Nparams': nparams}, {('xx', 'ii'): 'x', ('yy', 'jj'): 'y'}, 'params', consts, extra_funcs or {}, 'output', ROW_MAJOR)
    ex.run(stmts)
    if ex.result is None:
        raise Refuse('%s: no output assignment found' % name)
    if ex.used_params and max(ex.used_params) >= nparams:
        raise Refuse('%s reads params[%d] with Nparams = %d' % (name, max(ex.used_params), nparams))
    ps = ['p%d' % i for i in range(nparams)]
    cn = coq_name or 'gen_c_%s_%d' % (name, nparams)
    text = 'Definition %s %s%s (x y : R) : R :=\n  %s.' % (cn, extra_binders, ' '.join('(%s : R)' % p for p in ps), ex.result)
    return text, ps, sorted(ex.used_params)
