"""Fail-closed symbolic execution of the finite-difference code of dadi/Godambe.py into Coq terms over R.

The stencil code is not straight-line: it writes into a work vector (pwork[ii] = p0[ii] + eps[ii]),
samples the function (fp = func(pwork, *args)), branches on `pwork[ii] != 0 and not one_sided[ii]` and
finally combines the samples arithmetically.  This module executes exactly that subset symbolically:

    state  : the symbolic contents of pwork at the indices of interest, local temporaries
    sample : func(pwork, *args)   ->   (g <pwork[ii]> <pwork[jj]>)     (g : R -> R -> R, or R -> R on the diagonal)
    branch : if c: A else: B ; rest   ->   (if <c> then [A; rest] else [B; rest])      (bool-valued Coq term)

Everything outside the recognised shape raises Refuse (reported as a broken translator obligation).
Arithmetic sub-expressions are handled by pyexpr.Tr (constants, + - * /, unary -, small integer powers).
"""
import ast
from harness.translate import pyexpr
from harness.translate.pyexpr import Refuse


def module_constants(path):
    """top-level  NAME = <bool/int/float constant>  assignments"""
    tree = ast.parse(open(path).read())
    out = {}
    for n in tree.body:
        if isinstance(n, ast.Assign) and len(n.targets) == 1 and isinstance(n.targets[0], ast.Name) \
                and isinstance(n.value, ast.Constant):
            out[n.targets[0].id] = n.value.value
    return out


class Sym(pyexpr.Tr):
    """arrays: python array name -> atom prefix (p0 -> 'p', eps -> 'e'); barrays likewise for boolean arrays;
    index: python index variable -> suffix; work: name of the work vector (copy of `work_of`)."""

    def __init__(self, arrays, barrays, index, work=None, work_of=None, func=None, consts=None, scalars=()):
        super().__init__(funcs={})
        self.arrays, self.barrays, self.index = arrays, barrays, index
        self.work, self.work_of, self.func = work, work_of, func
        self.consts = consts or {}
        self.vars = list(scalars)
        self.wstate = None           # index suffix -> coq term
        self.out = {}                # designated outputs written by subscript assignment
        self.sample_dims = None      # ordered index suffixes the sampled function depends on
        self.used_atoms = []

    # ---- atoms -------------------------------------------------------------------------------
    def _idx(self, sl):
        if isinstance(sl, ast.Name) and sl.id in self.index:
            return self.index[sl.id]
        raise Refuse('subscript index %s' % ast.dump(sl))

    def _atom(self, a):
        if a not in self.used_atoms:
            self.used_atoms.append(a)
        return a

    def expr(self, e):
        if isinstance(e, ast.Subscript) and isinstance(e.value, ast.Name):
            nm = e.value.id
            if nm == self.work:
                if self.wstate is None:
                    raise Refuse('%s read before initialisation' % nm)
                return self.wstate[self._idx(e.slice)]
            if nm in self.arrays:
                return self._atom(self.arrays[nm] + self._idx(e.slice))
            raise Refuse('subscript of %s' % nm)
        if isinstance(e, ast.Call):
            return self.sample(e)
        return super().expr(e)

    def sample(self, e):
        ok = (isinstance(e.func, ast.Name) and e.func.id == self.func and len(e.args) == 2 and not e.keywords
              and isinstance(e.args[0], ast.Name) and e.args[0].id == self.work
              and isinstance(e.args[1], ast.Starred) and isinstance(e.args[1].value, ast.Name) and e.args[1].value.id == 'args')
        if not ok or self.wstate is None:
            raise Refuse('call %s' % ast.unparse(e))
        return '(g %s)' % ' '.join(self.wstate[d] for d in self.sample_dims)

    # ---- conditions --------------------------------------------------------------------------
    def cond(self, t):
        if isinstance(t, ast.BoolOp) and isinstance(t.op, ast.And):
            parts = [self.cond(v) for v in t.values]
            r = parts[0]
            for p in parts[1:]:
                r = '(%s && %s)' % (r, p)
            return r
        if isinstance(t, ast.UnaryOp) and isinstance(t.op, ast.Not):
            return '(negb %s)' % self.cond(t.operand)
        if isinstance(t, ast.Subscript) and isinstance(t.value, ast.Name) and t.value.id in self.barrays:
            return self._atom(self.barrays[t.value.id] + self._idx(t.slice))
        if isinstance(t, ast.Compare) and len(t.ops) == 1:
            l, r = self.expr(t.left), self.expr(t.comparators[0])
            op = t.ops[0]
            if isinstance(op, ast.NotEq):
                return '(negb (Reqb %s %s))' % (l, r)
            if isinstance(op, ast.Eq):
                return '(Reqb %s %s)' % (l, r)
            if isinstance(op, ast.Lt):
                return '(negb (Rleb %s %s))' % (r, l)
            if isinstance(op, ast.LtE):
                return '(Rleb %s %s)' % (l, r)
            raise Refuse('comparison %s' % type(op).__name__)
        raise Refuse('condition %s' % ast.unparse(t))

    # ---- statements --------------------------------------------------------------------------
    def is_work_init(self, st):
        """pwork = numpy.array(p0, copy=True, dtype=float)"""
        if not (isinstance(st, ast.Assign) and len(st.targets) == 1 and isinstance(st.targets[0], ast.Name)
                and st.targets[0].id == self.work and isinstance(st.value, ast.Call)):
            return False
        c = st.value
        if not (isinstance(c.func, ast.Attribute) and c.func.attr == 'array' and len(c.args) == 1
                and isinstance(c.args[0], ast.Name) and c.args[0].id == self.work_of):
            raise Refuse('initialisation of %s: %s' % (self.work, ast.unparse(st)))
        kw = {k.arg: ast.unparse(k.value) for k in c.keywords}
        if kw != {'copy': 'True', 'dtype': 'float'}:
            raise Refuse('initialisation of %s: %s' % (self.work, ast.unparse(st)))
        return True

    def run(self, stmts, result):
        """result: callable(self) -> coq term, evaluated where control falls off the end (or at `return`)."""
        # snapshots so that the two arms of a branch do not see each other's assignments
        for k, st in enumerate(stmts):
            rest = stmts[k + 1:]
            if self.work and self.is_work_init(st):
                self.wstate = {d: self._atom(self.arrays[self.work_of] + d) for d in self.sample_dims}
                continue
            if isinstance(st, ast.If):
                t = st.test
                if isinstance(t, ast.Name) and t.id in self.consts and isinstance(self.consts[t.id], bool):
                    # module-level flag: prune
                    return self.run((st.body if self.consts[t.id] else st.orelse) + rest, result)
                c = self.cond(t)
                snap = (dict(self.env), dict(self.wstate) if self.wstate is not None else None, dict(self.out))
                a = self.run(st.body + rest, result)
                self.env, self.wstate, self.out = dict(snap[0]), (dict(snap[1]) if snap[1] is not None else None), dict(snap[2])
                b = self.run(st.orelse + rest, result)
                return '(if %s then %s else %s)' % (c, a, b)
            if isinstance(st, ast.Return) and st.value is not None:
                return self.expr(st.value)
            if isinstance(st, ast.Assign) and len(st.targets) == 1:
                tg = st.targets[0]
                if isinstance(tg, ast.Name):
                    if tg.id in self.vars:
                        raise Refuse('assignment to parameter %s' % tg.id)
                    self.env[tg.id] = self.expr(st.value)      # re-assignment allowed: sequential semantics
                    continue
                if isinstance(tg, ast.Subscript) and isinstance(tg.value, ast.Name):
                    nm = tg.value.id
                    if nm == self.work:
                        if self.wstate is None:
                            raise Refuse('%s written before initialisation' % nm)
                        self.wstate[self._idx(tg.slice)] = self.expr(st.value)
                        continue
                    if nm in self.out_names:
                        d = self._idx(tg.slice)
                        if isinstance(st.value, ast.Constant) and isinstance(st.value.value, bool):
                            self.out[(nm, d)] = 'true' if st.value.value else 'false'
                        else:
                            self.out[(nm, d)] = self.expr(st.value)
                        continue
                raise Refuse('assignment %s' % ast.unparse(st))
            raise Refuse('statement %s' % ast.unparse(st)[:80])
        return result(self)

    out_names = ()


def _body(fn):
    body = list(fn.body)
    if body and isinstance(body[0], ast.Expr) and isinstance(body[0].value, ast.Constant) and isinstance(body[0].value.value, str):
        body = body[1:]
    return body


def _no_return(self):
    raise Refuse('control reaches the end without return')


def translate_hessian_elem(path):
    """-> coq text defining gen_hess_diag, gen_hess_off"""
    fn = pyexpr.find_function(path, 'hessian_elem')
    args = [a.arg for a in fn.args.args]
    if args != ['func', 'f0', 'p0', 'ii', 'jj', 'eps', 'args', 'one_sided']:
        raise Refuse('hessian_elem signature %r' % args)
    body = _body(fn)
    # default for one_sided
    st = body[0]
    if not (isinstance(st, ast.If) and ast.unparse(st.test) == 'one_sided is None' and not st.orelse
            and len(st.body) == 1 and ast.unparse(st.body[0]) == 'one_sided = [False] * len(p0)'):
        raise Refuse('one_sided default: %s' % ast.unparse(st)[:80])
    init, top = body[1], body[2:]
    if len(top) != 2 or not isinstance(top[0], ast.If) or ast.unparse(top[0].test) != 'ii == jj' \
            or not (isinstance(top[1], ast.Return) and isinstance(top[1].value, ast.Name)):
        raise Refuse('expected  if ii == jj: ... else: ... ; return element')
    ret = top[1]
    defs = []
    for name, stmts, index, dims in (
            ('gen_hess_diag', top[0].body, {'ii': 'i', 'jj': 'i'}, ['i']),
            ('gen_hess_off', top[0].orelse, {'ii': 'i', 'jj': 'j'}, ['i', 'j'])):
        s = Sym(arrays={'p0': 'p', 'eps': 'e'}, barrays={'one_sided': 'os'}, index=index, work='pwork', work_of='p0',
                func='func', scalars=['f0'])
        s.sample_dims = dims
        term = s.run([init] + stmts + [ret], _no_return)
        gty = 'R -> R' if dims == ['i'] else 'R -> R -> R'
        reals = ['f0'] + ['p' + d for d in dims] + ['e' + d for d in dims]
        bools = ['os' + d for d in dims]
        defs.append('Definition %s (g : %s) (%s : R) (%s : bool) : R :=\n  %s.' % (name, gty, ' '.join(reals), ' '.join(bools), term))
    return '\n'.join(defs)


def _find_loop(fn, pred):
    hits = [n for n in fn.body if isinstance(n, ast.For) and pred(n)]
    if len(hits) != 1:
        raise Refuse('%s: expected exactly one matching loop, found %d' % (fn.name, len(hits)))
    return hits[0]


def translate_step_rule(path, fname, coq_name):
    """the  for i, pval in enumerate(p0)  loop of get_hess / get_grad  ->  gen_step (eps_in pval) : R * bool"""
    fn = pyexpr.find_function(path, fname)
    pre = [ast.unparse(s) for s in _body(fn)[:3]]
    if pre != ['eps_in = eps', 'eps = numpy.empty([len(p0)])', 'one_sided = [False] * len(p0)']:
        raise Refuse('%s: step-size preamble %r' % (fname, pre))
    loop = _find_loop(fn, lambda n: ast.unparse(n.iter) == 'enumerate(p0)')
    if ast.unparse(loop.target) != '(i, pval)' or loop.orelse:
        raise Refuse('%s: loop target %s' % (fname, ast.unparse(loop.target)))
    s = Sym(arrays={}, barrays={}, index={'i': ''}, scalars=['eps_in', 'pval'])
    s.out_names = ('eps', 'one_sided')
    s.out = {('one_sided', ''): 'false'}
    def res(self):
        if ('eps', '') not in self.out:
            raise Refuse('%s: a path leaves eps[i] unset' % fname)
        return '(%s, %s)' % (self.out[('eps', '')], self.out[('one_sided', '')])
    term = s.run(list(loop.body), res)
    return 'Definition %s (eps_in pval : R) : R * bool :=\n  %s.' % (coq_name, term)


def translate_grad_elem(path, consts):
    """loop body of get_grad -> gen_grad_elem (g : R -> R) (pi ei : R) (osi : bool)"""
    fn = pyexpr.find_function(path, 'get_grad')
    loop = _find_loop(fn, lambda n: ast.unparse(n.iter) == 'range(len(p0))')
    if ast.unparse(loop.target) != 'ii' or loop.orelse:
        raise Refuse('get_grad loop target')
    s = Sym(arrays={'p0': 'p', 'eps': 'e'}, barrays={'one_sided': 'os'}, index={'ii': 'i'}, work='pwork', work_of='p0',
            func='func', consts=consts)
    s.sample_dims = ['i']
    s.out_names = ('grad',)
    def res(self):
        if ('grad', 'i') not in self.out:
            raise Refuse('get_grad: a path leaves grad[ii] unset')
        return self.out[('grad', 'i')]
    term = s.run(list(loop.body), res)
    # return value and allocation
    tail = [ast.unparse(x) for x in fn.body[-1:]]
    if tail != ['return grad']:
        raise Refuse('get_grad: tail %r' % tail)
    return 'Definition gen_grad_elem (g : R -> R) (pi ei : R) (osi : bool) : R :=\n  %s.' % term


def structure_get_hess(path):
    """non-arithmetic skeleton of get_hess: f0 once, upper triangle by hessian_elem, mirrored. -> list of (what, ok, detail)"""
    fn = pyexpr.find_function(path, 'get_hess')
    src = [ast.unparse(s) for s in _body(fn)]
    want_tail = ['f0 = func(p0, *args)',
                 'hess = numpy.empty((len(p0), len(p0)))',
                 'for ii in range(len(p0)):\n    for jj in range(ii, len(p0)):\n        hess[ii][jj] = hessian_elem(func, f0, p0, ii, jj, eps, args=args, one_sided=one_sided)\n        hess[jj][ii] = hess[ii][jj]',
                 'return hess']
    return [('get_hess skeleton (f0 once; upper triangle via hessian_elem(func, f0, p0, ii, jj, eps, one_sided); mirrored)',
             src[-4:] == want_tail, repr(src[-4:]) if src[-4:] != want_tail else '')]


def structure_get_godambe(path):
    """assembly statements of get_godambe (numpy glue, not translated into Coq terms): presence of the exact statements"""
    fn = pyexpr.find_function(path, 'get_godambe')
    stm = set()
    for n in ast.walk(fn):
        if isinstance(n, (ast.Assign, ast.Return)):
            stm.add(ast.unparse(n))
    want = ['hess = -get_hess(func, p0, eps, args=[data])',
            'hess = -get_hess(log_func, numpy.log(p0), eps, args=[data])',
            'grad_temp = get_grad(func, p0, eps, args=[boot, theta_adjust])',
            'grad_temp = get_grad(log_func, numpy.log(p0), eps, args=[boot, theta_adjust])',
            'J_temp = numpy.outer(grad_temp, grad_temp)', 'J = J + J_temp', 'cU = cU + grad_temp',
            'J = J / len(all_boot)', 'cU = cU / len(all_boot)', 'J_inv = numpy.linalg.inv(J)',
            'godambe = numpy.dot(numpy.dot(hess, J_inv), hess)', 'return (godambe, hess, J, cU)']
    out = []
    for w in want:
        out.append((w, w in stm))
    return out
