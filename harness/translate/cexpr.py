"""Fail-closed translator for C arithmetic expressions / simple assignments -> Coq terms over R.

Grammar: + - * / unary-, parentheses, identifiers, numeric literals (1., 0.5, 2, 4), calls pow(e, <int literal>),
exp(e), fabs(e); array references name[index] where index is an integer expression in identifiers, literals, + and -
(translated to applications `name (index)` of a function nat -> R, with index over nat).
Anything else raises Refuse.
"""
import re
from fractions import Fraction

class Refuse(Exception):
    pass

TOK = re.compile(r'\s*(?:(\d+\.\d*(?:[eE][-+]?\d+)?|\.\d+|\d+)|([A-Za-z_]\w*)|(==|<=|>=|!=|&&|\|\||[-+*/()\[\],<>!]))')

def tokenize(s):
    pos = 0; out = []
    s = s.strip()
    while pos < len(s):
        m = TOK.match(s, pos)
        if not m:
            raise Refuse('cannot tokenize %r' % s[pos:pos + 20])
        if m.group(1) is not None:
            out.append(('num', m.group(1)))
        elif m.group(2) is not None:
            out.append(('id', m.group(2)))
        else:
            out.append(('op', m.group(3)))
        pos = m.end()
    return out

def num_to_coq(t):
    f = Fraction(t if not t.endswith('.') else t + '0')
    if f.denominator == 1:
        return '%d' % f.numerator
    return '(%d / %d)' % (f.numerator, f.denominator)

class P:
    def __init__(self, toks, funcs=None, int_ids=()):
        self.t = toks; self.i = 0
        self.funcs = funcs or {}
        self.ids = []          # real identifiers seen
        self.arrays = []       # array names seen
        self.idx_ids = []      # integer identifiers seen in indices
    def peek(self):
        return self.t[self.i] if self.i < len(self.t) else (None, None)
    def eat(self, kind=None, val=None):
        k, v = self.peek()
        if (kind and k != kind) or (val and v != val):
            raise Refuse('expected %s %s, got %s %s' % (kind, val, k, v))
        self.i += 1
        return v
    # real expression
    def expr(self):
        l = self.term()
        while self.peek() in (('op', '+'), ('op', '-')):
            op = self.eat()
            r = self.term()
            l = '(%s %s %s)' % (l, op, r)
        return l
    def term(self):
        l = self.unary()
        while self.peek() in (('op', '*'), ('op', '/')):
            op = self.eat()
            r = self.unary()
            l = '(%s %s %s)' % (l, op, r)
        return l
    def unary(self):
        if self.peek() == ('op', '-'):
            self.eat()
            return '(- %s)' % self.unary()
        if self.peek() == ('op', '+'):
            self.eat()
            return self.unary()
        return self.atom()
    def atom(self):
        k, v = self.peek()
        if k == 'num':
            self.eat()
            return num_to_coq(v)
        if k == 'op' and v == '(':
            self.eat()
            e = self.expr()
            self.eat('op', ')')
            return e
        if k == 'id':
            self.eat()
            if self.peek() == ('op', '('):
                self.eat()
                args = []
                if self.peek() != ('op', ')'):
                    args.append(self.arg())
                    while self.peek() == ('op', ','):
                        self.eat(); args.append(self.arg())
                self.eat('op', ')')
                if v == 'pow':
                    if len(args) != 2 or not re.fullmatch(r'\d+', args[1]):
                        raise Refuse('pow with non-literal exponent')
                    return '(%s ^ %s)' % (args[0], args[1])
                if v == 'exp' and len(args) == 1:
                    return '(exp %s)' % args[0]
                if v in self.funcs:
                    return '(%s %s)' % (self.funcs[v], ' '.join(args))
                raise Refuse('call to %s' % v)
            if self.peek() == ('op', '['):
                self.eat()
                ix = self.iexpr()
                self.eat('op', ']')
                if v not in self.arrays:
                    self.arrays.append(v)
                return '(%s %s)' % (v, ix)
            if v not in self.ids:
                self.ids.append(v)
            return v
        raise Refuse('unexpected token %s %s' % (k, v))
    def arg(self):
        return self.expr()
    # integer index expression (nat)
    def iexpr(self):
        l = self.iatom()
        while self.peek() in (('op', '+'), ('op', '-'), ('op', '*')):
            op = self.eat()
            r = self.iatom()
            l = '(%s %s %s)%%nat' % (l, op, r)
        return l
    def iatom(self):
        k, v = self.peek()
        if k == 'num' and re.fullmatch(r'\d+', v):
            self.eat(); return '%s%%nat' % v
        if k == 'id':
            self.eat()
            if v not in self.idx_ids:
                self.idx_ids.append(v)
            return v
        if k == 'op' and v == '(':
            self.eat(); e = self.iexpr(); self.eat('op', ')'); return e
        raise Refuse('index token %s %s' % (k, v))

def translate_expr(text, funcs=None):
    p = P(tokenize(text), funcs)
    e = p.expr()
    if p.i != len(p.t):
        raise Refuse('trailing tokens in %r' % text)
    return e, p

def c_function_body(src, name):
    """returns (params text, body text) of the C function `name` (first definition with a body)"""
    m = re.search(r'\b(?:double|void)\s+%s\s*\(([^)]*)\)\s*\{' % re.escape(name), src)
    if not m:
        raise Refuse('C function %s not found' % name)
    i = m.end(); depth = 1
    while depth and i < len(src):
        if src[i] == '{':
            depth += 1
        elif src[i] == '}':
            depth -= 1
        i += 1
    return m.group(1), src[m.end():i - 1]

def strip_comments(s):
    s = re.sub(r'/\*.*?\*/', '', s, flags=re.S)
    return re.sub(r'//[^\n]*', '', s)

def return_expr(src, name):
    params, body = c_function_body(strip_comments(src), name)
    body = body.strip()
    m = re.fullmatch(r'return\s+(.*?);', body, flags=re.S)
    if not m:
        raise Refuse('%s: body is not a single return statement' % name)
    pnames = []
    for prm in params.split(','):
        prm = prm.strip()
        mm = re.fullmatch(r'double\s+(\w+)', prm)
        if not mm:
            raise Refuse('%s: parameter %r' % (name, prm))
        pnames.append(mm.group(1))
    return pnames, ' '.join(m.group(1).split())
