"""Fail-closed extractor for Integration._inject_mutations_{1..5}D: each function must be a sequence of
   [if not frozenK [and not nomutK]:]  phi[e_K] += <expr>      followed by  return phi
Returns, per population, (guard flag names, unit index, Coq term of <expr> with x_j[i] rendered as (g_j i))."""
import ast
from harness.translate.pyexpr import Refuse, const_to_coq

GRIDS = ['xx', 'yy', 'zz', 'aa', 'bb']

def expr(e, d):
    if isinstance(e, ast.BinOp):
        op = {ast.Add: '+', ast.Sub: '-', ast.Mult: '*', ast.Div: '/'}.get(type(e.op))
        if op is None:
            raise Refuse('operator')
        return '(%s %s %s)' % (expr(e.left, d), op, expr(e.right, d))
    if isinstance(e, ast.Constant):
        return const_to_coq(e.value)
    if isinstance(e, ast.Name):
        if e.id in ('dt', 'theta0'):
            return e.id
        raise Refuse('name %s' % e.id)
    if isinstance(e, ast.Subscript) and isinstance(e.value, ast.Name) and e.value.id in GRIDS[:d] and isinstance(e.slice, ast.Constant) \
            and isinstance(e.slice.value, int) and 0 <= e.slice.value <= 2:
        return '(nthF %s %d%%nat)' % (e.value.id, e.slice.value)
    raise Refuse('expression %s' % ast.dump(e)[:60])

def flags(test):
    """`not a` or `not a and not b` -> ['a'] / ['a','b']"""
    if isinstance(test, ast.UnaryOp) and isinstance(test.op, ast.Not) and isinstance(test.operand, ast.Name):
        return [test.operand.id]
    if isinstance(test, ast.BoolOp) and isinstance(test.op, ast.And):
        out = []
        for v in test.values:
            out += flags(v)
        return out
    raise Refuse('guard %s' % ast.dump(test)[:60])

def extract(path, d):
    tree = ast.parse(open(path).read())
    fn = [n for n in tree.body if isinstance(n, ast.FunctionDef) and n.name == '_inject_mutations_%dD' % d]
    if len(fn) != 1:
        raise Refuse('function not found')
    fn = fn[0]
    args = [a.arg for a in fn.args.args]
    body = list(fn.body)
    if body and isinstance(body[0], ast.Expr) and isinstance(body[0].value, ast.Constant):
        body = body[1:]
    if not (isinstance(body[-1], ast.Return) and isinstance(body[-1].value, ast.Name) and body[-1].value.id == 'phi'):
        raise Refuse('does not end with return phi')
    out = []
    for st in body[:-1]:
        guard = []
        if isinstance(st, ast.If):
            if st.orelse or len(st.body) != 1:
                raise Refuse('if shape')
            guard = flags(st.test)
            st = st.body[0]
        if not (isinstance(st, ast.AugAssign) and isinstance(st.op, ast.Add) and isinstance(st.target, ast.Subscript)
                and isinstance(st.target.value, ast.Name) and st.target.value.id == 'phi'):
            raise Refuse('statement %s' % type(st).__name__)
        sl = st.target.slice
        idx = [sl.value] if isinstance(sl, ast.Constant) else [e.value for e in sl.elts] if isinstance(sl, ast.Tuple) and all(isinstance(e, ast.Constant) for e in sl.elts) else None
        if idx is None or len(idx) != d or sorted(idx) != [0] * (d - 1) + [1]:
            raise Refuse('target index %r' % (idx,))
        out.append({'guard': guard, 'k': idx.index(1), 'term': expr(st.value, d)})
    return args, out
