"""Regenerates MANIFEST.json from the table below (kept in one place so it is always valid)."""
import json, os
VERIF = os.path.dirname(os.path.dirname(os.path.abspath(__file__)))
CLAIMED = {
 'C07': dict(
   text='Proof: for every k in 1..6, all coefficient sets and all pairwise distinct grid spacings, the Lagrange model returns the value at zero spacing exactly (Coq, field); order-independence for every data set (permutation proof); log variant; refusal outside 1..6; entrywise fallback. The closed formulas in Numerics.py are re-translated from the current source on every run and proved equal to the model for all inputs; the dispatch table is extracted from the AST; make_extrap_func/make_extrap_log_func are run against the model over exact rationals.',
   note='Trusted: Coq kernel+vm_compute; Reals axioms (sig_forall_dec, sig_not_dec, classic, functional_extensionality_dep); the pyexpr translator; the harness. Float evaluation is compared with exact evaluation at 1e-11 x conditioning scale. numpy masked-array/Spectrum glue is covered by execution only.',
   technique='Coq proof (field/permutation) + per-run translated obligations + correspondence by vm_compute over Q', design='4/C07'),

 'C09': dict(
  text='Proof: for every dimension d, every shape and every mask (arrays as C-order lists of length prod(shape), reverse-all-axes proved equal to list reversal): fold conserves the total (whole array, and over unmasked entries relative to the symmetrised mask), fold(mirror x)=fold x (data and mask), folded mask = own OR mirror OR folded-out OR corner, fold(unfold(fold x))=fold x for data, mask and the whole Spectrum object, ambiguous entries = mean of entry and mirror, none when the total is odd, misid = (1-p)x+p*mirror(x) entrywise with mask OR and conserved total, mixed folded/unfolded arithmetic refused by all 14 binary + 7 in-place methods (and nothing else refused), folding flag/shape/labels kept and masks OR-ed, slicing keeps flag/labels, ll/ll_multinom fold an unfolded model against folded data and refuse a folded model against unfolded data. Per run: the misid formula, the unfold average and the ambiguous update are re-translated from the source and proved equal to the model (ring/field), the folded-out/ambiguous/mask lines are compared structurally (AST), and fold/unfold/misid/operators/slicing/ll/ll_multinom are run against the model over exact rationals (d=1..5, both parities, random masks), plus the property predicates on the implementation.',
  note='Trusted: Coq kernel+vm_compute; Reals axioms (sig_forall_dec, sig_not_dec, classic, functional_extensionality_dep); Num parametricity; pyexpr + the AST shape checks; the harness. numpy ufuncs, basic slicing, masked-array views and operator dispatch are platform (execution only). Floor division and power are evaluated on Q only for non-zero divisors / integer exponents. Values compared at 1e-11 relative where unmasked; masks, flags and labels compared exactly.',
  technique='Coq proof (involution/telescoping over an abstract index set, instantiated for all shapes) + per-run translated obligations + correspondence by vm_compute over Q',
  design='4/C09'),
 'C10': dict(
  text='Proof (unbounded in dimension and sizes): marginalize = sum over the dropped coordinates (mask = all-masked, corners), filter_pops = marginalize over the complement, reorder_pops = axis permutation (composition, inverse, refusal of non-permutations), combine_two_pops/combine_pops/Misc.combine_pops = entries added at the summed allele count on the lowest merged axis (scatter loop proved equal to the gather sum), scramble_pop_ids = pooled 1-D spectrum times multivariate hypergeometric weight; every operation conserves the total (scramble by multivariate Vandermonde, any number of populations); labels move by the same axis selection as coordinates, merged label = "+".join in population order; combine_pops depends only on the set; marginalize commutes with reorder (induced order); reorder commutes with fold (data and mask). The model is run against the real code over exact rationals for d=2..6 (all subsets/permutations/pairs/merge sets for d<=4 in thorough), with/without labels, folded/unfolded, random masks, plus refusals. Partial: commutation with projection (non-merged, non-dropped axes) and of marginalize/combine/scramble with fold is checked numerically on the implementation, not proved.',
  note='Trusted: Coq kernel+vm_compute; Reals axioms (sig_forall_dec, sig_not_dec, classic, functional_extensionality_dep); parametricity R/Q; the harness and its independent Python index arithmetic for the predicates. Values under masked entries are not compared. scramble_pop_ids/Misc.combine_pops drop labels, scramble on internally masked input yields NaN for whole total-classes (modelled as is).',
  technique='Coq proof (push-forward/fiber-sum lemmas over a commutative monoid, permutation arguments, MathComp Vandermonde) + correspondence by vm_compute over Q + predicates on the implementation', design='4/C10'),
 'C11': dict(
  text='Proof: for all entry lists/masks, ll = sum of -m+d ln m-lg(d+1) over exactly the indices masked in neither (and m>0, numpy.ma.log); reported scaling = sum(d)/sum(m) over those indices; for all s>0 ll(s*m,d) <= ll_multinom(m,d) = ll(s_opt*m,d) (from ln x <= x-1); ll_multinom(c*m,d)=ll_multinom(m,d) for all c<>0 and any-sign models; every positive model with the same masks has ll_multinom <= that of const*data (zeros in the data handled; needs lg 1 = 0); auto-fold; residual masks, values and sign. The arithmetic lines of ll_per_bin and both residuals are re-translated from the current source each run and proved equal to the model; wiring statements and intersect_masks (incl. its mask_corners flag) are matched against the expected AST; all seven functions are run against the model over exact rationals (d=1..3, projected/non-integer data, zeros, independent masks, folded data, zero/negative model stream).',
  note='Trusted: Coq kernel+vm_compute; Reals axioms (sig_forall_dec, sig_not_dec, classic, functional_extensionality_dep); gammaln uninterpreted (lg); fold a function argument with hypothesis fold(s*l)=s*fold(l), discharged for the executable fold_flat, whose equality with Spectrum.fold is covered by the folded correspondence cases (C09 owns folding); numpy.ma semantics modelled by hand; Qln_fast/Qexp_fast/Qlgamma approximations (checked against math.log/lgamma every run). scaling_is_ratio and the two maximum theorems carry a corner hypothesis that holds for the code since fix e944ec0 (intersect_masks passes mask_corners=False); the refuted variant is kept as a theorem.',
  technique='Coq proof (index-sum algebra, ln x <= x-1, Rpower monotonicity) + per-run translated obligations + correspondence by vm_compute over Q', design='4/C11'),

 'C08': dict(
  text='Proof (one clause partial): machine-checked for all n, m, j, all dimensions and axes: weights sum to 1, two-stage = one-stage (data and mask), support = the least/most window so masks spread exactly, axes commute (data and mask), every projected entry = hypergeometric expectation, total conserved for one axis and for the whole unfolded Spectrum.project, neutral 1/i interior fixed point, reversal symmetry (projection commutes with reverse_array), upward refused. Partial: fold(project fs) = project(fold fs) is proved only as "projection commutes with reversal of all axes" (data and mask); the fold/unfold algebra itself is C09. That identity, and folded projection == fold(project(unfold)), are evaluated on the implementation every run.',
  note='Trusted: Coq kernel+vm_compute; Reals axioms (sig_forall_dec, sig_not_dec, classic, functional_extensionality_dep); MathComp binomial.v; the harness + AST source-shape obligations. Floats vs exact: gammaln/exp weights compared with exact rationals at 1e-11 relative (observed max 2^-41); data non-negative in the correspondence cases.',
  technique='Coq proof with MathComp binomial identities (Vandermonde etc.) + correspondence inside Coq over Q + source-shape obligations + predicates on the real code', design='4/C08'),

 'C12': dict(
  text='Proof, partial. Proved for all lists / fixed patterns / any optimiser: _project_params_up/_down mutually inverse; every model evaluation of _object_func has passed its bound test (any optimiser, any proposal); under an explicit oracle contract (start evaluated first, only inside the box handed over, returned point evaluated and best, reported value = its value): NLopt_mod.opt and every scipy wrapper (optimize, optimize_log, optimize_lbfgsb, optimize_log_lbfgsb, optimize_log_fmin, optimize_log_powell, optimize_cons, optimize_grid) return fixed entries unchanged, free entries within bounds, ll(popt)=reported optimum, no worse than the start, first model evaluation at p0; perturb_params stays in bounds when lower<=0.99*upper (narrow boxes refuted with a witness: known finding). The snapshot forms that violated the property are kept as refuted theorems next to the repaired ones. Per run: wrapper pre/post-processing re-read from the source AST and compared with the model table; scripted optimisers (nlopt.opt / scipy.optimize.* replaced by stubs playing a proposal list) run through real glue and Coq model over exact rationals; real nlopt/scipy optimisers on closed-form Spectrum models with every model evaluation logged and the returned point re-evaluated; every subset of fixed parameters, multinom on/off, log on/off, None bounds.',
  note='Partial: nlopt/scipy internals are an oracle (Section variable O with hypothesis contract); real runs log how often the observable contract clauses held. Scripted runs replace ll/ll_multinom by closed-form quadratics (C11 owns the likelihood). Not modelled: nlopt.RoundoffLimited handler, eq/ineq constraints, verbose/output_file. Trusted: Coq kernel+vm_compute; Reals axioms (sig_forall_dec, sig_not_dec, classic, functional_extensionality_dep); Num parametricity; the AST descriptor reader; the harness. Float vs exact at 1e-10 x max-norm.',
  technique='Coq proof (list induction, oracle-contract reasoning, exp/ln monotonicity) + per-run source descriptors + correspondence by vm_compute over Q + property predicates on real optimisers', design='4/C12'),
}
NOT_YET = {}
def main():
    props = [json.loads(l) for l in open(os.path.join(VERIF, 'properties.jsonl'))]
    checks = []
    na = []
    for p in props:
        pid = p['id']
        if pid in CLAIMED:
            c = CLAIMED[pid]
            checks.append({
                'property_id': pid,
                'quick_cmd': './check %s --tier quick' % pid,
                'thorough_cmd': './check %s --tier thorough' % pid,
                'evidence_file': 'evidence/%s.json' % pid,
                'replay_cmd_template': './check %s --replay {path}' % pid,
                'engine': 'coq-proof+correspondence',
                'level_claimed': {'category': c.get('category', 'proof'), 'text': c['text'], 'design_ref': 'DESIGN.md section ' + c['design']},
                'level_note': c['note'],
                'technique': c['technique'],
            })
        else:
            na.append({'property_id': pid, 'reason': NOT_YET.get(pid, 'check not built yet in this development (planned: Coq model + theorems + correspondence, see DESIGN.md section 4); not claimed until it runs')})
    m = {
        'version': 1,
        'setup_cmd': 'cd /verif && /venv/bin/python harness/overlay.py && cd coq && coq_makefile -f _CoqProject -o Makefile && make -j16',
        'hooks': {'guard': 'DADI_VERIF', 'enable': 'no hooks are compiled into /repo; checks rebuild dadi from the working tree into /verif/build/overlay',
                  'baseline_off_cmd': 'cd /repo && /venv/bin/python -m pytest -ra -q -p no:cacheprovider --timeout=900 --continue-on-collection-errors',
                  'source_commits': [], 'add_only': True},
        'engines': [{'name': 'coq-proof+correspondence', 'path': 'check', 'serves_properties': sorted(CLAIMED),
                     'kind_free_text': 'Coq 8.16 theorems about a Num-polymorphic executable model (coq/theories), tied to the current source by per-run translated obligations and by a correspondence check evaluated in Coq over exact rationals'}],
        'checks': checks,
        'not_applicable': na,
        'notes': 'One CLI: ./check Cxx --tier quick|thorough [--replay f]. VERIF_SEED / VERIF_TIER honoured. known_findings.json lists genuine defects recorded or fixed.',
    }
    json.dump(m, open(os.path.join(VERIF, 'MANIFEST.json'), 'w'), indent=1)
if __name__ == '__main__':
    main()
