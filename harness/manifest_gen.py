"""Regenerates MANIFEST.json from the table below (kept in one place so it is always valid)."""
import json, os
VERIF = os.path.dirname(os.path.dirname(os.path.abspath(__file__)))
CLAIMED = {
 'C07': dict(
   text='Proof: for every k in 1..6, all coefficient sets and all pairwise distinct grid spacings, the Lagrange model returns the value at zero spacing exactly (Coq, field); order-independence for every data set (permutation proof); log variant; refusal outside 1..6; entrywise fallback. The closed formulas in Numerics.py are re-translated from the current source on every run and proved equal to the model for all inputs; the dispatch table is extracted from the AST; make_extrap_func/make_extrap_log_func are run against the model over exact rationals.',
   note='Trusted: Coq kernel+vm_compute; Reals axioms (sig_forall_dec, sig_not_dec, classic, functional_extensionality_dep); the pyexpr translator; the harness. Float evaluation is compared with exact evaluation at 1e-11 x conditioning scale. numpy masked-array/Spectrum glue is covered by execution only.',
   technique='Coq proof (field/permutation) + per-run translated obligations + correspondence by vm_compute over Q', design='4/C07'),
}
NOT_YET = {}
def main():
    props = [json.loads(l) for l in open(os.path.join(VERIF, 'properties.jsonl'))]
    checks = []
    na = []
    for p in props:
        pid = p['id']
        if pid in CLAIMED:
            c = CLAIMED[pid]
            checks.append({
                'property_id': pid,
                'quick_cmd': './check %s --tier quick' % pid,
                'thorough_cmd': './check %s --tier thorough' % pid,
                'evidence_file': 'evidence/%s.json' % pid,
                'replay_cmd_template': './check %s --replay {path}' % pid,
                'engine': 'coq-proof+correspondence',
                'level_claimed': {'category': c.get('category', 'proof'), 'text': c['text'], 'design_ref': 'DESIGN.md section ' + c['design']},
                'level_note': c['note'],
                'technique': c['technique'],
            })
        else:
            na.append({'property_id': pid, 'reason': NOT_YET.get(pid, 'check not built yet in this development (planned: Coq model + theorems + correspondence, see DESIGN.md section 4); not claimed until it runs')})
    m = {
        'version': 1,
        'setup_cmd': 'cd /verif && /venv/bin/python harness/overlay.py && cd coq && coq_makefile -f _CoqProject -o Makefile && make -j16',
        'hooks': {'guard': 'DADI_VERIF', 'enable': 'no hooks are compiled into /repo; checks rebuild dadi from the working tree into /verif/build/overlay',
                  'baseline_off_cmd': 'cd /repo && /venv/bin/python -m pytest -ra -q -p no:cacheprovider --timeout=900 --continue-on-collection-errors',
                  'source_commits': [], 'add_only': True},
        'engines': [{'name': 'coq-proof+correspondence', 'path': 'check', 'serves_properties': sorted(CLAIMED),
                     'kind_free_text': 'Coq 8.16 theorems about a Num-polymorphic executable model (coq/theories), tied to the current source by per-run translated obligations and by a correspondence check evaluated in Coq over exact rationals'}],
        'checks': checks,
        'not_applicable': na,
        'notes': 'One CLI: ./check Cxx --tier quick|thorough [--replay f]. VERIF_SEED / VERIF_TIER honoured. known_findings.json lists genuine defects recorded or fixed.',
    }
    json.dump(m, open(os.path.join(VERIF, 'MANIFEST.json'), 'w'), indent=1)
if __name__ == '__main__':
    main()
