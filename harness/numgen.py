"""Generators and Coq printers shared by the numerical properties (C02, C03, C04)."""
from fractions import Fraction
from harness import lib
from harness.lib import q, ql, qll, natl, b

def grid(rng, n, kind=None, exact_ends=True):
    """monotone grid of n points on [0,1], dyadic entries"""
    kind = kind or rng.choice(['uniform', 'exp', 'quad', 'random'])
    if kind == 'uniform':
        g = [i / (n - 1) for i in range(n)]
        g = [round(t * 1024) / 1024 for t in g]
    elif kind == 'exp':      # dadi's default_grid flavour: dense near 0 and 1
        import math
        t = [(-1 + 2 * i / (n - 1)) for i in range(n)]
        crwd = 8.0
        g = [0.5 * (1 + math.tanh(crwd / 2 * u) / math.tanh(crwd / 2)) for u in t]
        g = [round(v * 4096) / 4096 for v in g]
    elif kind == 'quad':
        g = [(i / (n - 1)) ** 2 for i in range(n)]
        g = [round(v * 4096) / 4096 for v in g]
    else:
        pts = sorted(rng.sample(range(1, 1023), n - 2))
        g = [0.0] + [p / 1024 for p in pts] + [1.0]
    g[0] = 0.0; g[-1] = 1.0
    # strictly increasing
    for i in range(1, n):
        if g[i] <= g[i - 1]:
            g[i] = g[i - 1] + 1 / 4096
    if g[-1] > 1.0:
        g = [v / g[-1] for v in g]
        g = [round(v * 8192) / 8192 for v in g]
        g[-1] = 1.0
    if not exact_ends:
        g[0] = 1 / 2048 if g[1] > 1 / 1024 else g[0]
        g[-1] = 1 - 1 / 2048 if g[-2] < 1 - 1 / 1024 else g[-1]
    return g

def density(rng, n, kind=None):
    kind = kind or rng.choice(['random', 'random', 'spike', 'smooth', 'signed'])
    if kind == 'random':
        return [lib.dyadic(rng, 0, 8, 8) for _ in range(n)]
    if kind == 'signed':     # sign-changing density with exact zeros: every operator is linear, densities go negative in real use
        return [rng.choice([0.0, lib.dyadic(rng, -8, 8, 8), lib.dyadic(rng, -8, 8, 8)]) for _ in range(n)]
    if kind == 'spike':
        v = [0.0] * n
        for _ in range(max(1, n // 6)):
            v[rng.randrange(n)] = lib.dyadic(rng, 0.5, 16, 6)
        return v
    return [round((1 + (i % 7)) * 64 / (1 + i % 5)) / 64 for i in range(n)]

def logdy(rng, lo, hi, bits=6):
    """log-uniform in [lo,hi], rounded to few significant bits (exactly representable)"""
    import math
    v = math.exp(rng.uniform(math.log(lo), math.log(hi)))
    e = math.floor(math.log2(v))
    m = round(v / 2 ** e * (1 << bits)) / (1 << bits)
    return m * 2.0 ** e

def pop(rng, d, k=None, mig=True, sel=True, beta=False):
    return {'nu': logdy(rng, 1e-2, 1e2),
            'gamma': (lib.dyadic(rng, -40, 40, 4) if rng.random() < 0.8 else 0.0) if sel else 0.0,
            'h': rng.choice([0.5, 0.0, 1.0, lib.dyadic(rng, 0, 1, 5)]) if sel else 0.5,
            'beta': logdy(rng, 0.2, 5) if beta else 1.0,
            'ms': [(lib.dyadic(rng, 0, 20, 4) if rng.random() < 0.8 else 0.0) if mig else 0.0 for _ in range(d - 1)],
            'frozen': False, 'nomut': False}

def coq_pop(p):
    return '{| p_nu := %s; p_gamma := %s; p_h := %s; p_beta := %s; p_ms := %s; p_frozen := %s; p_nomut := %s |}' % (
        q(p['nu']), q(p['gamma']), q(p['h']), q(p['beta']), ql(p['ms']), b(p.get('frozen')), b(p.get('nomut')))

HEADER = ('From Coq Require Import ZArith QArith List.\n'
          'From Dadi Require Import Base.Num Base.NumQ Model.Tridiag Model.Scheme Base.NumD Model.NDSweep Model.SchemeCheck.\n'
          'Import ListNotations.\nOpen Scope Q_scope.')
