#!/bin/bash
# usage: mk_worktree.sh <dir>   -- scratch git worktree of /repo HEAD with the untracked build products
# (Cython-generated C and compiled extension modules) copied in, plus a helper to rebuild the extensions with gcc.
set -e
D="$1"
git -C /repo worktree add --detach "$D" HEAD >/dev/null 2>&1
cd /repo
git ls-files --others --ignored --exclude-standard -z dadi | while IFS= read -r -d '' f; do
  case "$f" in *.so|*.c) mkdir -p "$D/$(dirname "$f")"; cp -p "$f" "$D/$f";; esac
done
# untracked-but-not-ignored Cython outputs
for f in dadi/integration_c.c dadi/tridiag_cython.c dadi/DFE/PDFs_cython.c; do [ -f "$f" ] && cp -p "$f" "$D/$f"; done
for f in dadi/*.so dadi/DFE/*.so dadi/Triallele/*.so dadi/TwoLocus/*.so; do [ -f "$f" ] && cp -p "$f" "$D/$f"; done
cat > "$D/rebuild_ext.sh" <<'EOS'
#!/bin/bash
# Rebuild the compiled extension modules of THIS tree after editing C sources (no Cython available: the
# Cython-generated C files are reused).  Run from the tree root.
set -e
INC=$(/venv/bin/python -c "import sysconfig;print(sysconfig.get_paths()['include'])")
NPI=$(/venv/bin/python -c "import numpy;print(numpy.get_include())")
EXT=$(/venv/bin/python -c "import sysconfig;print(sysconfig.get_config_var('EXT_SUFFIX'))")
cd dadi
gcc -O2 -fPIC -shared -w -I$INC -I$NPI -I. integration_c.c integration1D.c integration2D.c integration3D.c integration4D.c integration5D.c integration_shared.c tridiag.c -lm -o integration_c$EXT
gcc -O2 -fPIC -shared -w -I$INC -I$NPI -I. tridiag_cython.c tridiag.c -lm -o tridiag_cython$EXT
( cd DFE && gcc -O2 -fPIC -shared -w -I$INC -I$NPI -I. PDFs_cython.c -lm -o PDFs_cython$EXT )
echo rebuilt
EOS
chmod +x "$D/rebuild_ext.sh"
echo "$D"
