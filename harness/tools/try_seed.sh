#!/bin/bash
# usage: try_seed.sh <PROP> <worktree> [tier] [name]
# Confirms the seeded change (demo fails with it / passes without it), runs the check against the worktree
# (DADI_REPO=<worktree>, isolated overlay/cases/evidence), stores the artefacts under /verif/seeded/<name>/.
P=$1; W=$2; TIER=${3:-quick}; NAME=${4:-$P}
cd $W || exit 2
HASC=0; grep -q '^+++ b/.*\.c$' _seed/patch.diff && HASC=1
echo "== demo WITH change"; /venv/bin/python _seed/demo.py > /tmp/demo_with_$NAME.txt 2>&1; RW=$?; tail -2 /tmp/demo_with_$NAME.txt | cut -c1-300; echo "exit $RW"
git diff -- dadi > /tmp/_cur_$NAME.diff; git apply -R /tmp/_cur_$NAME.diff; [ $HASC = 1 ] && ./rebuild_ext.sh >/dev/null 2>&1
echo "== demo WITHOUT change"; /venv/bin/python _seed/demo.py > /tmp/demo_without_$NAME.txt 2>&1; RO=$?; tail -2 /tmp/demo_without_$NAME.txt | cut -c1-300; echo "exit $RO"
git apply /tmp/_cur_$NAME.diff; [ $HASC = 1 ] && ./rebuild_ext.sh >/dev/null 2>&1
echo "== check $P ($TIER) against the changed tree"
cd /verif && DADI_REPO=$W ./check $P --tier $TIER > /tmp/check_$NAME.txt 2>&1; RC=$?
grep -E "VIOLATION|KNOWN-FINDING|->" /tmp/check_$NAME.txt | head -4; echo "check exit $RC"
mkdir -p /verif/seeded/$NAME
cp $W/_seed/patch.diff $W/_seed/demo.py /verif/seeded/$NAME/ 2>/dev/null
/venv/bin/python - <<PY
import json,re
m=json.load(open('$W/_seed/meta.json'))
out=open('/tmp/check_$NAME.txt').read()
viol=[l for l in out.splitlines() if l.startswith('VIOLATION')]
desc=[l.strip() for l in out.splitlines() if l.startswith('  ')][:4]
m.update({'property':'$P','confirmed_by_lead':{'demo_exit_with_change':$RW,'demo_exit_without_change':$RO,
  'check_cmd':'DADI_REPO=<tree with patch applied> ./check $P --tier $TIER','check_exit':$RC,'violation_lines':len(viol),
  'violations_with_failing_input':len([v for v in viol if 'no-failing-input-found' not in v]),'first_messages':desc}})
json.dump(m,open('/verif/seeded/$NAME/meta.json','w'),indent=1)
PY
