"""Offline tool (NOT run by the check; the check recomputes the same table through harness/props/c15_common.py):
MUTATION ADEQUACY of the committed C15 obligations (harness/props/c15_nesting.json) at the level of the model DSL.

For every model function (source unit) of the translation of <repo> and every occurrence of a parameter variable inside an
Integrate / Phi1D / Pulse / AdmixNew / FromPhiInb instruction, an `if` test, or the call tuple of a wrapper model, the occurrence
is replaced by another parameter of the same class (nu / T / m / gamma / fraction; a constant where the model has none) --
a mutant of a function body is applied to all its wrapper models at once, as a source change would be -- and the Python mirror
of the normaliser decides whether at least one committed obligation (nesting pair with an affected model on either side,
label-exchange symmetry, well-formedness) that holds on the translation fails on the mutant.

    /venv/bin/python harness/tools/c15_adequacy.py [repo]             table, killers by kind, surviving mutants (= holes of the list)
    /venv/bin/python harness/tools/c15_adequacy.py [repo] --all       also: every killing obligation per mutant (which kills rest on one pair only)
    /venv/bin/python harness/tools/c15_adequacy.py [repo] --write     store counts + surviving mutants under "adequacy" in c15_nesting.json;
                                                                      every survivor needs a reviewed reason (REASONS below), else the tool refuses

SECOND MUTANT CLASS (consistent exchange): for every model and every pair of distinct parameters of the same class, the two parameters are
exchanged in ALL their occurrences (= `__param_names__` transposed relative to the body: a caller who builds the vector from the names gets
the two values exchanged).  Such a mutant is invisible to every obligation that treats the two parameters alike (zero / equal rates, the
label symmetry when the slip is itself label-symmetric); it is killed by a nesting against an intact sibling, by a zero-length-epoch nesting
that reads the two parameters in different roles, or by a nesting of the model against itself.  An exchange whose program normalises to the
same program in every affected model is a provable symmetry (not a mutant).  Stored under "adequacy"."exchange".

The committed entry is data reviewed by hand on the unchanged tree; the check never rewrites it.
"""
import sys, os, json, re, collections
sys.path.insert(0, os.path.dirname(os.path.dirname(os.path.dirname(os.path.abspath(__file__)))))
from harness.translate import models_dsl as M
from harness.props import c15_common as K

DATA = os.path.join(os.path.dirname(os.path.dirname(os.path.abspath(__file__))), 'props', 'c15_nesting.json')

# reviewed reasons why a surviving mutant cannot be killed by an EXACT nesting / symmetry of the library (regex on the mutant key)
REASONS = [
    (r'bottlegrowth_2d_sel_single_gamma\|call:bottlegrowth_split_mig_sel\.arg\[6\]',
     'the call passes Ts=0: the split happens at time 0, so gamma2 of bottlegrowth_split_mig_sel (selection in population 2 after the split) has no '
     'effect at all -- the same fact is committed for bottlegrowth_2d_sel under "ineffective_params"; no input distinguishes the mutant'),
    (r'out_of_africa\|2:integrate\.nus\[0\]',
     'out_of_africa is the only three-population library model with a one-population epoch before the first split; an exact nesting that keeps '
     'TAf > 0 and nuAf different from the other sizes would need a sibling with that epoch (the only committed pair, split_symmig_all, needs TAf=0)'),
    (r'out_of_africa\|6:integrate\.nus\[[12]\]',
     'interior of the exponential size functions nuEu0*(nuEu/nuEu0)**(t/TEuAs), nuAs0*(nuAs/nuAs0)**(t/TEuAs): at every exact nesting point either '
     'TEuAs=0 (epoch dropped) or final size = initial size (the power is 1 whatever its base-point / time scale); no other three-population library '
     'model has a growing population to compare with'),
]

# ... of the exchange class (regex on the mutant key  unit|exchange|a<->b)
REASONS_EXCHANGE = [
    (r'out_of_africa\|exchange\|(nuEu0<->nuEu|nuAs0<->nuAs)$',
     'initial and final size of an exponentially growing population, nuEu0*(nuEu/nuEu0)**(t/TEuAs): the exchange reverses the growth. Every exact nesting '
     'point of out_of_africa has TEuAs=0 (epoch dropped) or final size = initial size (where the exchange changes nothing), and no other three-population '
     'library model has a growing population to compare with (the same fact as for the single-occurrence mutants of these size functions); both names are '
     'handed to the same keyword, so the name-semantics table cannot tell them apart either'),
]

def reason_of(key):
    for rx, why in (REASONS_EXCHANGE if '|exchange|' in key else REASONS):
        if re.search(rx, key):
            return why
    return None

def main():
    args = [a for a in sys.argv[1:] if not a.startswith('--')]
    flags = {a for a in sys.argv[1:] if a.startswith('--')}
    repo = args[0] if args else '/repo'
    data = json.load(open(DATA))
    tr = M.Translator(repo)
    progs = {}
    for rel, name in tr.all_models():
        progs['%s:%s' % (rel, name)] = tr.translate(rel, name)
    rows, ob, un = K.adequacy_table(data, progs, first_only='--all' not in flags)
    sm = K.summarize(rows)
    print('source units: %d (%d wrappers of another model); obligations: %d (%d hold on this tree per the mirror)' % (
        len([k for k, r in progs.items() if r['kind'] == 'sfs']), len(un.callee), len(ob.base), sum(1 for v in ob.base.values() if v)))
    bad = [o for o, v in ob.base.items() if not v]
    if bad or ob.errors or un.bad:
        print('NOT HOLDING on this tree:', bad, ob.errors, 'wrapper reconstruction:', un.bad)
    print('adequacy: %(occurrences)d occurrences (%(mutants)d single-occurrence mutants); %(occurrences_killed)d occurrences fully killed, '
          '%(occurrences_partly_killed)d partly; %(mutants_killed)d mutants killed' % sm)
    kinds = collections.Counter()
    for r in rows:
        if r['killed_by']:
            kinds[r['killed_by'][0].split(':')[0]] += 1
    print('first killer by kind (nesting/symmetry are consulted before well-formedness):', dict(kinds))
    if '--all' in flags:
        single = [r for r in rows if len(r['killed_by']) == 1]
        print('mutants killed by exactly one obligation: %d' % len(single))
        c = collections.Counter(r['killed_by'][0] for r in single)
        for o, n in c.most_common(25):
            print('   %4d  %s' % (n, o))
    surv = [r for r in rows if not r['killed_by']]
    print('surviving mutants (holes): %d' % len(surv))
    todo = []
    for r in surv:
        why = reason_of(r['key'])
        print('  %s   [affects %d model(s)]%s' % (r['key'], r['affected'], '' if why else '   <-- NO REVIEWED REASON'))
        if not why:
            todo.append(r['key'])
    xrows, _, _ = K.exchange_table(data, progs, first_only='--all' not in flags, ob=ob, un=un)
    xs = K.summarize_exchange(xrows)
    print('exchange class: %(mutants)d mutants (unordered pairs of same-class parameters of one unit); %(identical)d provable symmetries, %(killed)d killed, '
          '%(surviving)d surviving' % xs)
    kinds = collections.Counter(r['killed_by'][0].split(':')[0] for r in xrows if r['killed_by'])
    print('first killer by kind:', dict(kinds))
    if '--all' in flags:
        single = [r for r in xrows if len(r['killed_by']) == 1]
        print('exchange mutants killed by exactly one obligation: %d' % len(single))
        for r in single:
            print('   %s   only by %s' % (r['key'], r['killed_by'][0]))
    for r in xrows:
        if r['identical']:
            print('  provable symmetry: %s' % r['key'])
    xsurv = [r for r in xrows if not r['identical'] and not r['killed_by']]
    for r in xsurv:
        why = reason_of(r['key'])
        print('  %s   [affects %d model(s)]%s' % (r['key'], r['affected'], '' if why else '   <-- NO REVIEWED REASON'))
        if not why:
            todo.append(r['key'])
    if '--write' in flags:
        if todo or bad or ob.errors or un.bad:
            print('refusing to write: unreviewed survivors / obligations not holding'); sys.exit(1)
        occ_unk = len({(r['model'], r['where']) for r in surv})
        data['adequacy'] = {
            '_comment': 'Mutation adequacy of the obligations above, computed ONCE on the unchanged tree by harness/tools/c15_adequacy.py and reviewed by hand; '
                        'the check recomputes the table on the current translation and fails closed on any surviving single-occurrence mutant that is not '
                        'listed here. Key: unit|position|parameter->replacement.',
            'mutants': sm['mutants'], 'mutants_killed': sm['mutants_killed'], 'occurrences': sm['occurrences'],
            'occurrences_killed': sm['occurrences_killed'], 'occurrences_unkillable': occ_unk,
            'unkillable': {r['key']: reason_of(r['key']) for r in surv},
            'exchange': {
                '_comment': 'Second mutant class: two distinct parameters of the same class (size / time / rate / gamma / proportion) of one model exchanged in '
                            'ALL their occurrences (= __param_names__ transposed relative to the body). Key: unit|exchange|a<->b. "identical": the exchanged '
                            'program normalises to the same program in every affected model (a provable symmetry, not a mutant).',
                'mutants': xs['mutants'], 'identical': xs['identical'], 'killed': xs['killed'], 'unkillable_count': len(xsurv),
                'symmetries': sorted(r['key'] for r in xrows if r['identical']),
                'unkillable': {r['key']: reason_of(r['key']) for r in xsurv}}}
        json.dump(data, open(DATA, 'w'), indent=1)
        print('written: adequacy: %d occurrences, %d killed, %d unkillable (%d mutants listed); exchange class: %d mutants, %d killed, %d unkillable' % (
            sm['occurrences'], sm['occurrences_killed'], occ_unk, len(surv), xs['mutants'], xs['killed'], len(xsurv)))

if __name__ == '__main__':
    main()
