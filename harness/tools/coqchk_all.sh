#!/bin/bash
# Re-checks every compiled Props module (and everything it depends on) with the independent checker coqchk and
# writes the context summary (axioms, type-in-type, unsafe fixpoints, assumed positivity) to coqchk_report.txt.
cd /verif/coq || exit 2
MODS=$(ls theories/Props/C*.v | sed 's#theories/Props/\(.*\)\.v#Dadi.Props.\1#' | tr '\n' ' ')
{ echo "# coqchk -silent -o -Q theories Dadi $MODS"; echo "# $(date -u)"; timeout 14400 coqchk -silent -o -Q theories Dadi $MODS 2>&1 | tail -40; echo "# exit $?"; } > /verif/coqchk_report.txt
