"""One-off tool (NOT run by the check): automatic search for nesting pairs among the library models.

For every model C it tries substitutions made of up to 3 elementary steps (parameter := 0 for times, migration
rates, selection coefficients, admixture proportions; size := 1; two parameters of the same kind equated) and looks
for a model S whose normal form equals the normal form of the substituted C up to a renaming of the parameters.
Output: candidate entries for harness/props/c15_nesting.json, which is then reviewed by hand against the docstrings.
Usage: /venv/bin/python harness/tools/c15_search.py [repo] > candidates.json
"""
import sys, os, json, itertools
sys.path.insert(0, os.path.dirname(os.path.dirname(os.path.dirname(os.path.abspath(__file__)))))
from harness.translate import models_dsl as M, models_dsl_norm as N

def canon(prog):
    """rename variables by first occurrence; returns (key, order) with order[k] = original index of canonical var k"""
    order = []
    def ren(e):
        if e[0] == 'var':
            if e[1] not in order:
                order.append(e[1])
            return ['var', order.index(e[1])]
        if e[0] in ('t', 'const'):
            return e
        return [e[0]] + [ren(x) for x in e[1:]]
    q = N.map_prog(ren, prog)
    return json.dumps(q, sort_keys=True), order

def main():
    repo = sys.argv[1] if len(sys.argv) > 1 else '/repo'
    tr = M.Translator(repo)
    models = {}
    for rel, name in tr.all_models():
        r = tr.translate(rel, name)
        if r['kind'] == 'sfs':
            models[(rel, name)] = r
    # canonical normal forms of all models
    simple = {}
    for key, r in models.items():
        A = M.assum_of(r['param_names'])
        k, order = canon(N.norm(A, r['prog']))
        if len(order) != len(r['param_names']):
            continue       # a parameter disappears from the normal form (does not happen on the unchanged tree)
        simple.setdefault(k, []).append((key, order))
    out = []
    for ckey, c in models.items():
        names = c['param_names']; n = len(names)
        kinds = [M.kind_of(x) for x in names]
        elem = []
        for i in range(n):
            if kinds[i] in ('nonneg', 'free') or names[i] == 'f':
                elem.append(('zero', i))
            if kinds[i] == 'pos':
                elem.append(('one', i))
        for i in range(n):
            for j in range(i + 1, n):
                if kinds[i] == kinds[j] and kinds[i] in ('pos', 'nonneg', 'free') and names[i][0] == names[j][0]:
                    elem.append(('eq', i, j))
        found = {}
        for size in range(0, 4):
            for combo in itertools.combinations(elem, size):
                # consistency: each parameter assigned at most once
                rep = list(range(n)); fixed = {}
                ok = True
                for st in combo:
                    if st[0] in ('zero', 'one'):
                        if st[1] in fixed or rep[st[1]] != st[1]:
                            ok = False; break
                        fixed[st[1]] = 0 if st[0] == 'zero' else 1
                    else:
                        i, j = st[1], st[2]
                        if j in fixed or i in fixed or rep[j] != j:
                            ok = False; break
                        rep[j] = rep[i]
                if not ok:
                    continue
                if any(rep[i] in fixed for i in range(n) if rep[i] != i):
                    continue
                free = [i for i in range(n) if i not in fixed and rep[i] == i]
                sg = []
                for i in range(n):
                    if i in fixed:
                        sg.append(N.C(fixed[i]))
                    else:
                        sg.append(['var', free.index(rep[i])])
                A = M.assum_of([names[i] for i in free])
                q = N.norm(A, N.map_prog(lambda e: N.subst(sg, e), c['prog']))
                k, order = canon(q)
                # free parameters that no longer occur are "don't care": drop them and renumber
                if len(order) != len(free):
                    if any(st[0] == 'eq' and False for st in combo):
                        continue
                    used = sorted(order)
                    dontcare = [free[t] for t in range(len(free)) if t not in order]
                    # re-run with the don't-care parameters set to a neutral constant (1 for sizes, 0 otherwise)
                    free2 = [free[t] for t in used]
                    sg = []
                    for i in range(n):
                        if i in fixed:
                            sg.append(N.C(fixed[i]))
                        elif rep[i] in dontcare:
                            sg.append(N.C(1 if kinds[rep[i]] == 'pos' else 0))
                        else:
                            sg.append(['var', free2.index(rep[i])])
                    A = M.assum_of([names[i] for i in free2])
                    q = N.norm(A, N.map_prog(lambda e: N.subst(sg, e), c['prog']))
                    k, order = canon(q)
                    if len(order) != len(free2):
                        continue
                    free = free2
                else:
                    dontcare = []
                for skey, sorder in simple.get(k, []):
                    if skey == ckey:
                        continue
                    if not combo and list(models).index(skey) > list(models).index(ckey):
                        continue      # equivalent models: one direction only
                    # skip when a proper sub-combination already matched some model (covered by composition)
                    if any(set(prev) < set(combo) for prev in found):
                        continue
                    s = models[skey]
                    # free var index order[k] (in complex 'free' numbering) <-> simple param sorder[k]
                    f2s = {order[t]: sorder[t] for t in range(len(order))}
                    point = {}
                    for i in range(n):
                        if i in fixed:
                            point[names[i]] = str(fixed[i])
                        elif rep[i] in dontcare:
                            point[names[i]] = '1' if kinds[rep[i]] == 'pos' else '0'
                        else:
                            point[names[i]] = s['param_names'][f2s[free.index(rep[i])]]
                    found.setdefault(combo, []).append(skey)
                    out.append({'complex': '%s:%s' % ckey, 'simple': '%s:%s' % skey, 'point': point,
                                'steps': [list(x) for x in combo], 'dontcare': [names[i] for i in dontcare], 'source': 'search'})
    json.dump(out, sys.stdout, indent=1)
    sys.stderr.write('%d candidate pairs\n' % len(out))

main()


def symmetric_search(repo='/repo'):
    """models whose program is invariant under exchanging two population labels together with the parameters
    (names with the digits exchanged, s -> 1-s); printed as candidate entries for the "symmetric" list"""
    import re
    tr = M.Translator(repo)
    out = []
    for rel, name in tr.all_models():
        r = tr.translate(rel, name)
        if r['kind'] != 'sfs':
            continue
        names = r['param_names']
        dims = set()
        def walk(p):
            for i in p:
                if i['op'] == 'if':
                    walk(i['then']); walk(i['else'])
                elif i['op'] == 'integrate':
                    dims.add(len(i['nus']))
                elif i['op'] == 'fromphi':
                    dims.add(i['d'])
        walk(r['prog'])
        d = max(dims) if dims else 0
        trials = []
        if d == 2:
            trials.append(({1: [0], 2: [1, 0]}, ('1', '2')))
        if d == 3:
            trials.append(({1: [0], 2: [0, 1], 3: [0, 2, 1]}, ('2', '3')))
            trials.append(({1: [0], 2: [1, 0], 3: [1, 0, 2]}, ('1', '2')))
        for pm, (a, b) in trials:
            def sw(nm):
                if nm == 's':
                    return '1-s'
                mm = re.fullmatch(r'm([123])', nm)
                if mm and d == 3:      # Portik 3-pop convention: m1 = 1<->2, m2 = 2<->3, m3 = 1<->3
                    pair = {'1': {'1', '2'}, '2': {'2', '3'}, '3': {'1', '3'}}[mm.group(1)]
                    pair = {b if x == a else a if x == b else x for x in pair}
                    return 'm' + {frozenset({'1', '2'}): '1', frozenset({'2', '3'}): '2', frozenset({'1', '3'}): '3'}[frozenset(pair)]
                head = re.match(r'[A-Za-z]+', nm).group(0)
                rest = nm[len(head):]
                if head not in ('nu', 'm', 'gamma'):
                    return nm
                rest = ''.join(b if ch == a else a if ch == b else ch for ch in rest)
                return head + rest
            exch = {nm: sw(nm) for nm in names}
            try:
                sg = []
                for nm in names:
                    e = exch[nm]
                    if e == '1-s':
                        sg.append(['sub', N.C(1), ['var', names.index('s')]])
                    else:
                        sg.append(['var', names.index(e)])
            except ValueError:
                continue
            A = M.assum_of(names)
            try:
                q = N.norm(A, N.relabel(pm, N.map_prog(lambda e: N.subst(sg, e), r['prog'])))
            except (ValueError, KeyError):
                continue
            if N.prog_eq(q, N.norm(A, r['prog'])) and any(k != v for k, v in exch.items()):
                out.append({'model': '%s:%s' % (rel, name), 'perm': {str(k): v for k, v in pm.items()}, 'exchange': exch})
    return out

if __name__ == '__main__' and len(sys.argv) > 2 and sys.argv[2] == 'sym':
    pass
