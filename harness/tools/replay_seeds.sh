#!/bin/bash
# usage: replay_seeds.sh [name ...]   -- re-run the current quick checks against every seeded change under /verif/seeded
# (or the named ones): scratch worktree of /repo, apply patch.diff, rebuild C if needed, DADI_REPO=<worktree> ./check P.
# Prints one line per seed:  name property exit violations with_input ; writes /verif/build/seed_replay.tsv.
# Every scratch worktree and its isolated build directories are removed afterwards.
cd /verif
NAMES="$@"; [ -z "$NAMES" ] && NAMES=$(ls seeded)
export OUT=/verif/build/seed_replay.tsv; : > $OUT
one() {
  n=$1
  P=$(/venv/bin/python -c "import json;print(json.load(open('/verif/seeded/$n/meta.json'))['property'])")
  W=/tmp/rs_$n
  rm -rf $W; bash harness/tools/mk_worktree.sh $W >/dev/null 2>&1 || { echo "$n $P worktree-failed"; return; }
  ( cd $W && git apply /verif/seeded/$n/patch.diff ) || { echo "$n $P patch-does-not-apply"; git -C /repo worktree remove --force $W; return; }
  grep -q '^+++ b/.*\.c$' seeded/$n/patch.diff && ( cd $W && ./rebuild_ext.sh >/dev/null 2>&1 )
  DADI_REPO=$W VERIF_SKIP_MAKE=1 ./check $P --tier quick > /tmp/rs_$n.log 2>&1; rc=$?
  v=$(grep -c '^VIOLATION' /tmp/rs_$n.log); vi=$(grep '^VIOLATION' /tmp/rs_$n.log | grep -vc 'no-failing-input-found')
  echo -e "$n\t$P\t$rc\t$v\t$vi" | tee -a $OUT
  H=$(/venv/bin/python -c "import hashlib;print(hashlib.md5('$W'.encode()).hexdigest()[:8])")
  git -C /repo worktree remove --force $W >/dev/null 2>&1; rm -rf $W /verif/build/*_$H /verif/build/*_$H.lock
}
export -f one
echo $NAMES | tr ' ' '\n' | xargs -P ${SEED_JOBS:-3} -I{} bash -c 'one {}'
git -C /repo worktree prune
sort $OUT -o $OUT
echo "missed (exit 0):"; awk -F'\t' '$3==0' $OUT
echo "caught without failing input:"; awk -F'\t' '$3!=0 && $5==0' $OUT
