#!/venv/bin/python
"""Stand-alone correspondence run for the exporter model of C16 (Model/DemesExportModel.v):

  /venv/bin/python harness/tools/c16_export_check.py [--seed N] [--n 40] [--keep]

For N random native programs (harness/props/c16_gen.gen_program, 1..5 populations) the REAL dadi (rebuilt overlay) is
run with the event log on, the log is exported with the real dadi.Demes.output, and
  (a) the model's  export_model Nref gt log / export_events / final_ids  evaluated in Coq on the rationals is compared
      with the graph `output` returned (as resolved by `demes`) and with the events `demes` reports for it
      (check_export, tolerance 1e-12 relative per number; names = ranks in the graph's deme list);
  (b) the model's  native_calls log  is compared with the calls that were actually made (check_native);
  (c) the conclusion of export_import_same_program / export_import_reorder is evaluated on the REAL exported graph:
      the importer model run on it = sorted_calls log ++ [from_phi] (check_prog).
Exit status 0 iff everything agrees.  It does not touch ./check C16; it shows how to wire the same comparison into
harness/props/c16.py (export_phase) - see harness/props/c16_export.py.
"""
import argparse, inspect, json, os, random, subprocess, sys, tempfile, time, warnings
VERIF = os.path.dirname(os.path.dirname(os.path.dirname(os.path.abspath(__file__))))
sys.path.insert(0, VERIF)
from harness import lib, overlay
from harness.props import c16_export as X
from harness.props import c16_gen as G

warnings.filterwarnings('ignore')


def real_runs(progs):
    sys.path.insert(0, overlay.OVERLAY)
    import numpy as np
    np.seterr(all='ignore')
    import dadi, demes
    from dadi import PhiManip, Integration
    LOG = []; DEPTH = [0]
    GRID = ('xx', 'yy', 'zz', 'aa', 'bb', 'cc')

    def enc(v, T=None):
        if callable(v):
            ts = [0.0] if not T else [T * k / 4 for k in range(5)]
            return {'f': [[float(t), float(v(t))] for t in ts]}
        if isinstance(v, (bool, np.bool_)): return bool(v)
        if isinstance(v, (int, np.integer)): return int(v)
        if isinstance(v, (float, np.floating)): return float(v)
        if isinstance(v, (list, tuple)): return [enc(x) for x in v]
        return None if v is None else (v if isinstance(v, str) else repr(type(v)))

    def wrap(mod, name):
        f = getattr(mod, name); sig = inspect.signature(f)
        def w(*a, **k):
            if DEPTH[0] == 0:
                ba = sig.bind(*a, **k); ba.apply_defaults()
                T = ba.arguments.get('T')
                LOG.append({'fn': name, 'args': {kk: enc(v, T) for kk, v in ba.arguments.items()
                                                if kk not in ('phi', 'phi_1D', 'phi_2D') and kk not in GRID}})
            DEPTH[0] += 1
            try:
                return f(*a, **k)
            finally:
                DEPTH[0] -= 1
        setattr(mod, name, w)
    for n in [n for n in dir(PhiManip) if (n.startswith('phi_') or n in ('remove_pop', 'reorder_pops')) and n != 'phi_2D_to_3D']:
        wrap(PhiManip, n)
    for n in X.INTEG:
        wrap(Integration, n)

    def sizefn(spec, T):
        if spec[0] == 'c': return spec[1]
        v0, v1 = spec[1], spec[2]
        if spec[0] == 'e': return lambda t: v0 * (v1 / v0) ** (t / T)
        return lambda t: v0 + (v1 - v0) * t / T

    def run_native(ops, pts):
        xx = dadi.Numerics.default_grid(pts); phi = None
        for op in ops:
            k = op[0]
            if k == 'phi_1D':
                phi = PhiManip.phi_1D(xx, nu=op[1])
            elif k == 'integrate':
                T, sfs, M = op[1], op[2], op[3]
                d = phi.ndim; nus = [sizefn(s, T) for s in sfs]; kw = {}
                if M is not None:
                    for a in range(d):
                        for b in range(d):
                            if a != b: kw['m%d%d' % (a + 1, b + 1)] = M[a][b]
                if d == 1:
                    phi = Integration.one_pop(phi, xx, T, nu=nus[0])
                else:
                    for a in range(d): kw['nu%d' % (a + 1)] = nus[a]
                    phi = getattr(Integration, X.INTEG[d - 1])(phi, xx, T, **kw)
            elif k == 'split':
                d = phi.ndim; p = op[1]
                if d == 1: phi = PhiManip.phi_1D_to_2D(xx, phi)
                elif d == 2: phi = [PhiManip.phi_2D_to_3D_split_1, PhiManip.phi_2D_to_3D_split_2][p - 1](xx, phi)
                elif d == 3: phi = PhiManip.phi_3D_to_4D(phi, *[1 if i == p - 1 else 0 for i in range(2)], xx, xx, xx, xx)
                else: phi = PhiManip.phi_4D_to_5D(phi, *[1 if i == p - 1 else 0 for i in range(3)], xx, xx, xx, xx, xx)
            elif k == 'admix_new':
                d = phi.ndim; f = op[1]
                if d == 2: phi = PhiManip.phi_2D_to_3D_admix(phi, f[0], xx, xx, xx)
                elif d == 3: phi = PhiManip.phi_3D_to_4D(phi, f[0], f[1], xx, xx, xx, xx)
                else: phi = PhiManip.phi_4D_to_5D(phi, f[0], f[1], f[2], xx, xx, xx, xx, xx)
            elif k == 'pulse':
                d = phi.ndim
                phi = getattr(PhiManip, X.PULSES[d][op[1] - 1])(phi, *op[2], *([xx] * d))
            elif k == 'remove':
                phi = PhiManip.remove_pop(phi, xx, op[1])
            elif k == 'reorder':
                phi = PhiManip.reorder_pops(phi, list(op[1]))
        return phi

    def gdict(g):
        return {'time_units': g.time_units, 'generation_time': g.generation_time,
                'demes': [{'name': d.name, 'start_time': float(d.start_time), 'ancestors': list(d.ancestors),
                           'epochs': [{'start_time': float(e.start_time), 'end_time': float(e.end_time), 'start_size': float(e.start_size),
                                       'end_size': float(e.end_size), 'size_function': e.size_function} for e in d.epochs]} for d in g.demes],
                'migrations': [{'source': m.source, 'dest': m.dest, 'start_time': float(m.start_time), 'end_time': float(m.end_time),
                                'rate': float(m.rate)} for m in g.migrations],
                'pulses': [{'sources': list(p.sources), 'dest': p.dest, 'time': float(p.time), 'proportions': [float(x) for x in p.proportions]}
                           for p in g.pulses]}

    def evdict(ev):
        return {'pulses': [{'sources': list(p.sources), 'dest': p.dest, 'time': float(p.time), 'proportions': [float(x) for x in p.proportions]} for p in ev['pulses']],
                'branches': [{'parent': b.parent, 'child': b.child, 'time': float(b.time)} for b in ev['branches']],
                'mergers': [{'parents': list(m.parents), 'proportions': [float(x) for x in m.proportions], 'child': m.child, 'time': float(m.time)} for m in ev['mergers']],
                'admixtures': [{'parents': list(m.parents), 'proportions': [float(x) for x in m.proportions], 'child': m.child, 'time': float(m.time)} for m in ev['admixtures']],
                'splits': [{'parent': s.parent, 'children': list(s.children), 'time': float(s.time)} for s in ev['splits']]}

    out = []
    for p in progs:
        rec = {'id': p['id']}
        try:
            del LOG[:]
            run_native(p['ops'], p['pts'])
            rec['calls0'] = list(LOG)
            g = dadi.Demes.output(Nref=p['Nref'], generation_time=p['gen_time'])
            rec['cache_full'] = X.cache_dump(dadi.Demes.cache)
            rec['graph'] = gdict(g)
            gg = g if g.time_units == 'generations' else g.in_generations()
            rec['events1'] = evdict(gg.discrete_demographic_events())
            rec['final_ids'] = list(dadi.Demes.cache[-1].deme_ids)
        except Exception as e:
            rec['error'] = '%s: %s' % (type(e).__name__, str(e)[:200])
        out.append(rec)
    return out


def main():
    ap = argparse.ArgumentParser()
    ap.add_argument('--seed', type=int, default=0)
    ap.add_argument('--n', type=int, default=40)
    ap.add_argument('--keep', action='store_true')
    a = ap.parse_args()
    rng = random.Random('C16-export-model-%d' % a.seed)
    import fcntl
    os.makedirs(lib.BUILD, exist_ok=True)
    with open(overlay.OVERLAY + '.lock', 'w') as lk:
        fcntl.flock(lk, fcntl.LOCK_EX)
        overlay.build()
    progs = []
    dist = [1, 2, 2, 3, 3, 3, 4, 5]
    for i in range(a.n):
        maxd = dist[i % len(dist)]
        ops, d = G.gen_program(rng, maxd)
        progs.append({'id': i, 'ops': ops, 'pts': {1: 10, 2: 8, 3: 6, 4: 5, 5: 4}[maxd], 'ns': [1] * d,
                      'Nref': rng.choice([8.0, 16.0, 100.0, 1000.0]), 'gen_time': rng.choice([None, None, 25.0])})
    # forced: consecutive integrations with 2..5 populations (Demes.output starts a new era: every deme renamed), also
    # right after a reorder / a removal
    sf = lambda d, k: [['c', 1.0 + 0.5 * i + 0.25 * k] if (i + k) % 3 else ['l', 1.0 + 0.5 * i, 2.0 + 0.25 * k] for i in range(d)]
    for d in (2, 3, 4, 5):
        ops = [['phi_1D', 1.0], ['integrate', 0.125, sf(1, 0), None, None]]
        for k in range(1, d):
            ops += [['split', 1 + (k % max(1, k))], ['integrate', 0.0625, sf(k + 1, k), None, None]]
        M = [[0.0 if a == b else (0.5 if (a + 2 * b) % 3 == 0 else 0.0) for b in range(d)] for a in range(d)]
        ops += [['integrate', 0.125, sf(d, 1), M, None], ['integrate', 0.0625, sf(d, 2), None, None]]
        ops += [['reorder', list(range(d, 0, -1))], ['integrate', 0.0625, sf(d, 3), M, None], ['integrate', 0.03125, sf(d, 4), None, None]]
        ops += [['remove', 1], ['integrate', 0.0625, sf(d - 1, 5), None, None], ['integrate', 0.03125, sf(d - 1, 6), None, None]]
        progs.append({'id': len(progs), 'ops': ops, 'pts': {2: 8, 3: 6, 4: 5, 5: 4}[d], 'ns': [1] * (d - 1), 'Nref': 16.0, 'gen_time': 25.0})
        ops2 = [o for o in ops if o[0] != 'reorder']
        progs.append({'id': len(progs), 'ops': ops2, 'pts': {2: 8, 3: 6, 4: 5, 5: 4}[d], 'ns': [1] * (d - 1), 'Nref': 100.0, 'gen_time': None})
    t0 = time.time()
    res = real_runs(progs)
    print('real runs: %d programs, %.1fs' % (len(res), time.time() - t0))
    TOL = X.q(X.Fraction(1, 10 ** 12))
    ex_cases, nat_cases, rt_cases = [], [], []
    counts = {}
    bad = 0
    for p, r in zip(progs, res):
        if 'error' in r:
            print('program %d: the real run raised %s  ops=%s' % (p['id'], r['error'], json.dumps(p['ops'])[:200])); bad += 1
            continue
        try:
            nu, rounds = X.rounds_of(r['cache_full'])
        except X.NotInClass as e:
            counts['not-in-shape: %s' % e] = counts.get('not-in-shape: %s' % e, 0) + 1
            continue
        st = X.log_stage(rounds)
        counts['stage %d' % st] = counts.get('stage %d' % st, 0) + 1
        ex_cases.append((p['id'], X.export_case_coq(nu, rounds, p['Nref'], p['gen_time'], r['graph'], r['events1'], r['final_ids'])))
        nat_cases.append((p['id'], X.native_case_coq(nu, rounds, r['calls0'])))
        ids = {d['name']: i for i, d in enumerate(r['graph']['demes'])}
        fin = X.natl([ids[x] for x in r['final_ids']])
        gt = 'None' if p['gen_time'] is None else '(Some %s)' % X.q(p['gen_time'])
        lg = X.elog_coq(nu, rounds)
        rt_cases.append((p['id'], '(front std_wirings true %s %s %s None [] [] %s (Some %s) %s, '
                         'map (fun c => mkL (c_fn c) (c_T c) (map (fun s => (sf_is_fun s, [(0, sf_eval s 0); (c_T c, sf_eval s (c_T c))])) (c_nus c)) '
                         '(c_fs c) (c_fr c) (c_ns c) (c_ids c)) '
                         '(sorted_calls %s ++ [simple_call F_from_phi [] %s (final_ids %s)]))'
                         % (gt, X.graph_coq(r['graph'], ids), fin, X.events_coq(r['events1'], ids), X.q(p['Nref']), X.natl(p['ns']),
                            lg, X.natl(p['ns']), lg)))
    print('classes:', json.dumps(counts, sort_keys=True))
    tmp = tempfile.mkdtemp(prefix='c16x_')
    ok_all = bad == 0
    for tag, cases, fn in (('export', ex_cases, '(check_export %s)' % TOL), ('native', nat_cases, '(check_native %s)' % TOL),
                           ('roundtrip', rt_cases, '(check_prog %s)' % TOL)):
        body = [X.HEADER, '']
        for cid, ex in cases:
            body.append('Definition case_%d := %s.' % (cid, ex))
        body.append('Definition results := map (fun p => (fst p, %s (snd p))) [%s].' % (fn, '; '.join('(%d%%Z, case_%d)' % (cid, cid) for cid, _ in cases)))
        body.append('Eval vm_compute in results.')
        path = os.path.join(tmp, 'C16x_%s.v' % tag)
        open(path, 'w').write('\n'.join(body) + '\n')
        t0 = time.time()
        pr = subprocess.run(['coqc'] + lib.COQ_FLAGS + [path], capture_output=True, text=True, timeout=1500)
        if pr.returncode != 0:
            print('%s: coqc failed: %s' % (tag, pr.stderr[-800:])); ok_all = False
            continue
        rs = lib.parse_results(pr.stdout)
        nok = sum(1 for _, ok, _ in rs if ok)
        worst = max([e for _, ok, e in rs if ok] or [-1074])
        print('%s: %d cases, %d agree (largest relative error 2^%d), %.1fs' % (tag, len(rs), nok, worst, time.time() - t0))
        for cid, ok, e in rs:
            if not ok:
                ok_all = False
                print('  %s case %d differs (code %d): ops=%s' % (tag, cid, e, json.dumps(progs[cid]['ops'])[:300]))
        if len(rs) != len(cases):
            ok_all = False; print('  %s: %d results for %d cases' % (tag, len(rs), len(cases)))
    if not a.keep:
        import shutil; shutil.rmtree(tmp, ignore_errors=True)
    else:
        print('case files kept in', tmp)
    print('OK' if ok_all else 'MISMATCH')
    sys.exit(0 if ok_all else 1)


if __name__ == '__main__':
    main()
