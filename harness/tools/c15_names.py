"""Offline tool (NOT run by the check): builds the NAME-SEMANTICS table of C15 from the translation of <repo> (default /repo, the
unchanged tree):

    {model: {declared parameter name: [ 'position:function.keyword', ... ]}}

= for every function carrying __param_names__, the keyword of the library call (Integration.one_pop/two_pops/three_pops,
PhiManip.phi_1D / pulses / phi_2D_to_3D_admix, Spectrum.from_phi_inbreeding, the value slots of an ms command) every declared
parameter is handed to, directly or inside a size/rate function; position = index of the instruction in the translated program.

    /venv/bin/python harness/tools/c15_names.py [repo]            print the table's deviations from dadi's naming conventions
                                                                  (mIJ -> keyword mIJ, nuK / nuKa / nuKb -> nuK, gammaK -> gammaK, hK -> hK;
                                                                  local name bound by the unpacking = declared name)
    /venv/bin/python harness/tools/c15_names.py [repo] --write    store the table in harness/props/c15_names.json; every deviation needs a
                                                                  reviewed reason (REASONS below), else the tool refuses

The check (harness/props/c15.py, name_semantics) compares the table of the CURRENT translation with the committed one on every run
and applies the conventions themselves to functions the table does not know.
"""
import sys, os, json, re
sys.path.insert(0, os.path.dirname(os.path.dirname(os.path.dirname(os.path.abspath(__file__)))))
from harness.translate import models_dsl as M
from harness.props import c15_common as K

OUT = os.path.join(os.path.dirname(os.path.dirname(os.path.abspath(__file__))), 'props', 'c15_names.json')

# reviewed reasons for the entries that deviate from the conventions (regex on 'model|parameter|use')
REASONS = [
    (r'_mscore\|(nu\d|m\d\d)\|\d+:ms\.value\[\d+\]$',
     'the *_mscore helpers build an ms command string: the values fill format slots of the command, there is no keyword; the order of the slots is '
     'pinned by this table'),
    (r'DemogSelModels\.py:\w+_sel\|gamma1\|[\w./]*:(phi_1D|one_pop)\.gamma$',
     'DFE models: the ancestral population (equilibrium density phi_1D and the one-population epochs before the split) evolves under the selection '
     'coefficient of population 1 (documented: "gamma1: Scaled selection coefficient in pop 1 and ancestral pop")'),
]

def reason_of(key):
    for rx, why in REASONS:
        if re.search(rx, key):
            return why
    return None

def main():
    args = [a for a in sys.argv[1:] if not a.startswith('--')]
    flags = {a for a in sys.argv[1:] if a.startswith('--')}
    repo = args[0] if args else '/repo'
    tr = M.Translator(repo)
    table, unpack_exc, conv_exc, todo = {}, {}, {}, []
    nconv = nparams = 0
    for rel, name in tr.all_models():
        key = '%s:%s' % (rel, name)
        r = tr.translate(rel, name)
        t = K.name_table(r)
        table[key] = t
        nparams += len(t)
        nconv += sum(1 for n in t if K.conventional_keywords(n) is not None)
        um = K.unpack_mismatch(r)
        if um:
            unpack_exc[key] = [list(x) for x in um]
            print('UNPACK  %s: local names differ from the declared ones at %s   <-- NO REVIEWED REASON' % (key, um))
            todo.append(key)
        for nme, bad in K.convention_breaches(r, t):
            if not t[nme]:
                print('UNUSED  %s|%s: conventionally named parameter handed to nothing   <-- NO REVIEWED REASON' % (key, nme)); todo.append(key)
            for u in bad:
                k2 = '%s|%s|%s' % (key, nme, u)
                why = reason_of(k2)
                print('DEVIATION  %s%s' % (k2, '' if why else '   <-- NO REVIEWED REASON'))
                if why:
                    conv_exc.setdefault(key, {}).setdefault(nme, []).append(u)
                else:
                    todo.append(k2)
    print('%d functions, %d declared parameters, %d of them conventionally named (mIJ / nuK* / gammaK / hK); %d deviating uses in %d functions' % (
        len(table), nparams, nconv, sum(len(u) for m in conv_exc.values() for u in m.values()), len(conv_exc)))
    other = sorted({n for t in table.values() for n in t if K.conventional_keywords(n) is None})
    print('names without a convention (pinned by the table only): %s' % ', '.join(other))
    if '--write' in flags:
        if todo:
            print('refusing to write: unreviewed deviations'); sys.exit(1)
        data = {'_comment': 'C15 name semantics, computed ONCE on the unchanged tree by harness/tools/c15_names.py and reviewed by hand (the deviations from the '
                            'naming conventions are listed under "convention_exceptions" with the reason); the check recomputes the table on the current '
                            'translation on every run and fails closed on any difference. "table": function -> declared parameter -> uses '
                            '"position:function.keyword" (position = index of the instruction in the translated program; keyword of the library call the value '
                            'is handed to, directly or inside a size/rate function). Conventions: mIJ -> keyword mIJ; nuK, nuKa, nuKb -> nuK; gammaK -> gammaK; '
                            'hK -> hK; the local name bound by the parameter unpacking is the declared name.',
                'reasons': [{'pattern': rx, 'reason': why} for rx, why in REASONS],
                'convention_exceptions': conv_exc, 'unpack_exceptions': unpack_exc, 'table': table}
        json.dump(data, open(OUT, 'w'), indent=1, sort_keys=False)
        print('written %s' % OUT)

if __name__ == '__main__':
    main()
