"""Shared machinery of the checks: context, Coq I/O, verdict protocol, evidence.

Every check is  harness/props/cXX.py  exposing  run(ctx).  The CLI is /verif/check.
"""
import fcntl, glob, hashlib, json, os, random, re, subprocess, sys, time, traceback
from concurrent.futures import ThreadPoolExecutor
from fractions import Fraction

HARNESS = os.path.dirname(os.path.abspath(__file__))
VERIF = os.path.dirname(HARNESS)
BUILD = os.path.join(VERIF, 'build')
COQDIR = os.path.join(VERIF, 'coq')
THEORIES = os.path.join(COQDIR, 'theories')
PY = '/venv/bin/python'
REPO = os.environ.get('DADI_REPO', '/repo')
# registered checks use /repo; a scratch copy of the repository (DADI_REPO=/tmp/...) gets its own
# case/evidence/replay directories under build/ so that it never disturbs the real ones
_SFX = '' if REPO == '/repo' else '_' + hashlib.md5(REPO.encode()).hexdigest()[:8]
_CASES_ROOT = os.path.join(BUILD, 'cases' + _SFX)
CASES = _CASES_ROOT
EVIDENCE = os.path.join(VERIF, 'evidence') if not _SFX else os.path.join(BUILD, 'evidence' + _SFX)
REPLAYS = os.path.join(VERIF, 'replays') if not _SFX else os.path.join(BUILD, 'replays' + _SFX)
COQ_FLAGS = ['-Q', THEORIES, 'Dadi', '-w', '-notation-overridden,-deprecated-hint-without-locality,-deprecated-instance-without-locality']

FORBIDDEN = re.compile(r'\b(Admitted|admit|Axiom|Axioms|Parameter|Parameters|Conjecture|Admit Obligations|Unset Guard Checking|bypass_check|Unset Positivity Checking|Unset Universe Checking|type-in-type)\b')

# ----------------------------------------------------------------------------------------------
# exact number literals

def frac(x):
    if isinstance(x, Fraction):
        return x
    if isinstance(x, bool):
        return Fraction(int(x))
    if isinstance(x, int):
        return Fraction(x)
    try:
        import numpy as np
        if isinstance(x, np.integer):
            return Fraction(int(x))
        if isinstance(x, np.floating):
            x = float(x)
    except ImportError:
        pass
    if isinstance(x, float):
        if x != x or x in (float('inf'), float('-inf')):
            raise ValueError('non-finite value cannot be sent to the exact model: %r' % x)
        return Fraction(x)
    raise TypeError('frac: %r' % (x,))

def q(x):
    f = frac(x)
    if f.numerator < 0:
        return '((%d) # %d)' % (f.numerator, f.denominator)
    return '(%d # %d)' % (f.numerator, f.denominator)

def zz(x):
    """a float64 as an exact (mantissa, binary exponent) pair of Z literals (hex mantissa: cheap to parse)"""
    import math
    x = float(x)
    if x != x or x in (float('inf'), float('-inf')):
        raise ValueError('non-finite value cannot be sent to the exact model: %r' % x)
    if x == 0:
        return '(0%Z, 0%Z)'
    m, e = math.frexp(x)
    mi = int(m * (1 << 53)); e -= 53
    while mi % 2 == 0:
        mi //= 2; e += 1
    return '((%s0x%x)%%Z, (%d)%%Z)' % ('-' if mi < 0 else '', abs(mi), e)

def zzl(xs):
    return '[' + '; '.join(zz(x) for x in xs) + ']'

def ql(xs):
    return '[' + '; '.join(q(x) for x in xs) + ']'

def qll(xss):
    return '[' + '; '.join(ql(xs) for xs in xss) + ']'

def zl(xs):
    return '[' + '; '.join('(%d)%%Z' % int(x) for x in xs) + ']'

def natl(xs):
    return '[' + '; '.join('%d%%nat' % int(x) for x in xs) + ']'

def bl(xs):
    return '[' + '; '.join('true' if x else 'false' for x in xs) + ']'

def b(x):
    return 'true' if x else 'false'

def dyadic(rng, lo, hi, bits=10):
    """random dyadic rational in [lo,hi] with <= bits fractional bits, as float (exact)."""
    n = 1 << bits
    a = int(lo * n); bb = int(hi * n)
    return rng.randint(a, bb) / n

# ----------------------------------------------------------------------------------------------
# running Coq

class CoqError(Exception):
    pass

def coqc(path, timeout=600):
    t = time.time()
    try:
        r = subprocess.run(['timeout', str(int(timeout)), 'coqc'] + COQ_FLAGS + [path],
                           capture_output=True, text=True, cwd=os.path.dirname(path))
    except Exception as e:  # pragma: no cover
        return 99, '', str(e), time.time() - t
    return r.returncode, r.stdout, r.stderr, time.time() - t

def write_v(name, text):
    os.makedirs(CASES, exist_ok=True)
    p = os.path.join(CASES, name + '.v')
    with open(p, 'w') as f:
        f.write(text)
    return p

_TRIPLE = re.compile(r'\(?(-?\d+)\)?,\(?(true|false)\)?,\(?(-?\d+)\)?')

def parse_results(out):
    """Parse the value printed by  Eval vm_compute in (list (Z*bool*Z)).
    Returns list of (id, ok, err_log2)."""
    s = re.sub(r'\s+', '', out).replace('%Z', '').replace('%nat', '')
    res = []
    for m in _TRIPLE.finditer(s):
        res.append((int(m.group(1)), m.group(2) == 'true', int(m.group(3))))
    return res

def run_case_files(files, timeout=600, jobs=16):
    """files: list of (name, text). Runs coqc in parallel. Returns dict name -> (rc,out,err,secs)."""
    paths = [(n, write_v(n, t)) for n, t in files]
    out = {}
    with ThreadPoolExecutor(max_workers=jobs) as ex:
        futs = {n: ex.submit(coqc, p, timeout) for n, p in paths}
        for n, f in futs.items():
            out[n] = f.result()
    return out

# ----------------------------------------------------------------------------------------------

class Ctx:
    def __init__(self, prop, tier, seed, replay=None):
        # one private directory of generated Coq files per run, so that concurrent runs never share file names
        global CASES
        CASES = os.path.join(_CASES_ROOT, '%s_%s_%d_%d' % (prop, tier, seed, os.getpid()))
        self.prop = prop
        self.tier = tier
        self.seed = seed
        self.rng = random.Random('%s-%d' % (prop, seed))
        self.t0 = time.time()
        self.replay = replay
        self.obligations = []      # dicts: name, kind, ok, detail
        self.samples = []
        self.stats = {}
        self.violations = []       # dicts: what, key, data, no_input
        self.known_hit = []        # (key, what)
        self.evaluations = 0
        self.nontrivial = set()
        self.max_err = {}          # kind -> (log2 err, tolerance text)
        self.trusted = []
        self.assumptions = []
        self.checker_cmds = []
        self.notes = []
        self.level = 'proof'
        self.rule = ''
        self.overlay = None

    @property
    def quick(self):
        return self.tier == 'quick'

    def pick(self, quick, thorough):
        return quick if self.quick else thorough

    # -- bookkeeping -------------------------------------------------------------------------
    def obligation(self, name, ok, kind='correspondence', detail=''):
        self.obligations.append({'name': name, 'kind': kind, 'ok': bool(ok), 'detail': detail})
        return ok

    def count(self, key, n=1):
        self.stats[key] = self.stats.get(key, 0) + n

    def case(self, signature=None, sample=None):
        """register one evaluated case; signature (hashable/str) identifies distinct non-trivial cases"""
        self.evaluations += 1
        if signature is not None:
            self.nontrivial.add(hashlib.md5(repr(signature).encode()).hexdigest())
        if sample is not None and len(self.samples) < 6:
            self.samples.append(sample)

    def err(self, kind, log2err, tol):
        cur = self.max_err.get(kind)
        if cur is None or log2err > cur[0]:
            self.max_err[kind] = (log2err, tol)

    def violation(self, what, data=None, key=None, no_input=False, broken=None):
        """what: one-line description; key: canonical id matched against known_findings.json;
        no_input: no failing input was found, `broken` names the theorem/obligation/correspondence."""
        self.violations.append({'what': what, 'key': key, 'data': data, 'no_input': no_input, 'broken': broken})

    # -- static Coq development --------------------------------------------------------------
    def ensure_coq_built(self):
        """make the static theories (no-op when up to date) and grep for forbidden vernacular."""
        bad = []
        for p in glob.glob(os.path.join(THEORIES, '**', '*.v'), recursive=True):
            txt = open(p).read()
            txt_nc = re.sub(r'\(\*.*?\*\)', '', txt, flags=re.S)
            for m in FORBIDDEN.finditer(txt_nc):
                bad.append('%s: %s' % (os.path.relpath(p, VERIF), m.group(0)))
        self.obligation('no Admitted/Axiom/Parameter/guard-off in coq/theories', not bad, 'hygiene', '; '.join(bad[:5]))
        os.makedirs(BUILD, exist_ok=True)
        if os.environ.get('VERIF_SKIP_MAKE') == '1':      # development only: never set by the registered commands
            self.notes.append('VERIF_SKIP_MAKE=1: static make skipped (development run)')
            return True
        with open(os.path.join(BUILD, '.coq.lock'), 'w') as lk:
            fcntl.flock(lk, fcntl.LOCK_EX)
            if not os.path.exists(os.path.join(COQDIR, 'Makefile')):
                subprocess.run(['coq_makefile', '-f', '_CoqProject', '-o', 'Makefile'], cwd=COQDIR, capture_output=True)
            r = subprocess.run(['timeout', '3000', 'make', '-j16'], cwd=COQDIR, capture_output=True, text=True)
        self.checker_cmds.append('cd coq && coq_makefile -f _CoqProject -o Makefile && make -j16')
        ok = r.returncode == 0
        self.obligation('static Coq development builds (make)', ok, 'build', (r.stdout + r.stderr)[-600:] if not ok else '')
        return ok

    def check_props_file(self, relpath=None):
        """Re-compile Props/Cxx.v (only `exact lemma` + Print Assumptions) and harvest theorem names/axioms."""
        rel = relpath or os.path.join('Props', self.prop + '.v')
        p = os.path.join(THEORIES, rel)
        if not os.path.exists(p):
            self.obligation('Props file %s exists' % rel, False, 'theorem')
            return []
        txt = open(p).read()
        names = re.findall(r'^\s*(?:Theorem|Example|Corollary)\s+([A-Za-z0-9_\']+)', txt, flags=re.M)
        rc, out, err, secs = coqc(p, timeout=900)
        self.checker_cmds.append('coqc -Q coq/theories Dadi coq/theories/%s' % rel)
        if rc != 0:
            for n in names:
                self.obligation('theorem ' + n, False, 'theorem', err[-400:])
            self.violation('static theorems of %s no longer check' % rel, data={'stderr': err[-2000:]},
                           no_input=True, broken='coq/theories/' + rel)
            return names
        for n in names:
            self.obligation('theorem ' + n, True, 'theorem')
        # axioms
        axioms = set()
        for blk in re.split(r'(?m)^(?=Axioms:|Closed under the global context)', out):
            if blk.startswith('Axioms:'):
                for m in re.finditer(r'(?m)^([A-Za-z_][A-Za-z0-9_\.\']*)\s*(?::|$)', blk[len('Axioms:'):]):
                    axioms.add(m.group(1))
        self.trusted.append('Print Assumptions over %s: %s' % (rel, ', '.join(sorted(axioms)) if axioms else 'Closed under the global context'))
        self.stats['static_theorems'] = len(names)
        return names

    # -- correspondence through Coq -------------------------------------------------------
    def coq_cases(self, tag, header, case_exprs, check_fn, tol_text, shard=200, timeout=900, kind=None, record_err=True):
        """case_exprs: list of (id:int, coq_expr_text) ; check_fn: Coq function  case -> (bool * Z).
        Emits shards, runs them, returns dict id -> (ok, log2err) ; missing ids = evaluation failure."""
        files = []
        for k in range(0, len(case_exprs), shard):
            chunk = case_exprs[k:k + shard]
            body = [header, '']
            for cid, ex in chunk:
                body.append('Definition case_%d := %s.' % (cid, ex))
            body.append('Definition results := map (fun p => (fst p, %s (snd p))) [%s].' % (
                check_fn, '; '.join('(%d%%Z, case_%d)' % (cid, cid) for cid, _ in chunk)))
            body.append('Eval vm_compute in results.')
            files.append(('%s_%s_%d' % (self.prop, tag, k // shard), '\n'.join(body) + '\n'))
        res = run_case_files(files, timeout=timeout)
        out = {}
        for n, (rc, so, se, secs) in res.items():
            if rc != 0:
                self.obligation('coqc %s' % n, False, 'correspondence', se[-600:])
                continue
            for cid, ok, e in parse_results(so):
                out[cid] = (ok, e)
                if record_err:
                    self.err(kind or tag, e, tol_text)
        self.checker_cmds.append('coqc -Q coq/theories Dadi build/cases/%s_%s_*.v  (%d cases, vm_compute)' % (self.prop, tag, len(case_exprs)))
        return out

# ----------------------------------------------------------------------------------------------
# known findings / verdict / evidence

def load_known(prop):
    p = os.path.join(VERIF, 'known_findings.json')
    if not os.path.exists(p):
        return [], []
    d = json.load(open(p))
    known = [f for f in d.get('findings', []) if f['property'] == prop]
    fixed = [f for f in d.get('fixed', []) if f['property'] == prop]
    return known, fixed

def finish(ctx):
    known, fixed = load_known(ctx.prop)
    known_keys = {f['key']: f for f in known}
    real = []
    printed = set()
    for v in ctx.violations:
        if v['key'] is not None and v['key'] in known_keys and not v['no_input']:
            if v['key'] not in printed:
                print('KNOWN-FINDING: property=%s %s' % (ctx.prop, known_keys[v['key']]['what']))
                printed.add(v['key'])
        else:
            real.append(v)
    # failed obligations without a violation attached -> violation without failing input
    failed = [o for o in ctx.obligations if not o['ok']]
    if failed and not real:
        # are all failed obligations explained by known findings?  Only obligations tagged with a known key are.
        unexplained = [o for o in failed if o.get('known_key') not in printed]
        if unexplained:
            real.append({'what': 'obligation(s) no longer check: ' + '; '.join(o['name'] for o in unexplained[:5]),
                         'key': None, 'data': {'obligations': unexplained[:20]}, 'no_input': True,
                         'broken': unexplained[0]['name']})
    os.makedirs(REPLAYS, exist_ok=True)
    rc = 0
    for i, v in enumerate(real):
        rp = os.path.join(REPLAYS, '%s_%s_seed%d_%d.json' % (ctx.prop, ctx.tier, ctx.seed, i))
        with open(rp, 'w') as f:
            json.dump({'property': ctx.prop, 'tier': ctx.tier, 'seed': ctx.seed, 'what': v['what'],
                       'key': v['key'], 'no_failing_input_found': bool(v['no_input']),
                       'broken': v.get('broken'), 'input': v['data']}, f, indent=1, default=str)
        print('VIOLATION property=%s replay=%s%s' % (ctx.prop, rp, ' no-failing-input-found' if v['no_input'] else ''))
        print('  ' + v['what'][:300])
        rc = 1
        if i >= 9:
            break
    write_evidence(ctx, len(real), sorted(printed))
    if rc == 0 and CASES != _CASES_ROOT and os.environ.get('VERIF_KEEP_CASES') != '1':
        import shutil
        shutil.rmtree(CASES, ignore_errors=True)
    return rc

def write_evidence(ctx, nviol, known_printed):
    os.makedirs(EVIDENCE, exist_ok=True)
    # obligations that fail exactly because of a listed known finding are reported separately: they are neither
    # discharged nor counted as obligations of the claim (the finding itself is the statement about them)
    kf = [o for o in ctx.obligations if not o['ok'] and o.get('known_key') in known_printed]
    counted = [o for o in ctx.obligations if o not in kf]
    ctx.n_known_finding_obligations = len(kf)
    nob = len(counted)
    ndis = sum(1 for o in counted if o['ok'])
    kinds = {}
    for o in ctx.obligations:
        k = kinds.setdefault(o['kind'], [0, 0])
        k[0] += 1; k[1] += 1 if o['ok'] else 0
    cov = {
        'obligations': nob, 'discharged': ndis,
        'obligations_by_kind': {k: {'total': v[0], 'discharged': v[1]} for k, v in kinds.items()},
        'checker_cmd': ' && '.join(dict.fromkeys(ctx.checker_cmds)) or 'coqc',
        'trusted_base': BASE_TRUSTED + ctx.trusted,
        'evaluations': ctx.evaluations,
        'distinct_nontrivial': len(ctx.nontrivial),
        'rule': ctx.rule,
        'samples': ctx.samples,
        'input_distribution': ctx.stats,
        'max_observed_error_log2_vs_tolerance': {k: {'log2_rel_err': v[0], 'tolerance': v[1]} for k, v in ctx.max_err.items()},
        'failed_obligations': [o for o in counted if not o['ok']][:20],
        'obligations_failing_only_because_of_listed_known_findings': len(kf),
        'known_findings_printed': known_printed,
        'notes': ctx.notes,
    }
    ev = {'property_id': ctx.prop, 'tier': ctx.tier, 'seed': ctx.seed, 'level': ctx.level,
          'coverage': cov, 'assumptions': ctx.assumptions, 'wall_s': round(time.time() - ctx.t0, 2),
          'violations': nviol}
    with open(os.path.join(EVIDENCE, ctx.prop + '.json'), 'w') as f:
        json.dump(ev, f, indent=1, default=str)

BASE_TRUSTED = [
    'Coq 8.16.1 kernel and vm_compute (no native_compute); coqchk in the thorough tier of C07',
    'parametricity of the Num-polymorphic model: theorems are on the R instance, execution on the Q instance of the same term',
    'where the model is executed on NumD / NumDF (128-bit software floating point) or NumQfast: the per-operation contract is PROVED in Props/Base.v (every + - * / faithful within 2^-127, float64 inputs exact, comparisons exact, verdict function sound, exp/ln slots with explicit bounds against the real functions); it depends on the Uint63 / PrimInt63 axioms and primitives of the standard library (Bignums)',
    'the correspondence harness (input generators, exact float<->Q conversion, tolerance table) and the overlay rebuild (gcc on the Cython-generated C + current kernel sources)',
    'CPython/numpy/scipy/nlopt/demes as the platform',
]

# ----------------------------------------------------------------------------------------------
# running the implementation in a subprocess (fresh interpreter, overlay on PYTHONPATH)

def run_impl(script, payload, timeout=600, env_extra=None, args=()):
    """Run harness/impl/<script> with JSON payload on stdin; returns parsed JSON from stdout (last line)."""
    from harness import overlay
    p = os.path.join(HARNESS, 'impl', script)
    r = subprocess.run([PY, p] + list(args), input=json.dumps(payload), capture_output=True, text=True,
                       timeout=timeout, env=overlay.env(env_extra), cwd=BUILD)
    if r.returncode != 0:
        raise RuntimeError('impl driver %s failed (rc=%d):\n%s' % (script, r.returncode, r.stderr[-3000:]))
    lines = [l for l in r.stdout.splitlines() if l.startswith('{') or l.startswith('[')]
    return json.loads(lines[-1])
