"""Runs the real integration code on generated cases.
kinds: 'kernel' (C kernels through ctypes, unequal dims allowed), 'wrap' (int_c Cython wrappers, cubic),
       'precalc' (C precalc kernels via ctypes), 'tridiag', 'driver' (one_pop..five_pops).

The cases of one payload are executed IN THE ORDER GIVEN inside this one process (the order is part of the case
description: a kernel or driver that keeps any state between calls - static buffers, coefficients cached by size, by
pointer, by parameter value - answers a later case of the sequence differently from a fresh process).  One JSON line is
written (and flushed) per finished case, so that a crash of the interpreter inside a call identifies the call.

Optional case keys:
  'reuse': True     the argument arrays (phi, grids, a/b/c, r) live in buffers that persist between the calls of this
                    process (one per role and shape): consecutive calls on the same shape hand the SAME pointers with
                    different contents to the kernel
  'layout': {'phi': 'F' | 'T' | 'neg' | 'step', 'grid': 'neg' | 'step'}   (drivers) memory layout of the arguments: the
                    logical content is that of the case, the array object is Fortran-ordered / a transposed view /
                    a negatively strided view / an every-other-element view of a larger buffer."""
import sys, os, json, ctypes, warnings
warnings.filterwarnings('ignore')
import numpy as np
np.seterr(all='ignore')
import dadi
from dadi import Integration
import dadi.integration_c as int_c
import dadi.tridiag_cython as tridiag_cython

LIB = ctypes.CDLL(os.path.join(os.environ['DADI_OVERLAY'], 'libdadi_kernels.so'))
D = ctypes.c_double; I = ctypes.c_int; P = ctypes.POINTER(ctypes.c_double)
AX = 'xyzab'
POOL = {}

def ptr(a):
    return a.ctypes.data_as(P)

def arr(c, role, values, shape=None):
    """a fresh C-contiguous float array with the given content, or (case key 'reuse') the persistent buffer of that role
    and shape overwritten with the content"""
    a = np.array(values, dtype=float)
    if shape is not None:
        a = a.reshape(shape)
    if not c.get('reuse'):
        return a.copy()
    key = (role, a.shape)
    if key not in POOL:
        POOL[key] = np.empty(a.shape, dtype=float)
    POOL[key][...] = a
    return POOL[key]

def kernel(c):
    d = len(c['shape']); k = c['k']
    phi = arr(c, 'phi', c['phi'], c['shape'])
    grids = [arr(c, 'grid%d' % j, g) for j, g in enumerate(c['grids'])]
    name = 'implicit_%dD%s' % (d, AX[k])
    f = getattr(LIB, name)
    args = [ptr(phi)] + [ptr(g) for g in grids] + [D(c['nu'])] + [D(m) for m in c['ms']] + [D(c['gamma']), D(c['h'])]
    if d == 1:
        args.append(D(c['beta']))
    args.append(D(c['dt']))
    args += [I(n) for n in c['shape']]
    args.append(I(1 if c['delj'] else 0))
    if d in (2, 3):
        # loop range: 2Dx over M, 2Dy over L, 3Dx over M, 3Dy over L, 3Dz over L
        rng_axis = 1 if k == 0 else 0
        args += [I(0), I(c['shape'][rng_axis])]
    f.restype = None
    f(*args)
    return [float(t) for t in phi.ravel()]

def wrap(c):
    d = len(c['shape']); k = c['k']
    phi = arr(c, 'phi', c['phi'], c['shape'])
    grids = [arr(c, 'grid%d' % j, g) for j, g in enumerate(c['grids'])]
    f = getattr(int_c, 'implicit_%dD%s' % (d, AX[k]))
    args = [phi] + grids + [c['nu']] + list(c['ms']) + [c['gamma'], c['h']]
    if d == 1:
        args.append(c['beta'])
    args += [c['dt'], 1 if c['delj'] else 0]
    res = f(*args)
    return [float(t) for t in np.asarray(res).ravel()]

def precalc(c):
    d = len(c['shape']); k = c['k']
    phi = arr(c, 'phi', c['phi'], c['shape'])
    a = arr(c, 'a', c['a'], c['shape'])
    b = arr(c, 'b', c['b'], c['shape'])
    cc = arr(c, 'c', c['c'], c['shape'])
    if c.get('via') == 'wrap':
        f = getattr(int_c, 'implicit_precalc_%dD%s' % (d, AX[k]))
        res = f(phi, a, b, cc, c['dt'])
        return [float(t) for t in np.asarray(res).ravel()]
    f = getattr(LIB, 'implicit_precalc_%dD%s' % (d, AX[k]))
    rng_axis = 1 if k == 0 else 0
    args = [ptr(phi), ptr(a), ptr(b), ptr(cc), D(c['dt'])] + [I(n) for n in c['shape']] + [I(0), I(c['shape'][rng_axis])]
    f.restype = None
    f(*args)
    return [float(t) for t in phi.ravel()]

def tridiag(c):
    a, b, cc, r = [arr(c, 't' + x, c[x]) for x in 'abcr']
    if c.get('via') == 'wrap':
        return [float(t) for t in tridiag_cython.tridiag(a, b, cc, r)]
    u = np.zeros(len(a))
    LIB.tridiag.restype = None
    LIB.tridiag(ptr(a), ptr(b), ptr(cc), ptr(r), ptr(u), I(len(a)))
    return [float(t) for t in u]

def lay_phi(phi, how):
    """an array object with the logical content of phi and the requested memory layout"""
    d = phi.ndim
    if how is None:
        return phi
    if how == 'F':
        out = np.asfortranarray(phi) if d >= 2 else phi
        if d >= 2:
            assert out.flags['F_CONTIGUOUS'] and not out.flags['C_CONTIGUOUS']
    elif how == 'T':
        # a view with the first and the last axis swapped of a C-contiguous array holding the swapped content
        base = np.ascontiguousarray(np.swapaxes(phi, 0, d - 1))
        out = np.swapaxes(base, 0, d - 1)
        assert d < 2 or not out.flags['C_CONTIGUOUS']
    elif how == 'neg':
        # negatively strided along the first axis
        base = np.ascontiguousarray(phi[::-1])
        out = base[::-1]
        assert out.strides[0] < 0
    elif how == 'step':
        # every other element along the last axis of a larger buffer (the gaps hold a sentinel)
        shp = list(phi.shape); shp[-1] = 2 * shp[-1]
        base = np.full(shp, -777.25)
        base[..., ::2] = phi
        out = base[..., ::2]
        assert not out.flags['C_CONTIGUOUS'] or out.shape[-1] == 1
    else:
        raise ValueError('layout ' + repr(how))
    assert out.shape == phi.shape and np.array_equal(out, phi)
    return out

def lay_grid(xx, how):
    if how is None:
        return xx
    if how == 'neg':
        base = np.ascontiguousarray(xx[::-1])
        out = base[::-1]
        assert out.strides[0] < 0
    elif how == 'step':
        base = np.full(2 * len(xx), -777.25)
        base[::2] = xx
        out = base[::2]
    else:
        raise ValueError('grid layout ' + repr(how))
    assert np.array_equal(out, xx)
    return out

def driver(c):
    d = len(c['shape'])
    Integration.timescale_factor = c['tf']
    Integration.use_delj_trick = bool(c['delj'])
    xx = np.array(c['grid'], dtype=float)
    phi = np.array(c['phi'], dtype=float).reshape(c['shape']).copy()
    lay = c.get('layout') or {}
    phi = lay_phi(phi, lay.get('phi'))
    xx = lay_grid(xx, lay.get('grid'))
    pops = c['pops']
    fn = c['as_func']          # None: constants; 'const': functions returning the constant; 'lin': nu(t)=nu+s*t
    def par(v, s=0.0):
        if fn is None:
            return v
        if fn == 'const':
            return (lambda t, v=v: v)
        return (lambda t, v=v, s=s: v + s * t)
    kw = {}
    names = '12345'
    try:
        if d == 1:
            p = pops[0]
            kw = dict(nu=par(p['nu'], p.get('nu_slope', 0.0)), gamma=par(p['gamma']), h=par(p['h']), theta0=par(c['theta0'], c.get('theta_slope', 0.0)), beta=par(p['beta']))
            if p.get('frozen'):
                kw['frozen'] = True
            res = Integration.one_pop(phi, xx, c['T'], **kw)
        else:
            for i, p in enumerate(pops):
                kw['nu' + names[i]] = par(p['nu'], p.get('nu_slope', 0.0))
                kw['gamma' + names[i]] = par(p['gamma'])
                kw['h' + names[i]] = par(p['h'])
                if p.get('frozen'):
                    kw['frozen' + names[i]] = True
                if p.get('nomut') and d == 2:
                    kw['nomut' + names[i]] = True
                others = [j for j in range(d) if j != i]
                for j, m in zip(others, p['ms']):
                    # a zero rate stays a plain constant: the frozen-population guard tests `m != 0` on the argument itself
                    kw['m' + names[i] + names[j]] = par(m) if m != 0 else 0
            kw['theta0'] = par(c['theta0'], c.get('theta_slope', 0.0))
            f = [None, None, Integration.two_pops, Integration.three_pops, Integration.four_pops, Integration.five_pops][d]
            res = f(phi, xx, c['T'], **kw)
    finally:
        Integration.timescale_factor = 1e-3
        Integration.use_delj_trick = False
    return [float(t) for t in np.asarray(res).ravel()]

def main():
    cases = json.load(sys.stdin)
    out = []
    stream = '--stream' in sys.argv
    for seq, c in enumerate(cases):
        rec = {'id': c['id'], 'seq': seq}
        try:
            rec['res'] = {'kernel': kernel, 'wrap': wrap, 'precalc': precalc, 'tridiag': tridiag, 'driver': driver}[c['kind']](c)
        except Exception as e:
            rec['error'] = type(e).__name__ + ': ' + str(e)[:300]
        if stream:
            sys.stdout.write('R ' + json.dumps(rec) + '\n'); sys.stdout.flush()
        else:
            out.append(rec)
    if not stream:
        print(json.dumps(out))
if __name__ == '__main__':
    main()
