"""Runs the real integration code on generated cases.
kinds: 'kernel' (C kernels through ctypes, unequal dims allowed), 'wrap' (int_c Cython wrappers, cubic),
       'precalc' (C precalc kernels via ctypes), 'tridiag', 'driver' (one_pop..five_pops)."""
import sys, os, json, ctypes, warnings
warnings.filterwarnings('ignore')
import numpy as np
np.seterr(all='ignore')
import dadi
from dadi import Integration
import dadi.integration_c as int_c
import dadi.tridiag_cython as tridiag_cython

LIB = ctypes.CDLL(os.path.join(os.environ['DADI_OVERLAY'], 'libdadi_kernels.so'))
D = ctypes.c_double; I = ctypes.c_int; P = ctypes.POINTER(ctypes.c_double)
AX = 'xyzab'

def ptr(a):
    return a.ctypes.data_as(P)

def kernel(c):
    d = len(c['shape']); k = c['k']
    phi = np.array(c['phi'], dtype=float).reshape(c['shape']).copy()
    grids = [np.array(g, dtype=float) for g in c['grids']]
    name = 'implicit_%dD%s' % (d, AX[k])
    f = getattr(LIB, name)
    args = [ptr(phi)] + [ptr(g) for g in grids] + [D(c['nu'])] + [D(m) for m in c['ms']] + [D(c['gamma']), D(c['h'])]
    if d == 1:
        args.append(D(c['beta']))
    args.append(D(c['dt']))
    args += [I(n) for n in c['shape']]
    args.append(I(1 if c['delj'] else 0))
    if d in (2, 3):
        # loop range: 2Dx over M, 2Dy over L, 3Dx over M, 3Dy over L, 3Dz over L
        rng_axis = 1 if k == 0 else 0
        args += [I(0), I(c['shape'][rng_axis])]
    f.restype = None
    f(*args)
    return [float(t) for t in phi.ravel()]

def wrap(c):
    d = len(c['shape']); k = c['k']
    phi = np.array(c['phi'], dtype=float).reshape(c['shape']).copy()
    grids = [np.array(g, dtype=float) for g in c['grids']]
    f = getattr(int_c, 'implicit_%dD%s' % (d, AX[k]))
    args = [phi] + grids + [c['nu']] + list(c['ms']) + [c['gamma'], c['h']]
    if d == 1:
        args.append(c['beta'])
    args += [c['dt'], 1 if c['delj'] else 0]
    res = f(*args)
    return [float(t) for t in np.asarray(res).ravel()]

def precalc(c):
    d = len(c['shape']); k = c['k']
    phi = np.array(c['phi'], dtype=float).reshape(c['shape']).copy()
    a = np.array(c['a'], dtype=float).reshape(c['shape']).copy()
    b = np.array(c['b'], dtype=float).reshape(c['shape']).copy()
    cc = np.array(c['c'], dtype=float).reshape(c['shape']).copy()
    if c.get('via') == 'wrap':
        f = getattr(int_c, 'implicit_precalc_%dD%s' % (d, AX[k]))
        res = f(phi, a, b, cc, c['dt'])
        return [float(t) for t in np.asarray(res).ravel()]
    f = getattr(LIB, 'implicit_precalc_%dD%s' % (d, AX[k]))
    rng_axis = 1 if k == 0 else 0
    args = [ptr(phi), ptr(a), ptr(b), ptr(cc), D(c['dt'])] + [I(n) for n in c['shape']] + [I(0), I(c['shape'][rng_axis])]
    f.restype = None
    f(*args)
    return [float(t) for t in phi.ravel()]

def tridiag(c):
    a, b, cc, r = [np.array(c[x], dtype=float) for x in 'abcr']
    if c.get('via') == 'wrap':
        return [float(t) for t in tridiag_cython.tridiag(a, b, cc, r)]
    u = np.zeros(len(a))
    LIB.tridiag.restype = None
    LIB.tridiag(ptr(a), ptr(b), ptr(cc), ptr(r), ptr(u), I(len(a)))
    return [float(t) for t in u]

def mkfun(base, slope):
    if slope is None:
        return base
    if slope == 0:
        return lambda t: base
    return lambda t: base + slope * t

def driver(c):
    d = len(c['shape'])
    Integration.timescale_factor = c['tf']
    Integration.use_delj_trick = bool(c['delj'])
    xx = np.array(c['grid'], dtype=float)
    phi = np.array(c['phi'], dtype=float).reshape(c['shape']).copy()
    pops = c['pops']
    fn = c['as_func']          # None: constants; 'const': functions returning the constant; 'lin': nu(t)=nu+s*t
    def par(v, s=0.0):
        if fn is None:
            return v
        if fn == 'const':
            return (lambda t, v=v: v)
        return (lambda t, v=v, s=s: v + s * t)
    kw = {}
    names = '12345'
    if d == 1:
        p = pops[0]
        kw = dict(nu=par(p['nu'], p.get('nu_slope', 0.0)), gamma=par(p['gamma']), h=par(p['h']), theta0=par(c['theta0'], c.get('theta_slope', 0.0)), beta=par(p['beta']))
        if p.get('frozen'):
            kw['frozen'] = True
        res = Integration.one_pop(phi, xx, c['T'], **kw)
    else:
        for i, p in enumerate(pops):
            kw['nu' + names[i]] = par(p['nu'], p.get('nu_slope', 0.0))
            kw['gamma' + names[i]] = par(p['gamma'])
            kw['h' + names[i]] = par(p['h'])
            if p.get('frozen'):
                kw['frozen' + names[i]] = True
            if p.get('nomut') and d == 2:
                kw['nomut' + names[i]] = True
            others = [j for j in range(d) if j != i]
            for j, m in zip(others, p['ms']):
                # a zero rate stays a plain constant: the frozen-population guard tests `m != 0` on the argument itself
                kw['m' + names[i] + names[j]] = par(m) if m != 0 else 0
        kw['theta0'] = par(c['theta0'], c.get('theta_slope', 0.0))
        f = [None, None, Integration.two_pops, Integration.three_pops, Integration.four_pops, Integration.five_pops][d]
        res = f(phi, xx, c['T'], **kw)
    Integration.timescale_factor = 1e-3
    Integration.use_delj_trick = False
    return [float(t) for t in np.asarray(res).ravel()]

def main():
    cases = json.load(sys.stdin)
    out = []
    for c in cases:
        rec = {'id': c['id']}
        try:
            rec['res'] = {'kernel': kernel, 'wrap': wrap, 'precalc': precalc, 'tridiag': tridiag, 'driver': driver}[c['kind']](c)
        except Exception as e:
            rec['error'] = type(e).__name__ + ': ' + str(e)[:300]
        out.append(rec)
    print(json.dumps(out))
if __name__ == '__main__':
    main()
