"""C04 implementation driver.
kinds: 'driver' (one_pop..five_pops; as C02 but the density and the grid are handed over in the memory layout named by the case),
       'sweepmass' (one kernel call via ctypes: returns output for the mass balance; raw-pointer interface, no layouts),
       'inject' (_inject_mutations_dD), 'reject' (frozen + migration must raise), 'remove' (remove_pop / filter_pops),
       'pipe' (in-library pipelines: a list of reorder_pops / remove_pop / filter_pops / integrate steps applied in sequence).

Memory layouts.  A case may carry 'layout' (for the density) and 'xlayout' (for the grid):
    {'order': [logical axes from slowest to fastest varying in memory], 'neg': [axes stored backwards],
     'step': [axes stored with stride 2 elements], 'pad': bool (window of a larger array)}
`relayout` builds an array of the SAME shape and the SAME logical content (a[i,j,..] unchanged) with that layout, as a view into a
larger buffer whose other entries hold garbage (finite, ~1e2..2e2), so that code addressing the raw buffer instead of the array
reads wrong numbers rather than unmapped memory.  Everything returned to the harness is read through numpy indexing
(logical content, C-order flattening).

Argument types (harness/props/c04_types.py).  Every value the harness sends is a JSON number / bool; a case may name, per argument, the
Python / numpy TYPE in which the value is handed to the library (`conv`): frozen / nomut flags ('flag_types', 'nomut_types', per population;
absent or None = the canonical call: `frozenK=True` for a frozen population, nothing otherwise), the numeric arguments by class
('arg_types': nu, gamma, h, m, theta0, beta, T, initial_t; functions of time return the value in that type), the grid container
('grid_type') and the density container ('phi_type').  The VALUES never change, only their type."""
import sys, os, json, warnings
warnings.filterwarnings('ignore')
sys.path.insert(0, os.path.dirname(os.path.abspath(__file__)))
import numpy as np
np.seterr(all='ignore')
import dadi
from dadi import Integration, PhiManip
import c02_impl

def relayout(arr, lay):
    arr = np.asarray(arr, dtype=float)
    if not lay:
        return np.ascontiguousarray(arr).copy()
    d = arr.ndim
    order = list(lay.get('order') or range(d))
    assert sorted(order) == list(range(d))
    neg = set(lay.get('neg') or []); step = set(lay.get('step') or []); pad = 1 if lay.get('pad') else 0
    if lay.get('fortran'):          # numpy's own Fortran-ordered allocation (owns its data, F_CONTIGUOUS)
        out = np.asfortranarray(arr).copy(order='F')
        assert out.flags['F_CONTIGUOUS'] and (d < 2 or not out.flags['C_CONTIGUOUS'])
        return out
    alloc = [arr.shape[a] * (2 if a in step else 1) + 2 * pad for a in range(d)]
    memshape = [alloc[a] for a in order]
    tot = int(np.prod(memshape))
    buf = 100.0 + 100.0 * ((np.arange(3 * tot, dtype=float) * 0.6180339887498949) % 1.0)
    big_mem = buf.reshape([3] + memshape)[1]
    inv = [order.index(a) for a in range(d)]
    bigL = big_mem.transpose(inv)                     # logical axis a = memory axis inv[a]
    sl = []
    for a in range(d):
        n = arr.shape[a]; st = 2 if a in step else 1; s0 = pad
        if a in neg:
            last = s0 + (n - 1) * st
            stop = s0 - st
            sl.append(slice(last, stop if stop >= 0 else None, -st))
        else:
            sl.append(slice(s0, s0 + n * st, st))
    view = bigL[tuple(sl)]
    assert view.shape == arr.shape, (view.shape, arr.shape)
    view[...] = arr
    assert np.array_equal(view, arr)
    return view

class _PhiSub(np.ndarray):
    """a plain ndarray subclass (what numpy.matrix-like wrappers and user classes look like to the library)"""
    pass

def conv(t, v):
    """the value v in the argument type named t (None / 'canon': as the harness sent it)"""
    if t is None or t == 'canon':
        return v
    if t == 'bool':
        return bool(v)
    if t == 'int':
        assert v == int(v), v
        return int(v)
    if t == 'float':
        return float(v)
    if t in ('np.bool_', 'np.int64', 'np.int32', 'np.int8', 'np.uint8', 'np.float64', 'np.float32'):
        ty = getattr(np, t[3:])
        if 'int' in t:
            assert v == int(v), v
        return ty(v)
    if t == '0d-bool':
        return np.array(bool(v))
    if t == '0d-int':
        assert v == int(v), v
        return np.array(int(v))
    if t == '0d-float':
        return np.array(float(v))
    raise ValueError('unknown argument type %r' % (t,))

def grid_as(xx, t):
    if not t:
        return xx
    if t == 'list':
        return [float(v) for v in xx]
    if t == 'tuple':
        return tuple(float(v) for v in xx)
    if t == 'float32':
        r = np.array(xx, dtype=np.float32)
        assert np.array_equal(r.astype(float), np.asarray(xx, dtype=float)), 'grid not representable in float32'
        return r
    if t == 'longdouble':
        return np.array(xx, dtype=np.longdouble)
    if t == 'object':
        return np.array([float(v) for v in xx], dtype=object)
    if t == 'ma':
        return np.ma.array(np.array(xx, dtype=float))
    raise ValueError('unknown grid type %r' % (t,))

def phi_as(phi, t):
    if not t:
        return phi
    if t == 'ma':
        return np.ma.array(phi)
    if t == 'subclass':
        return phi.view(_PhiSub)
    raise ValueError('unknown density type %r' % (t,))

def flat(a):
    a = np.asarray(a)
    return [float(t) for t in a.reshape(-1)] if a.ndim else [float(a)]

def integrate(phi, xx, c):
    """c: driver fields (pops, theta0, T, tf, delj, as_func, theta_slope) -- same conventions as c02_impl.driver"""
    d = phi.ndim
    Integration.timescale_factor = c['tf']
    Integration.use_delj_trick = bool(c['delj'])
    pops = c['pops']
    assert len(pops) == d
    fn = c['as_func']          # None: constants; 'const': functions returning the constant; 'lin': nu(t)=nu+s*t
    at = c.get('arg_types') or {}
    ft = c.get('flag_types') or [None] * d
    nt = c.get('nomut_types') or [None] * d
    def par(v, s=0.0, cls=None):
        ty = at.get(cls)
        if fn is None:
            return conv(ty, v)
        if fn == 'const':
            return (lambda t, v=v, ty=ty: conv(ty, v))
        return (lambda t, v=v, s=s: v + s * t)
    names = '12345'
    T = conv(at.get('T'), c['T'])
    tkw = {}
    if 'initial_t' in c:
        tkw['initial_t'] = conv(at.get('initial_t'), c['initial_t'])
    # 'func_names' (harness/props/c04_cross.py): ONLY these keywords are handed over as functions of time, v + slope*t with the slope of
    # 'func_slopes' (default 0), every other argument stays the constant the case names -- one function is enough for the per-step loop
    fnames = c.get('func_names') or []
    fslopes = c.get('func_slopes') or {}
    def only_funcs(kw):
        for name in fnames:
            if name not in kw:
                raise ValueError('func_names: %r is not an argument of this call' % (name,))
            if not callable(kw[name]):
                kw[name] = (lambda t, v=kw[name], s=fslopes.get(name, 0.0): (v + s * t) if s else v)
    try:
        if d == 1:
            p = pops[0]
            kw = dict(nu=par(p['nu'], p.get('nu_slope', 0.0), 'nu'), gamma=par(p['gamma'], cls='gamma'), h=par(p['h'], cls='h'),
                      theta0=par(c['theta0'], c.get('theta_slope', 0.0), 'theta0'), beta=par(p.get('beta', 1.0), cls='beta'))
            if ft[0] is not None:
                kw['frozen'] = conv(ft[0], bool(p.get('frozen')))
            elif p.get('frozen'):
                kw['frozen'] = True
            kw.update(tkw)
            only_funcs(kw)
            res = Integration.one_pop(phi, xx, T, **kw)
        else:
            kw = {}
            for i, p in enumerate(pops):
                kw['nu' + names[i]] = par(p['nu'], p.get('nu_slope', 0.0), 'nu')
                kw['gamma' + names[i]] = par(p['gamma'], cls='gamma')
                kw['h' + names[i]] = par(p['h'], cls='h')
                if ft[i] is not None:
                    kw['frozen' + names[i]] = conv(ft[i], bool(p.get('frozen')))
                elif p.get('frozen'):
                    kw['frozen' + names[i]] = True
                if d == 2:
                    if nt[i] is not None:
                        kw['nomut' + names[i]] = conv(nt[i], bool(p.get('nomut')))
                    elif p.get('nomut'):
                        kw['nomut' + names[i]] = True
                others = [j for j in range(d) if j != i]
                for j, m in zip(others, p['ms']):
                    # a zero rate stays a plain constant: the frozen-population guard tests `m != 0` on the argument itself
                    kw['m' + names[i] + names[j]] = par(m, cls='m') if m != 0 else (0 if at.get('m') is None else conv(at.get('m'), m))
            kw['theta0'] = par(c['theta0'], c.get('theta_slope', 0.0), 'theta0')
            kw.update(tkw)
            only_funcs(kw)
            f = [None, None, Integration.two_pops, Integration.three_pops, Integration.four_pops, Integration.five_pops][d]
            res = f(phi, xx, T, **kw)
    finally:
        Integration.timescale_factor = 1e-3
        Integration.use_delj_trick = False
    return res

def driver(c):
    xx = grid_as(relayout(c['grid'], c.get('xlayout')), c.get('grid_type'))
    phi = phi_as(relayout(np.array(c['phi'], dtype=float).reshape(c['shape']), c.get('layout')), c.get('phi_type'))
    res = integrate(phi, xx, c)
    if isinstance(res, np.ma.MaskedArray):
        if np.ma.getmaskarray(res).any():
            raise ValueError('result has masked entries')
        res = res.data
    res = np.asarray(res, dtype=float)
    if list(res.shape) != list(c['shape']):
        raise ValueError('result shape %r for input shape %r' % (res.shape, c['shape']))
    return flat(res)

def inject(c):
    d = len(c['shape'])
    phi = relayout(np.array(c['phi'], dtype=float).reshape(c['shape']), c.get('layout'))
    xx = relayout(c['grid'], c.get('xlayout'))
    fr = c['frozen']; nm = c['nomut']
    if c.get('ftypes'):
        fr = [conv(t, v) for t, v in zip(c['ftypes'], fr)]
    if c.get('ntypes'):
        nm = [conv(t, v) for t, v in zip(c['ntypes'], nm)]
    if d == 1:
        Integration._inject_mutations_1D(phi, c['dt'], xx, c['theta0'])
    elif d == 2:
        Integration._inject_mutations_2D(phi, c['dt'], xx, xx, c['theta0'], fr[0], fr[1], nm[0], nm[1])
    else:
        f = getattr(Integration, '_inject_mutations_%dD' % d)
        f(phi, c['dt'], *([xx] * d), c['theta0'], *fr)
    return flat(phi)

def inject_many(c):
    """the same density / grid / dt / theta0 with many flag (value, type) combinations: per combination the sparse change of the density
    [[flat index, delta], ...] (the harness knows what it must be)"""
    d = len(c['shape'])
    phi0 = np.array(c['phi'], dtype=float).reshape(c['shape'])
    xx = np.array(c['grid'], dtype=float)
    f = getattr(Integration, '_inject_mutations_%dD' % d)
    out = []
    for vals, types in c['combos']:
        phi = phi0.copy()
        flags = [conv(t, v) for t, v in zip(types, vals)]
        try:
            if d == 2:
                f(phi, c['dt'], xx, xx, c['theta0'], *flags)
            else:
                f(phi, c['dt'], *([xx] * d), c['theta0'], *flags)
            df = (phi - phi0).reshape(-1)
            out.append([[int(j), float(df[j])] for j in np.flatnonzero(df != 0)])
        except Exception as e:
            out.append({'error': type(e).__name__ + ': ' + str(e)[:200]})
    return out

def reject(c):
    d = len(c['shape'])
    xx = np.array(c['grid'], dtype=float)
    phi = np.ones(c['shape'])
    names = '12345'
    mt = c.get('mtype')
    m = (lambda t: c['m']) if (c.get('as_func') or mt == 'func') else conv(mt, c['m'])
    kw = {'frozen%s' % names[c['frozen']]: conv(c.get('ftype'), True), 'm%s%s' % (names[c['i']], names[c['j']]): m}
    f = [None, None, Integration.two_pops, Integration.three_pops, Integration.four_pops, Integration.five_pops][d]
    try:
        f(phi, xx, c['T'], **kw)
        return 'accepted'
    except ValueError as e:
        return 'ValueError'

def manip(phi, xx, s):
    if s['op'] == 'remove_pop':
        return PhiManip.remove_pop(phi, xx, s['k'])
    if s['op'] == 'filter_pops':
        return PhiManip.filter_pops(phi, xx, s['keep'])
    if s['op'] == 'reorder_pops':
        return PhiManip.reorder_pops(phi, s['neworder'])
    raise ValueError('unknown op %r' % (s['op'],))

def remove(c):
    xx = grid_as(relayout(c['grid'], c.get('xlayout')), c.get('grid_type'))
    phi = phi_as(relayout(np.array(c['phi'], dtype=float).reshape(c['shape']), c.get('layout')), c.get('phi_type'))
    r = manip(phi, xx, c)
    if isinstance(r, np.ma.MaskedArray):
        if np.ma.getmaskarray(r).any():
            raise ValueError('result has masked entries')
        r = r.data
    r = np.asarray(r, dtype=float)
    return flat(r), list(r.shape)

def pipe(c):
    """steps applied left to right on the evolving density; 'integrate' steps carry the driver fields.  Returns the final density, its
    shape, and per step the memory description of what was handed on (for the replay / diagnosis only)."""
    xx = relayout(c['grid'], c.get('xlayout'))
    phi = relayout(np.array(c['phi'], dtype=float).reshape(c['shape']), c.get('layout'))
    trace = []
    for s in c['steps']:
        if s['op'] == 'integrate':
            phi = integrate(phi, xx, s)
        else:
            phi = manip(phi, xx, s)
        a = np.asarray(phi)
        trace.append({'op': s['op'], 'shape': list(a.shape), 'c_contiguous': bool(a.flags['C_CONTIGUOUS']), 'strides': [int(t) // 8 for t in a.strides]})
    phi = np.asarray(phi)
    return flat(phi), list(phi.shape), trace

def main():
    cases = json.load(sys.stdin)
    out = []
    for c in cases:
        rec = {'id': c['id']}
        try:
            k = c['kind']
            if k == 'driver':
                rec['res'] = driver(c)
            elif k == 'sweepmass':
                rec['res'] = c02_impl.kernel(c)
            elif k == 'inject':
                rec['res'] = inject(c)
            elif k == 'inject_many':
                rec['res'] = inject_many(c)
            elif k == 'reject':
                rec['res'] = reject(c)
            elif k == 'remove':
                rec['res'], rec['shape'] = remove(c)
            elif k == 'pipe':
                rec['res'], rec['shape'], rec['trace'] = pipe(c)
            else:
                raise ValueError('unknown kind %r' % (k,))
        except Exception as e:
            rec['error'] = type(e).__name__ + ': ' + str(e)[:300]
        out.append(rec)
    print(json.dumps(out))
if __name__ == '__main__':
    main()
