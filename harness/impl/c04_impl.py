"""C04 implementation driver.
kinds: 'driver' (as C02), 'sweepmass' (one kernel call via ctypes: returns output for the mass balance),
       'inject' (_inject_mutations_dD), 'reject' (frozen + migration must raise), 'remove' (remove_pop / filter_pops)."""
import sys, os, json, warnings
warnings.filterwarnings('ignore')
sys.path.insert(0, os.path.dirname(os.path.abspath(__file__)))
import numpy as np
np.seterr(all='ignore')
import dadi
from dadi import Integration, PhiManip
import c02_impl

def inject(c):
    d = len(c['shape'])
    phi = np.array(c['phi'], dtype=float).reshape(c['shape']).copy()
    xx = np.array(c['grid'], dtype=float)
    fr = c['frozen']; nm = c['nomut']
    if d == 1:
        Integration._inject_mutations_1D(phi, c['dt'], xx, c['theta0'])
    elif d == 2:
        Integration._inject_mutations_2D(phi, c['dt'], xx, xx, c['theta0'], fr[0], fr[1], nm[0], nm[1])
    else:
        f = getattr(Integration, '_inject_mutations_%dD' % d)
        f(phi, c['dt'], *([xx] * d), c['theta0'], *fr)
    return [float(t) for t in phi.ravel()]

def reject(c):
    d = len(c['shape'])
    xx = np.array(c['grid'], dtype=float)
    phi = np.ones(c['shape'])
    names = '12345'
    kw = {'frozen%s' % names[c['frozen']]: True, 'm%s%s' % (names[c['i']], names[c['j']]): (c['m'] if not c.get('as_func') else (lambda t: c['m']))}
    f = [None, None, Integration.two_pops, Integration.three_pops, Integration.four_pops, Integration.five_pops][d]
    try:
        f(phi, xx, c['T'], **kw)
        return 'accepted'
    except ValueError as e:
        return 'ValueError'

def remove(c):
    d = len(c['shape'])
    xx = np.array(c['grid'], dtype=float)
    phi = np.array(c['phi'], dtype=float).reshape(c['shape'])
    if c['op'] == 'remove_pop':
        r = PhiManip.remove_pop(phi, xx, c['k'])
    else:
        r = PhiManip.filter_pops(phi, xx, c['keep'])
    return [float(t) for t in np.asarray(r).ravel()], list(np.asarray(r).shape)

def main():
    cases = json.load(sys.stdin)
    out = []
    for c in cases:
        rec = {'id': c['id']}
        try:
            k = c['kind']
            if k == 'driver':
                rec['res'] = c02_impl.driver(c)
            elif k == 'sweepmass':
                rec['res'] = c02_impl.kernel(c)
            elif k == 'inject':
                rec['res'] = inject(c)
            elif k == 'reject':
                rec['res'] = reject(c)
            elif k == 'remove':
                rec['res'], rec['shape'] = remove(c)
        except Exception as e:
            rec['error'] = type(e).__name__ + ': ' + str(e)[:300]
        out.append(rec)
    print(json.dumps(out))
if __name__ == '__main__':
    main()
