"""C14 impl driver: runs the REAL dadi file / pickle code (overlay) on the generated cases.

For every case (JSON on stdin) it builds the spectrum through the public constructor, then
  * Spectrum.to_file / tofile  -> returns the exact text that landed in the file (gzip-decoded for .gz names)
  * Spectrum.from_file / fromfile on its own file, on the harness-supplied "model-written" file and on
    hand-written pre-1.3 files
  * pickle.dumps/loads for every protocol, and the copyreg reduce tuple
  * Numerics.array_to_file / array_from_file (file name and open file object), Spectrum.from_file on that file
Exceptions are reported per call, never swallowed.  Floats (inf/nan included) travel as JSON numbers.
"""
import sys, json, os, gzip, pickle, copyreg, copy, tempfile, shutil, logging, warnings
warnings.filterwarnings('ignore')
logging.disable(logging.CRITICAL)
import numpy as np
import dadi
from dadi import Numerics
np.seterr(all='ignore')


def fl(a):
    return [float(t) for t in np.asarray(a, dtype=float).ravel()]


def describe(fs):
    """everything the property talks about, of a Spectrum object"""
    return {'shape': [int(n) for n in fs.shape], 'data': fl(fs.data),
            'mask': [bool(t) for t in np.ma.getmaskarray(fs).ravel()],
            'folded': fs.folded if isinstance(fs.folded, bool) else repr(fs.folded),
            'pop_ids': None if fs.pop_ids is None else list(fs.pop_ids),
            'extrap_x': None if fs.extrap_x is None else float(fs.extrap_x),
            'is_spectrum': type(fs) is dadi.Spectrum}


def err(e):
    return {'error': type(e).__name__ + ': ' + str(e)[:200], 'etype': type(e).__name__}


def raw_text(path):
    if path.endswith('.gz'):
        with gzip.open(path, 'rb') as f:
            return f.read().decode('latin1')
    with open(path, 'rb') as f:
        return f.read().decode('latin1')


def put_text(path, text):
    """write text byte for byte (a .gz name gets a gzip container around the same bytes)"""
    if path.endswith('.gz'):
        with gzip.open(path, 'wb') as f:
            f.write(text.encode('latin1'))
    else:
        with open(path, 'wb') as f:
            f.write(text.encode('latin1'))


def read_spectrum(path, mc, alias=False, bare=True):
    try:
        reader = dadi.Spectrum.fromfile if alias else dadi.Spectrum.from_file
        fs, comments = reader(path, mask_corners=mc, return_comments=True)
        r = describe(fs)
        r['comments'] = list(comments)
        if bare:
            # without return_comments the bare spectrum comes back
            fs2 = reader(path, mc)
            r['bare_ok'] = type(fs2) is dadi.Spectrum and fs2.shape == fs.shape
        return r
    except Exception as e:
        return err(e)


# ----------------------------------------------------------------------------------------------
# memory layouts: the same logical spectrum held in differently strided memory

def bits(a):
    """exact identity of float entries (nan payloads and signed zeros included)"""
    return np.ascontiguousarray(a, dtype=float).view(np.uint64) if np.asarray(a).dtype == float else np.ascontiguousarray(a)


def view_of(a):
    """(memory block by increasing address, offset of entry (0,..,0), strides in elements) of an ndarray,
    verified by rebuilding the array from exactly these three"""
    a = np.asarray(a)
    base = a
    while isinstance(base.base, np.ndarray):
        base = base.base
    base = base.view(np.ndarray)
    isz = a.itemsize
    if base.ndim == 0:
        block = base.reshape(1)
    else:
        if any(st <= 0 for st, n in zip(base.strides, base.shape) if n > 1):
            raise RuntimeError('owner of the memory is not a densely stored array: strides %r' % (base.strides,))
        block = base.ravel(order='K')
        if block.size != base.size or not (np.shares_memory(block, base) or base.size <= 1):
            raise RuntimeError('owner of the memory is not dense')
    off = a.__array_interface__['data'][0] - block.__array_interface__['data'][0]
    if off % isz or any(st % isz for st in a.strides):
        raise RuntimeError('unaligned view')
    off //= isz
    strides = [int(st // isz) for st in a.strides]
    # rebuild from (block, off, strides) and compare bit for bit
    idx = np.full(a.shape, off, dtype=np.int64)
    for ax, (n, st) in enumerate(zip(a.shape, strides)):
        sh = [1] * a.ndim; sh[ax] = n
        idx = idx + (np.arange(n, dtype=np.int64) * st).reshape(sh)
    if a.size and (idx.min() < 0 or idx.max() >= block.size):
        raise RuntimeError('view leaves its block')
    rebuilt = block[idx.ravel()].reshape(a.shape) if a.size else a
    if not np.array_equal(bits(rebuilt), bits(a)):
        raise RuntimeError('view extraction does not reproduce the array')
    return {'block': fl(block) if a.dtype == float else [bool(t) for t in block],
            'off': int(off), 'strides': strides, 'shape': [int(n) for n in a.shape],
            'c_contiguous': bool(a.flags.c_contiguous), 'f_contiguous': bool(a.flags.f_contiguous)}


def memory_order_differs(a):
    """does walking the cells by increasing address (numpy.nditer / ravel(order='K')) give another sequence than ravel()?"""
    a = np.asarray(a)
    if a.ndim == 0:
        return False
    k = np.array([x for x in np.nditer(a, order='K')], dtype=a.dtype) if a.size else a.ravel()
    return not np.array_equal(bits(k), bits(a.ravel()))


def build_layout(kind, prm, L, M, folded, labels, extrap):
    """a Spectrum with logical content (L, M, folded, labels, extrap) in the memory layout [kind]"""
    cc = np.ascontiguousarray
    def mk(dd, mm, lab=labels, **kw):
        return dadi.Spectrum(dd, mm, mask_corners=False, data_folded=folded, check_folding=False, pop_ids=lab, extrap_x=extrap, **kw)
    d = L.ndim
    if kind in ('reorder_pops', 'transpose', 'np_transpose', 'ctor_permuted'):
        perm = list(prm['perm']); inv = [int(t) for t in np.argsort(perm)]
        if kind == 'reorder_pops':          # the library's own population reordering
            pre = mk(cc(L.transpose(inv)), cc(M.transpose(inv)), None if labels is None else [labels[i] for i in inv])
            return pre.reorder_pops([a + 1 for a in perm])
        if kind == 'ctor_permuted':         # constructor handed an axis-permuted array (its copy keeps the stride order)
            return mk(cc(L.transpose(inv)).transpose(perm), cc(M.transpose(inv)).transpose(perm))
        pre = mk(cc(L.transpose(inv)), cc(M.transpose(inv)))
        return pre.transpose(perm) if kind == 'transpose' else np.transpose(pre, perm)
    if kind == 'T':
        return mk(cc(L.T), cc(M.T)).T
    if kind == 'swapaxes':
        i, j = prm['axes']
        return mk(cc(L.swapaxes(i, j)), cc(M.swapaxes(i, j))).swapaxes(i, j)
    if kind == 'fortran':                   # Fortran-ordered input
        return mk(np.asfortranarray(L), np.asfortranarray(M))
    if kind in ('step', 'neg', 'nocopy_view'):
        steps, offs, tails = prm['steps'], prm['offs'], prm['tails']
        def embed(X, filler, order='C'):
            """a larger block in which X sits at offs, every |step|-th cell, reversed where step < 0"""
            bshape = [o + (n - 1) * abs(st) + 1 + t for n, st, o, t in zip(X.shape, steps, offs, tails)]
            big = np.empty(bshape, dtype=X.dtype, order=order)
            big[...] = filler(bshape)
            sl_pos = tuple(slice(o, o + (n - 1) * abs(st) + 1, abs(st)) for n, st, o in zip(X.shape, steps, offs))
            flip = tuple(slice(None, None, -1) if st < 0 else slice(None) for st in steps)
            big[sl_pos] = X[flip]
            sl = tuple(slice(o + (n - 1) * abs(st), (o - 1) if o > 0 else None, st) if st < 0 else slice(o, o + (n - 1) * st + 1, st)
                       for n, st, o in zip(X.shape, steps, offs))
            return big, sl
        dfill = lambda bs: -7.25
        mfill = lambda bs: (np.indices(bs).sum(axis=0) % 2 == 0)
        if kind == 'nocopy_view':           # constructor with copy=False on views; the mask lives in a Fortran-ordered block
            bigd, sl = embed(L, dfill)
            bigm, slm = embed(M, mfill, order='F')
            return mk(bigd[sl], bigm[slm], copy=False)
        bigd, sl = embed(L, dfill)
        bigm, _ = embed(M, mfill)
        return mk(bigd, bigm)[sl]          # a slice of a larger Spectrum
    if kind == 'mask_broadcast':            # constant mask given as a stride-0 view, not copied
        return mk(L.copy(), np.broadcast_to(np.array(bool(M.flat[0])), L.shape), copy=False)
    if kind == 'mask_scalar':               # constant mask given as a Python bool
        return mk(L.copy(), bool(M.flat[0]))
    if kind == 'nomask':                    # no masked entry, mask compressed to numpy.ma.nomask
        fs = mk(np.asfortranarray(L) if prm.get('fortran') else L.copy(), None)
        fs.shrink_mask()
        return fs
    raise ValueError(kind)


def same_described(a, b):
    return (a['shape'] == b['shape'] and a['mask'] == b['mask'] and a['folded'] == b['folded'] and a['pop_ids'] == b['pop_ids']
            and (a['extrap_x'] == b['extrap_x']) and len(a['data']) == len(b['data'])
            and all((x != x and y != y) or (x == y and np.signbit(x) == np.signbit(y)) for x, y in zip(a['data'], b['data'])))


def reduce_record(fs, protocols=None):
    pk = {}
    try:
        func, args = copyreg.dispatch_table[dadi.Spectrum](fs)
        pk['reduce_func'] = getattr(func, '__name__', repr(func))
        dat, msk, fol, pids, ex = args
        pk['args'] = {'data_shape': [int(n) for n in np.shape(dat)], 'data': fl(dat),
                      'mask_shape': [int(n) for n in np.shape(msk)], 'mask': [bool(t) for t in np.asarray(msk).ravel()],
                      'folded': fol if isinstance(fol, bool) else repr(fol),
                      'pop_ids': None if pids is None else list(pids),
                      'extrap_x': None if ex is None else float(ex)}
        pk['unpickled_args'] = describe(func(*args))
    except Exception as e:
        pk['reduce_error'] = err(e)
    pk['protocols'] = {}
    for proto in (range(0, pickle.HIGHEST_PROTOCOL + 1) if protocols is None else protocols):
        try:
            pk['protocols'][str(proto)] = describe(pickle.loads(pickle.dumps(fs, proto)))
        except Exception as e:
            pk['protocols'][str(proto)] = err(e)
    return pk


def do_layout(lay, c, fs0, d, base):
    """every writer / reader / pickler on the spectrum [fs0] rebuilt in the memory layout [lay]"""
    out = {'kind': lay['kind'], 'prm': lay['prm']}
    L = np.array(fs0.data, dtype=float, order='C'); M = np.array(np.ma.getmaskarray(fs0), dtype=bool, order='C')
    try:
        fs = build_layout(lay['kind'], lay['prm'], L, M, fs0.folded, None if fs0.pop_ids is None else list(fs0.pop_ids), fs0.extrap_x)
    except Exception as e:
        out['build_error'] = err(e)
        return out
    out['built'] = describe(fs)
    try:
        out['data_view'] = view_of(fs.data)
        out['mask_view'] = view_of(fs.mask)
        out['mask_is_nomask'] = fs.mask is np.ma.nomask
        out['memory_order_differs'] = {'data': memory_order_differs(fs.data), 'mask': memory_order_differs(fs.mask)}
    except Exception as e:
        out['view_error'] = err(e)
    # ---- Spectrum.to_file / from_file under the configurations the harness asks for
    out['writes'] = []
    for k, cfg in enumerate(lay['configs']):
        w = {'cfg': cfg}
        f = base + '_L%s_%d%s' % (lay['kind'], k, '.fs.gz' if cfg['gz'] else '.fs')
        try:
            fs.to_file(f, precision=cfg['precision'], comment_lines=list(c['comments']), foldmaskinfo=cfg['fmi'])
            w['text'] = raw_text(f)
        except Exception as e:
            w.update(err(e))
        if 'text' in w:
            w['read'] = read_spectrum(f, cfg['mc'], bare=False)
        out['writes'].append(w)
    out['unchanged'] = {}
    def unchanged(stage):
        now = describe(fs)
        out['unchanged'][stage] = same_described(now, out['built'])
        if not out['unchanged'][stage]:
            out['after_' + stage] = now
    unchanged('to_file')
    # ---- Numerics.array_to_file on the masked object and on the bare data view
    out['array'] = {}
    for name, arr in (('masked', fs), ('plain', fs.data)):
        a = {}
        f = base + '_L%s_%s.txt' % (lay['kind'], name)
        try:
            Numerics.array_to_file(arr, f, precision=c['precision'], comment_lines=list(c['comments']))
            a['text'] = raw_text(f)
        except Exception as e:
            a.update(err(e))
        if 'text' in a:
            try:
                back, comments = Numerics.array_from_file(f, return_comments=True)
                a['read'] = {'shape': [int(n) for n in back.shape], 'data': fl(back), 'comments': list(comments),
                             'is_plain': type(back) is np.ndarray}
            except Exception as e:
                a['read'] = err(e)
        out['array'][name] = a
    unchanged('array_to_file')
    # ---- pickle
    out['pickle'] = reduce_record(fs, protocols=sorted({0, 2, pickle.HIGHEST_PROTOCOL}))
    unchanged('pickle')
    return out


# ----------------------------------------------------------------------------------------------
# argument / attribute types: the same logical spectrum and the same call, spelled with other Python / numpy types

import pathlib


def flag_obj(x):
    """type and value of a folding flag, for the model ([pyflag] of Model/FileFormat.v)"""
    if isinstance(x, np.ndarray):
        if x.ndim != 0:
            return {'py': 'other', 'repr': repr(x)[:60]}
        return {'py': 'arr0', 'inner': flag_obj(x[()])}
    if x is True or x is False:
        return {'py': 'bool', 'value': x}
    if isinstance(x, np.bool_):
        return {'py': 'np_bool', 'value': bool(x)}
    if isinstance(x, np.integer):
        return {'py': 'np_int', 'value': int(x)}
    if isinstance(x, int):
        return {'py': 'int', 'value': int(x)}
    if isinstance(x, (float, np.floating)):
        return {'py': 'float', 'value': bool(x != 0)}
    return {'py': 'other', 'repr': repr(x)[:60]}


def seq_kind(x):
    if x is None or type(x) is list:
        return 'list'
    if type(x) is tuple:
        return 'tuple'
    if isinstance(x, np.ndarray):
        return 'ndarray'
    return 'other:' + type(x).__name__


def describe_c(fs):
    """canonical form of a Spectrum object: bool(folded), list of str labels; plus the types found"""
    pid = fs.pop_ids
    return {'shape': [int(n) for n in fs.shape], 'data': fl(fs.data),
            'mask': [bool(t) for t in np.ma.getmaskarray(fs).ravel()],
            'folded': bool(fs.folded), 'flag': flag_obj(fs.folded),
            'pop_ids': None if pid is None else [str(x) for x in pid],
            'pop_items_are_str': pid is None or all(isinstance(x, str) for x in pid), 'pop_kind': seq_kind(pid),
            'extrap_x': None if fs.extrap_x is None else float(fs.extrap_x),
            'is_spectrum': type(fs) is dadi.Spectrum, 'data_dtype': str(fs.data.dtype),
            'mask_dtype': str(np.ma.getmaskarray(fs).dtype)}


CANON_KEYS = ('shape', 'mask', 'folded', 'pop_ids', 'extrap_x', 'is_spectrum', 'comments', 'is_plain', 'bare_ok')


def same_c(a, b):
    """same canonical record (floats compared bit for bit, nan == nan)"""
    if ('error' in a) or ('error' in b):
        return False
    if any(a.get(k) != b.get(k) for k in CANON_KEYS):
        return False
    x, y = a.get('data', []), b.get('data', [])
    return len(x) == len(y) and all((p != p and q != q) or (p == q and np.signbit(p) == np.signbit(q)) for p, q in zip(x, y))


def nested(a, f, seq=list):
    a = np.asarray(a)
    if a.ndim == 0:
        return f(a[()])
    return seq(nested(x, f, seq) for x in a)


def typed_flag(kind, b):
    b = bool(b)
    if kind == 'bool': return b
    if kind == 'np_bool': return np.array([b, not b])[0]            # an element of a boolean flag array
    if kind == 'np_all': return np.all(np.array([b, b]))            # the result of a numpy reduction
    if kind == 'np_compare': return np.float64(1.0 if b else 0.0) > 0.5
    if kind == 'int': return int(b)
    if kind == 'np_int': return np.int64(b)
    if kind == 'np_uint8': return np.uint8(b)
    if kind == 'float': return float(b)
    if kind == 'arr0_bool': return np.array(b)
    if kind == 'arr0_int': return np.array(int(b))
    raise ValueError(kind)


def typed_truth(kind, b):
    """a keyword that is only tested for truth (foldmaskinfo, mask_corners, return_comments)"""
    return typed_flag(kind, b)


def typed_mask(kind, M):
    if kind == 'bool_array': return M.copy()
    if kind == 'int_array': return M.astype(int)
    if kind == 'uint8_array': return M.astype(np.uint8)
    if kind == 'float_array': return M.astype(float)
    if kind == 'list': return nested(M, bool)
    if kind == 'int_list': return nested(M, int)
    if kind == 'tuple': return nested(M, bool, tuple)
    if kind == 'nomask': return np.ma.nomask
    if kind == 'none': return None
    if kind == 'false': return False
    if kind == 'np_false': return np.bool_(False)
    raise ValueError(kind)


DATA_DTYPES = {'float32': np.float32, 'float16': np.float16, 'longdouble': np.longdouble, 'int64': np.int64, 'int32': np.int32,
               'int16': np.int16, 'uint8': np.uint8, 'uint16': np.uint16, 'big_endian': '>f8'}


def typed_data(kind, L, M):
    """(constructor argument, the ndarray the generic writer is handed or None when the type is no ndarray)"""
    if kind == 'float64': a = L.copy(); return a, a
    if kind in DATA_DTYPES:
        a = L.astype(DATA_DTYPES[kind])
        if not np.array_equal(bits(a.astype(float)), bits(L)):
            raise RuntimeError('content is not exactly representable as %s' % kind)
        return a, a
    if kind == 'object': a = np.array(nested(L, float), dtype=object).reshape(L.shape); return a, None
    if kind == 'list': return nested(L, float), None
    if kind == 'tuple': return nested(L, float, tuple), None
    if kind == 'int_list': return nested(L, int), None
    if kind == 'masked_array': return np.ma.masked_array(L.copy(), M.copy()), None
    raise ValueError(kind)


def typed_seq(kind, xs):
    """pop_ids / comment_lines in another container"""
    if xs is None: return None
    if kind == 'list': return list(xs)
    if kind == 'tuple': return tuple(xs)
    if kind == 'np_str_array': return np.array(list(xs), dtype=str) if len(xs) else np.array([], dtype=str)
    if kind == 'np_object_array':
        a = np.empty(len(xs), dtype=object); a[:] = list(xs); return a
    if kind == 'list_of_np_str': return [np.str_(x) for x in xs]
    if kind == 'generator': return (x for x in list(xs))
    if kind == 'dict_keys': return dict((x, k) for k, x in enumerate(xs)).keys() if len(set(xs)) == len(xs) else list(xs)
    raise ValueError(kind)


def typed_precision(kind, p):
    if kind == 'int': return int(p)
    if kind == 'np_int64': return np.int64(p)
    if kind == 'np_int32': return np.int32(p)
    if kind == 'np_uint8': return np.uint8(p)
    if kind == 'float': return float(p)
    if kind == 'np_float64': return np.float64(p)
    if kind == 'arr0_int': return np.array(int(p))
    raise ValueError(kind)


class Name:
    """a file name in the spelling [kind]; `arg(mode)` is what the library is handed, `close()` afterwards"""
    def __init__(self, kind, path):
        self.kind, self.path, self.fid = kind, path, None
    def arg(self, mode):
        k = self.kind
        if k == 'str': return self.path
        if k == 'np_str': return np.str_(self.path)
        if k == 'pathlib': return pathlib.Path(self.path)
        if k == 'bytes': return self.path.encode()
        if k == 'fileobj':
            self.fid = gzip.open(self.path, mode + 't') if self.path.endswith('.gz') else open(self.path, mode)
            return self.fid
        raise ValueError(k)
    def close(self):
        if self.fid is not None:
            self.fid.close(); self.fid = None


def compact(rec, canon):
    """a record identical to the canonical variant's is sent as a reference to it"""
    if canon is not None and same_c(rec, canon):
        return {'same': True}
    return rec


def run_variant(v, grp, c, L, M, folded, labels, extrap, path, canon):
    """one spelling [v] (dimension -> kind; absent = canonical type) of the spectrum (L, M, folded, labels, extrap) and
    of the calls of the case, through every entry point in v['entries']"""
    kinds = v['kinds']
    out = {'vid': v['vid'], 'kinds': kinds}
    K = lambda dim, dflt: kinds.get(dim, dflt)
    try:
        darg, arr_plain = typed_data(K('data', 'float64'), L, M)
        fs = dadi.Spectrum(darg, typed_mask(K('mask', 'bool_array'), M), mask_corners=False, data_folded=typed_flag(K('flag', 'bool'), folded),
                           check_folding=False, pop_ids=typed_seq(K('pop_ids', 'list'), labels), extrap_x=extrap)
    except Exception as e:
        out['build_error'] = err(e)
        return out
    built = describe_c(fs)
    out['built'] = built
    comm = lambda: typed_seq(K('comments', 'list'), list(c['comments']))
    entries = v['entries']
    # ---- Spectrum.to_file / from_file
    if 'file' in entries:
        out['writes'] = []
        for k, cfg in enumerate(grp['configs']):
            w = {'cfg': cfg}
            f = path + '_%d%s' % (k, '.fs.gz' if cfg['gz'] else '.fs')
            nm = Name(K('fname', 'str'), f)
            try:
                if os.path.exists(f):
                    os.remove(f)
                fs.to_file(nm.arg('w'), precision=typed_precision(K('precision', 'int'), cfg['precision']), comment_lines=comm(),
                           foldmaskinfo=typed_truth(K('fmi', 'bool'), cfg['fmi']))
                nm.close()
                t = raw_text(f)
                if t == grp['refs']['file'][k]:
                    w['text_is_ref'] = True
                else:
                    w['text'] = t
            except Exception as e:
                nm.close()
                w.update(err(e))
            if 'error' not in w:
                nm = Name(K('fname', 'str'), f)
                try:
                    res = dadi.Spectrum.from_file(nm.arg('r'), mask_corners=typed_truth(K('mc', 'bool'), cfg['mc']),
                                                  return_comments=typed_truth(K('rc', 'bool'), True))
                    nm.close()
                    back, comments = res
                    r = describe_c(back); r['comments'] = list(comments)
                except Exception as e:
                    nm.close()
                    r = err(e)
                w['read'] = compact(r, canon['writes'][k].get('read') if canon and 'writes' in canon else None)
            out['writes'].append(w)
        out['unchanged_file'] = same_c(describe_c(fs), built)
    # ---- Numerics.array_to_file / array_from_file: the masked object, and the bare array in the type it was given in
    if 'array' in entries:
        out['array'] = {}
        for name, arr in (('masked', fs), ('plain', arr_plain if arr_plain is not None else fs.data)):
            a = {}
            f = path + '_%s.txt' % name
            nm = Name(K('fname', 'str'), f)
            try:
                if os.path.exists(f):
                    os.remove(f)
                Numerics.array_to_file(arr, nm.arg('w'), precision=typed_precision(K('precision', 'int'), c['precision']), comment_lines=comm())
                nm.close()
                t = raw_text(f)
                if t == grp['refs']['array'][name]:
                    a['text_is_ref'] = True
                else:
                    a['text'] = t
            except Exception as e:
                nm.close()
                a.update(err(e))
            if 'error' not in a:
                nm = Name(K('fname', 'str'), f)
                try:
                    back, comments = Numerics.array_from_file(nm.arg('r'), return_comments=typed_truth(K('rc', 'bool'), True))
                    nm.close()
                    r = {'shape': [int(n) for n in back.shape], 'data': fl(back), 'comments': list(comments), 'is_plain': type(back) is np.ndarray}
                except Exception as e:
                    nm.close()
                    r = err(e)
                a['read'] = compact(r, canon['array'][name].get('read') if canon and 'array' in canon else None)
            out['array'][name] = a
        out['unchanged_array'] = same_c(describe_c(fs), built)
    # ---- pickle
    if 'pickle' in entries:
        pk = {}
        try:
            func, args = copyreg.dispatch_table[dadi.Spectrum](fs)
            dat, msk, fol, pids, ex = args
            pk['args'] = {'data_ok': np.array_equal(bits(np.asarray(dat, float)), bits(L)) and list(np.shape(dat)) == list(L.shape),
                          'mask_ok': np.array_equal(np.broadcast_to(np.asarray(msk, bool), M.shape), M),
                          'flag': flag_obj(fol), 'pop_kind': seq_kind(pids), 'pop_ids': None if pids is None else [str(x) for x in pids],
                          'extrap_x': None if ex is None else float(ex)}
            pk['unpickled_args'] = describe_c(func(*args))
        except Exception as e:
            pk['reduce_error'] = err(e)
        pk['protocols'] = {}
        for proto in sorted({0, 2, pickle.HIGHEST_PROTOCOL}):
            try:
                r = describe_c(pickle.loads(pickle.dumps(fs, proto)))
            except Exception as e:
                r = err(e)
            pk['protocols'][str(proto)] = r
        try:
            pk['protocols']['deepcopy'] = describe_c(copy.deepcopy(fs))
        except Exception as e:
            pk['protocols']['deepcopy'] = err(e)
        if canon and 'pickle' in canon:
            cpk = canon['pickle']
            if 'unpickled_args' in pk and 'unpickled_args' in cpk:
                pk['unpickled_same'] = same_c(pk['unpickled_args'], cpk['unpickled_args'])
            for proto in list(pk['protocols']):
                r = pk['protocols'][proto]
                if 'error' not in r and same_c(r, cpk['protocols'].get(proto, {'error': 1})):
                    pk['protocols'][proto] = {'same': True, 'flag': r['flag'], 'pop_kind': r['pop_kind']}
        out['pickle'] = pk
        out['unchanged_pickle'] = same_c(describe_c(fs), built)
    if canon is not None:
        # the built object is sent in full only when it is not the canonical variant's
        if same_c(built, canon['built']) and built['data_dtype'] == canon['built']['data_dtype'] and built['mask_dtype'] == canon['built']['mask_dtype']:
            out['built'] = {'same': True, 'flag': built['flag'], 'pop_kind': built['pop_kind'], 'pop_items_are_str': built['pop_items_are_str']}
    return out


def do_types(c, fs0, d, base):
    T = c['types']
    L0 = np.array(fs0.data, dtype=float, order='C'); M = np.array(np.ma.getmaskarray(fs0), dtype=bool, order='C')
    folded = bool(fs0.folded); labels = None if fs0.pop_ids is None else list(fs0.pop_ids); extrap = fs0.extrap_x
    out = []
    for g, grp in enumerate(T['groups']):
        L = L0 if grp['data'] is None else np.array(grp['data'], dtype=float).reshape(L0.shape)
        res = {'content': grp['content'], 'variants': []}
        path = base + '_T%d' % g
        canon = run_variant({'vid': 'canonical', 'kinds': {}, 'entries': ['file', 'array', 'pickle']}, grp, c, L, M, folded, labels, extrap, path, None)
        res['canonical'] = canon
        if 'build_error' in canon:
            out.append(res); continue
        for v in grp['variants']:
            try:
                res['variants'].append(run_variant(v, grp, c, L, M, folded, labels, extrap, path, canon))
            except Exception as e:
                r = err(e); r['vid'] = v['vid']; r['kinds'] = v['kinds']; r['variant_driver_failed'] = True
                res['variants'].append(r)
        out.append(res)
    return out


def do_case(c, d):
    rec = {'id': c['id']}
    shape = c['shape']
    data = np.array(c['data'], dtype=float).reshape(shape)
    mask = np.array(c['mask'], dtype=bool).reshape(shape)
    fs = dadi.Spectrum(data, mask, mask_corners=False, data_folded=c['folded'], check_folding=False,
                       pop_ids=c['pop_ids'], extrap_x=c['extrap_x'])
    if c.get('via_fold'):
        fs = fs.fold()
    rec['orig'] = describe(fs)
    ext = '.fs.gz' if c['gz'] else '.fs'
    base = os.path.join(d, 'c%d' % c['id'])

    # ---- Spectrum.to_file
    f_own = base + '_own' + ext
    try:
        writer = fs.tofile if c.get('alias') else fs.to_file
        if c.get('defaults'):          # default precision / comments / foldmaskinfo
            writer(f_own)
        else:
            writer(f_own, precision=c['precision'], comment_lines=list(c['comments']), foldmaskinfo=c['fmi'])
        rec['write'] = {'text': raw_text(f_own)}
    except Exception as e:
        rec['write'] = err(e)
    # the spectrum must not have been changed by writing it
    rec['after_write'] = describe(fs)

    # ---- Spectrum.from_file on its own file
    if 'text' in rec['write']:
        rec['read_own'] = read_spectrum(f_own, c['mc'], alias=c.get('alias'))
    # ---- Spectrum.from_file on the model-written file (text supplied by the harness, certified by Coq)
    f_mir = base + '_model' + ext
    put_text(f_mir, c['mirror_text'])
    rec['read_model'] = read_spectrum(f_mir, c['mc'])
    # ---- hand-written pre-1.3 files
    rec['read_old'] = []
    for k, o in enumerate(c.get('old_files', [])):
        f_old = base + '_old%d.fs' % k
        put_text(f_old, o['text'])
        rec['read_old'].append(read_spectrum(f_old, o['mc']))

    # ---- pickle
    pk = reduce_record(fs)
    try:
        pk['deepcopy'] = describe(copy.deepcopy(fs))
    except Exception as e:
        pk['deepcopy'] = err(e)
    rec['pickle'] = pk

    # ---- Numerics.array_to_file / array_from_file
    ar = {}
    arr = fs if c.get('array_masked') else np.array(fs.data)
    f_arr = base + '_arr.txt'
    try:
        if c.get('array_fid'):
            with open(f_arr, 'w') as fid:
                Numerics.array_to_file(arr, fid, precision=c['precision'], comment_lines=list(c['comments']))
        else:
            Numerics.array_to_file(arr, f_arr, precision=c['precision'], comment_lines=list(c['comments']))
        ar['write'] = {'text': raw_text(f_arr)}
    except Exception as e:
        ar['write'] = err(e)

    def read_array(path, as_fid):
        try:
            if as_fid:
                with open(path, 'r') as fid:
                    a, comments = Numerics.array_from_file(fid, return_comments=True)
            else:
                a, comments = Numerics.array_from_file(path, return_comments=True)
            bare = Numerics.array_from_file(path)
            return {'shape': [int(n) for n in a.shape], 'data': fl(a), 'comments': list(comments),
                    'bare_ok': isinstance(bare, np.ndarray) and bare.shape == a.shape,
                    'is_plain': type(a) is np.ndarray}
        except Exception as e:
            return err(e)
    if 'text' in ar['write']:
        ar['read_own'] = read_array(f_arr, c.get('array_fid'))
        ar['spectrum_read'] = read_spectrum(f_arr, c['mc'])     # the generic file is a pre-1.3 spectrum file
    f_am = base + '_arr_model.txt'
    put_text(f_am, c['array_mirror_text'])
    ar['read_model'] = read_array(f_am, False)
    rec['array'] = ar

    # ---- the same spectrum in other memory layouts
    rec['layouts'] = []
    for lay in c.get('layouts', []):
        try:
            rec['layouts'].append(do_layout(lay, c, fs, d, base))
        except Exception as e:
            r = err(e); r['kind'] = lay['kind']; r['prm'] = lay['prm']; r['layout_driver_failed'] = True
            rec['layouts'].append(r)
    # ---- the same spectrum and calls spelled with other argument / attribute types
    if c.get('types'):
        try:
            rec['types'] = do_types(c, fs, d, base)
        except Exception as e:
            rec['types'] = err(e)
    return rec


def main():
    cases = json.load(sys.stdin)
    shm = '/dev/shm'
    d = tempfile.mkdtemp(prefix='c14_', dir=shm if os.path.isdir(shm) and os.access(shm, os.W_OK) else None)
    out = []
    try:
        for c in cases:
            try:
                out.append(do_case(c, d))
            except Exception as e:
                r = err(e); r['id'] = c['id']; r['driver_failed'] = True
                out.append(r)
    finally:
        shutil.rmtree(d, ignore_errors=True)
    print(json.dumps(out))


main()
