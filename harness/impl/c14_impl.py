"""C14 impl driver: runs the REAL dadi file / pickle code (overlay) on the generated cases.

For every case (JSON on stdin) it builds the spectrum through the public constructor, then
  * Spectrum.to_file / tofile  -> returns the exact text that landed in the file (gzip-decoded for .gz names)
  * Spectrum.from_file / fromfile on its own file, on the harness-supplied "model-written" file and on
    hand-written pre-1.3 files
  * pickle.dumps/loads for every protocol, and the copyreg reduce tuple
  * Numerics.array_to_file / array_from_file (file name and open file object), Spectrum.from_file on that file
Exceptions are reported per call, never swallowed.  Floats (inf/nan included) travel as JSON numbers.
"""
import sys, json, os, gzip, pickle, copyreg, copy, tempfile, shutil, logging, warnings
warnings.filterwarnings('ignore')
logging.disable(logging.CRITICAL)
import numpy as np
import dadi
from dadi import Numerics
np.seterr(all='ignore')


def fl(a):
    return [float(t) for t in np.asarray(a, dtype=float).ravel()]


def describe(fs):
    """everything the property talks about, of a Spectrum object"""
    return {'shape': [int(n) for n in fs.shape], 'data': fl(fs.data),
            'mask': [bool(t) for t in np.ma.getmaskarray(fs).ravel()],
            'folded': fs.folded if isinstance(fs.folded, bool) else repr(fs.folded),
            'pop_ids': None if fs.pop_ids is None else list(fs.pop_ids),
            'extrap_x': None if fs.extrap_x is None else float(fs.extrap_x),
            'is_spectrum': type(fs) is dadi.Spectrum}


def err(e):
    return {'error': type(e).__name__ + ': ' + str(e)[:200], 'etype': type(e).__name__}


def raw_text(path):
    if path.endswith('.gz'):
        with gzip.open(path, 'rb') as f:
            return f.read().decode('latin1')
    with open(path, 'rb') as f:
        return f.read().decode('latin1')


def put_text(path, text):
    """write text byte for byte (a .gz name gets a gzip container around the same bytes)"""
    if path.endswith('.gz'):
        with gzip.open(path, 'wb') as f:
            f.write(text.encode('latin1'))
    else:
        with open(path, 'wb') as f:
            f.write(text.encode('latin1'))


def read_spectrum(path, mc, alias=False):
    try:
        reader = dadi.Spectrum.fromfile if alias else dadi.Spectrum.from_file
        fs, comments = reader(path, mask_corners=mc, return_comments=True)
        r = describe(fs)
        r['comments'] = list(comments)
        # without return_comments the bare spectrum comes back
        fs2 = reader(path, mc)
        r['bare_ok'] = type(fs2) is dadi.Spectrum and fs2.shape == fs.shape
        return r
    except Exception as e:
        return err(e)


def do_case(c, d):
    rec = {'id': c['id']}
    shape = c['shape']
    data = np.array(c['data'], dtype=float).reshape(shape)
    mask = np.array(c['mask'], dtype=bool).reshape(shape)
    fs = dadi.Spectrum(data, mask, mask_corners=False, data_folded=c['folded'], check_folding=False,
                       pop_ids=c['pop_ids'], extrap_x=c['extrap_x'])
    if c.get('via_fold'):
        fs = fs.fold()
    rec['orig'] = describe(fs)
    ext = '.fs.gz' if c['gz'] else '.fs'
    base = os.path.join(d, 'c%d' % c['id'])

    # ---- Spectrum.to_file
    f_own = base + '_own' + ext
    try:
        writer = fs.tofile if c.get('alias') else fs.to_file
        if c.get('defaults'):          # default precision / comments / foldmaskinfo
            writer(f_own)
        else:
            writer(f_own, precision=c['precision'], comment_lines=list(c['comments']), foldmaskinfo=c['fmi'])
        rec['write'] = {'text': raw_text(f_own)}
    except Exception as e:
        rec['write'] = err(e)
    # the spectrum must not have been changed by writing it
    rec['after_write'] = describe(fs)

    # ---- Spectrum.from_file on its own file
    if 'text' in rec['write']:
        rec['read_own'] = read_spectrum(f_own, c['mc'], alias=c.get('alias'))
    # ---- Spectrum.from_file on the model-written file (text supplied by the harness, certified by Coq)
    f_mir = base + '_model' + ext
    put_text(f_mir, c['mirror_text'])
    rec['read_model'] = read_spectrum(f_mir, c['mc'])
    # ---- hand-written pre-1.3 files
    rec['read_old'] = []
    for k, o in enumerate(c.get('old_files', [])):
        f_old = base + '_old%d.fs' % k
        put_text(f_old, o['text'])
        rec['read_old'].append(read_spectrum(f_old, o['mc']))

    # ---- pickle
    pk = {}
    try:
        func, args = copyreg.dispatch_table[dadi.Spectrum](fs)
        pk['reduce_func'] = getattr(func, '__name__', repr(func))
        dat, msk, fol, pids, ex = args
        pk['args'] = {'data_shape': [int(n) for n in np.shape(dat)], 'data': fl(dat),
                      'mask_shape': [int(n) for n in np.shape(msk)], 'mask': [bool(t) for t in np.asarray(msk).ravel()],
                      'folded': fol if isinstance(fol, bool) else repr(fol),
                      'pop_ids': None if pids is None else list(pids),
                      'extrap_x': None if ex is None else float(ex)}
        pk['unpickled_args'] = describe(func(*args))
    except Exception as e:
        pk['reduce_error'] = err(e)
    pk['protocols'] = {}
    for proto in range(0, pickle.HIGHEST_PROTOCOL + 1):
        try:
            pk['protocols'][str(proto)] = describe(pickle.loads(pickle.dumps(fs, proto)))
        except Exception as e:
            pk['protocols'][str(proto)] = err(e)
    try:
        pk['deepcopy'] = describe(copy.deepcopy(fs))
    except Exception as e:
        pk['deepcopy'] = err(e)
    rec['pickle'] = pk

    # ---- Numerics.array_to_file / array_from_file
    ar = {}
    arr = fs if c.get('array_masked') else np.array(fs.data)
    f_arr = base + '_arr.txt'
    try:
        if c.get('array_fid'):
            with open(f_arr, 'w') as fid:
                Numerics.array_to_file(arr, fid, precision=c['precision'], comment_lines=list(c['comments']))
        else:
            Numerics.array_to_file(arr, f_arr, precision=c['precision'], comment_lines=list(c['comments']))
        ar['write'] = {'text': raw_text(f_arr)}
    except Exception as e:
        ar['write'] = err(e)

    def read_array(path, as_fid):
        try:
            if as_fid:
                with open(path, 'r') as fid:
                    a, comments = Numerics.array_from_file(fid, return_comments=True)
            else:
                a, comments = Numerics.array_from_file(path, return_comments=True)
            bare = Numerics.array_from_file(path)
            return {'shape': [int(n) for n in a.shape], 'data': fl(a), 'comments': list(comments),
                    'bare_ok': isinstance(bare, np.ndarray) and bare.shape == a.shape,
                    'is_plain': type(a) is np.ndarray}
        except Exception as e:
            return err(e)
    if 'text' in ar['write']:
        ar['read_own'] = read_array(f_arr, c.get('array_fid'))
        ar['spectrum_read'] = read_spectrum(f_arr, c['mc'])     # the generic file is a pre-1.3 spectrum file
    f_am = base + '_arr_model.txt'
    put_text(f_am, c['array_mirror_text'])
    ar['read_model'] = read_array(f_am, False)
    rec['array'] = ar
    return rec


def main():
    cases = json.load(sys.stdin)
    d = tempfile.mkdtemp(prefix='c14_')
    out = []
    try:
        for c in cases:
            try:
                out.append(do_case(c, d))
            except Exception as e:
                r = err(e); r['id'] = c['id']; r['driver_failed'] = True
                out.append(r)
    finally:
        shutil.rmtree(d, ignore_errors=True)
    print(json.dumps(out))


main()
