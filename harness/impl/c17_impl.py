"""Runs the REAL dadi.DFE code (overlay) for C17.  JSON request on stdin, JSON answer on the last stdout line.

modes
  scen : build Cache1D / Cache2D objects with cheap closed-form or real demographic functions and run a list of
         operations on them; every value the model needs is read back from the implementation objects
         (cached spectra, gammas) or recorded from its calls (pdf values on the grid, every scipy quad / dblquad
         call with its limits and result).
  mp   : cache generation with real multiprocessing (worker counts, split_jobs, merge subsets, raising workers).
  pdf  : compiled bivariate pdfs against the Python reference formulas, Lanczos gamma against scipy's.
"""
import sys, json, os, signal, warnings, logging, itertools, hashlib, io, contextlib, ctypes
warnings.filterwarnings('ignore')
import numpy as np
import scipy.integrate, scipy.special
import dadi
import dadi.DFE
from dadi.DFE import PDFs, DemogSelModels, Cache1D, Cache2D
from dadi.DFE import Cache2D_mod, Cache1D_mod
try:
    from dadi.DFE import Vourlaki2022
except Exception:      # pragma: no cover
    Vourlaki2022 = None
logging.getLogger('Numerics').setLevel(logging.ERROR)
np.seterr(all='ignore')

# ------------------------------------------------------------------------------------------------------------
# recording of oracle calls

class Rec:
    def __init__(self):
        self.pdf = []
        self.quad = []
    def take(self):
        p, q = self.pdf, self.quad
        self.pdf, self.quad = [], []
        return p, q
REC = Rec()

def fl(a):
    return [float(t) for t in np.asarray(a, dtype=float).ravel()]

def shifted_exponential(xx, params):
    """a density whose support [x0, inf) starts inside (or at a point of) the cached grid: exp(-(x-x0)/scale)/scale for x >= x0, else 0"""
    x0, scale = params[0], params[1]
    xx = np.asarray(xx, dtype=float)
    return np.where(xx >= x0, np.exp(-np.maximum(xx - x0, 0.0) / scale) / scale, 0.0)

CUSTOM_PDFS = {'shifted_exponential': shifted_exponential}

def real_pdf(name):
    return CUSTOM_PDFS[name] if name in CUSTOM_PDFS else getattr(PDFs, name)

def wrap_pdf(name):
    real = real_pdf(name)
    if name.startswith('biv_'):
        def f(xx, yy, params):
            out = real(xx, yy, params)
            if np.size(xx) > 1:
                REC.pdf.append({'pdf': name, 'xx': fl(xx), 'yy': fl(yy), 'params': fl(params),
                                'out': np.asarray(out, dtype=float).tolist()})
            return out
    else:
        def f(xx, params):
            out = real(xx, params)
            if np.size(xx) > 1:
                REC.pdf.append({'pdf': name, 'xx': fl(xx), 'params': fl(params), 'out': fl(out)})
            return out
    f.__name__ = name
    return f

_quad, _dblquad = scipy.integrate.quad, scipy.integrate.dblquad

def _desc_args(args):
    if isinstance(args, tuple) and len(args) == 2 and np.ndim(args[0]) == 0:
        return {'gamma': float(args[0]), 'params': fl(args[1])}
    if isinstance(args, tuple) and len(args) == 0:
        return {}
    if isinstance(args, (list, tuple)) and len(args) == 1 and np.ndim(args[0]) >= 1:
        return {'params': fl(args[0])}
    return {'params': fl(args)}

def quad_rec(func, a, b, args=(), **kw):
    r = _quad(func, a, b, args=args, **kw)
    REC.quad.append({'kind': 'quad', 'func': getattr(func, '__name__', '?'), 'a': float(a), 'b': float(b),
                     'args': _desc_args(args), 'val': float(r[0]), 'kw': {k: float(v) for k, v in kw.items()}})
    return r

def dblquad_rec(func, a, b, gfun, hfun, args=(), **kw):
    r = _dblquad(func, a, b, gfun, hfun, args=args, **kw)
    g = gfun(0.0) if callable(gfun) else gfun
    h = hfun(0.0) if callable(hfun) else hfun
    REC.quad.append({'kind': 'dblquad', 'func': getattr(func, '__name__', '?'), 'a': float(a), 'b': float(b),
                     'g': float(g), 'h': float(h), 'args': _desc_args(args), 'val': float(r[0]),
                     'kw': {k: float(v) for k, v in kw.items()}})
    return r

scipy.integrate.quad = quad_rec
scipy.integrate.dblquad = dblquad_rec

# ------------------------------------------------------------------------------------------------------------
# demographic functions

class Boom(Exception):
    pass

def make_demog(d):
    """d: {'kind': 'cheap'|'const'|'equil'|'split', 'c': [c1..c5], 'raise_at': [gamma-tuple,...]}"""
    kind = d['kind']
    c = d.get('c', [0.25, 0.125, 0.5, 1.0, 0.0625])
    raise_at = [tuple(r) for r in d.get('raise_at', [])]
    die_at = [tuple(r) for r in d.get('die_at', [])]
    slow_first = d.get('slow_first', 0.0)      # seconds the most deleterious job takes (so that completions arrive out of order)
    ngam = d.get('ngam', 1)

    def shape_arr(ns):
        if len(ns) == 1:
            return np.arange(ns[0] + 1, dtype=float)
        return np.add.outer(np.arange(ns[0] + 1, dtype=float), 0.5 * np.arange(ns[1] + 1, dtype=float))

    def func(params, ns, pts):
        gs = tuple(float(g) for g in params[-ngam:])
        if gs in raise_at:
            raise Boom('worker failure at gamma=%r' % (gs,))
        if gs in die_at:
            os._exit(3)
        if slow_first and pts == max(d.get('pts_list', [pts])) and all(g == d.get('slow_gamma') for g in gs):
            import time
            time.sleep(slow_first)
        if kind == 'equil':
            return DemogSelModels.equil([gs[0]], ns, pts)
        if kind == 'split':       # real two-population model with one or two gammas
            if ngam == 1:
                return DemogSelModels.split_mig_sel_single_gamma(list(d['dparams']) + [gs[0]], ns, pts)
            return DemogSelModels.split_mig_sel(list(d['dparams']) + [gs[0], gs[1]], ns, pts)
        a = shape_arr(ns)
        if kind == 'const':
            val = (1.0 + c[0] * a)
        else:
            g1 = abs(gs[0]); g2 = abs(gs[-1])
            pos = 1.0 if gs[0] > 0 else 0.0
            val = (1.0 + c[0] * a) / (1.0 + c[1] * g1 + c[2] * c[1] * g2) + c[3] * a / (1.0 + g1 * g2 + g1) + pos * c[4] * (1 + a)
        val = val + c[4] / pts
        fs = dadi.Spectrum(val)
        fs.extrap_x = 1.0 / pts
        return fs
    func.__name__ = 'demog_' + kind
    return func

class Timeout(Exception):
    pass

def _alarm(signum, frame):
    raise Timeout('build exceeded the time limit')

def with_alarm(secs, thunk):
    old = signal.signal(signal.SIGALRM, _alarm)
    signal.alarm(int(secs))
    try:
        return thunk()
    finally:
        signal.alarm(0)
        signal.signal(signal.SIGALRM, old)

def quiet(thunk):
    """worker tracebacks go to stderr/stdout of the children: keep our stdout clean"""
    return thunk()

# ------------------------------------------------------------------------------------------------------------
# scenarios

def arr_entries(a):
    return np.asarray(getattr(a, 'data', a), dtype=float)

def cache1_state(s1):
    sp = np.asarray(s1.spectra, dtype=float)
    return {'gammas': fl(s1.gammas), 'neg': fl(s1.neg_gammas),
            'spectra': [fl(x) for x in sp], 'neu': fl(arr_entries(s1.neu_spec)),
            'shape': list(sp.shape[1:])}

def cache2_state(s2):
    sp = np.asarray(s2.spectra, dtype=float)
    return {'gammas': fl(s2.gammas), 'neg': fl(s2.neg_gammas),
            'spectra': [[fl(x) for x in row] for row in sp], 'shape': list(sp.shape[2:])}

def result_rec(res):
    out = {}
    if isinstance(res, np.ma.MaskedArray):
        out['mask'] = [bool(t) for t in np.ma.getmaskarray(res).ravel()]
        data = np.asarray(res.data, dtype=float).ravel()
    else:
        data = np.asarray(res, dtype=float).ravel()
        out['mask'] = [False] * data.size
    out['finite'] = bool(np.all(np.isfinite(data[~np.array(out['mask'])])))
    out['res'] = [float(t) if np.isfinite(t) else None for t in data]
    out['shape'] = list(np.shape(res))
    out['is_spectrum'] = isinstance(res, dadi.Spectrum)
    return out

INF = float('inf')

def ref_tails1(pdfq, s1, s2):
    """independent reference for the 1-D tails: for every (1-D pdf, parameter vector) the operation evaluated or integrated, the pdf on the grid
    of EACH cache of the scenario and scipy's quad (the untouched one) over that grid's documented regions (0, -neg[-1]) and (-neg[0], inf)"""
    keys = []
    for r in pdfq[0]:
        if 'yy' not in r and (r['pdf'], r['params']) not in keys:
            keys.append((r['pdf'], r['params']))
    for r in pdfq[1]:
        if r['kind'] == 'quad' and not r['func'].startswith('biv_') and r['func'] != '<lambda>' and 'params' in r['args']:
            if (r['func'], r['args']['params']) not in keys:
                keys.append((r['func'], r['args']['params']))
    out = []
    for name, params in keys:
        try:
            f = real_pdf(name)
        except AttributeError:
            continue
        ent = {'func': name, 'params': params}
        for tag, c in (('s1', s1), ('s2', s2)):
            if c is None:
                continue
            neg = np.asarray(c.neg_gammas, dtype=float)
            hi, lo = float(-neg[-1]), float(-neg[0])
            try:
                ent[tag] = {'neu_lim': [0.0, hi], 'neu': float(_quad(f, 0, hi, args=list(params))[0]),
                            'del_lim': [lo, INF], 'del': float(_quad(f, lo, np.inf, args=list(params))[0]),
                            'w': fl(f(-neg, list(params)))}
            except Exception as e:
                ent[tag] = {'error': type(e).__name__ + ': ' + str(e)[:200]}
        out.append(ent)
    return out

def ref_tails2(quads, s2):
    """when a 2-D edge / corner integral of the operation was NOT taken over a documented region of s2's grid: the integrals over the
    documented regions, per bivariate pdf and parameter vector (all four edge families and the three corners), computed independently"""
    if s2 is None:
        return None
    neg = np.asarray(s2.neg_gammas, dtype=float)
    mx, mn = float(-neg[-1]), float(-neg[0])
    grid = set(float(g) for g in -neg)
    bad = False
    keys = []
    for r in quads:
        if r['kind'] == 'quad' and (r['func'].startswith('biv_') or r['func'] == '<lambda>'):
            if (r['a'], r['b']) not in ((mn, INF), (0.0, mx)) or ('gamma' in r['args'] and r['args']['gamma'] not in grid):
                bad = True
            if r['func'].startswith('biv_') and (r['func'], r['args'].get('params')) not in keys:
                keys.append((r['func'], r['args'].get('params')))
        elif r['kind'] == 'dblquad':
            if (r['a'], r['b'], r['g'], r['h']) not in ((0.0, mx, 0.0, mx), (0.0, mx, mn, INF), (mn, INF, 0.0, mx)):
                bad = True
    if not bad:
        return None
    out = []
    kw = dict(epsabs=1e-4, epsrel=1e-3)
    for name, params in keys:
        f = getattr(PDFs, name); p = np.array(params)
        blk = {'func': name, 'params': params, 'q1low': [], 'q1high': [], 'q2low': [], 'q2high': []}
        for g in -neg:
            blk['q1low'].append(float(_quad(f, mn, np.inf, args=(g, p), **kw)[0]))
            blk['q1high'].append(float(_quad(f, 0, mx, args=(g, p), **kw)[0]))
            m2 = lambda g2: f(g, g2, p)
            blk['q2low'].append(float(_quad(m2, mn, np.inf, **kw)[0]))
            blk['q2high'].append(float(_quad(m2, 0, mx, **kw)[0]))
        blk['dbl'] = [float(_dblquad(f, 0, mx, lambda _: 0, lambda _: mx, args=[p], **kw)[0]),
                      float(_dblquad(f, 0, mx, lambda _: mn, lambda _: np.inf, args=[p], **kw)[0]),
                      float(_dblquad(f, mn, np.inf, lambda _: 0, lambda _: mx, args=[p], **kw)[0])]
        out.append(blk)
    return out

def run_op(op, s1, s2, demog1):
    kind = op['op']
    theta = op.get('theta', 1.0)
    params = op.get('params')
    ext = op.get('ext', True)
    p1 = wrap_pdf(op['pdf1']) if op.get('pdf1') else None
    p2 = wrap_pdf(op['pdf2']) if op.get('pdf2') else None
    if kind == 'int1':
        if op.get('ext_default'):
            return s1.integrate(params, None, p1, theta)
        return s1.integrate(params, None, p1, theta, None, exterior_int=ext)
    if kind == 'pp1':
        dem = demog1 if op.get('demo') else None
        kw = {}
        if not ext:
            kw['exterior_int'] = False
        return s1.integrate_point_pos(params, None, p1, theta, dem, op.get('npos', 1), **kw)
    if kind == 'int2':
        return s2.integrate(params, None, p2, theta, None, exterior_int=ext)
    if kind == 'pp2':
        if 'rho' in op:
            return s2.integrate_point_pos(params, None, p2, theta, rho=op['rho'])
        return s2.integrate_point_pos(params, None, p2, theta)
    if kind == 'sympp2':
        return s2.integrate_symmetric_point_pos(params, None, p2, theta)
    if kind == 'mix':
        return Cache2D_mod.mixture(params, None, s1, s2, p1, p2, theta, None, exterior_int=ext)
    if kind == 'mixsym':
        return Cache2D_mod.mixture_symmetric_point_pos(params, None, s1, s2, p1, p2, theta, None)
    if kind == 'mixpp':
        return Cache2D_mod.mixture_point_pos(params, None, s1, s2, p1, p2, theta, None)
    if kind == 'vourlaki':
        # Vourlaki_mixture names PDFs.gamma / PDFs.biv_ind_gamma itself: record through the module attributes
        import dadi.DFE.Vourlaki2022 as V
        og, ob = V.PDFs.gamma, V.PDFs.biv_ind_gamma
        V.PDFs.gamma, V.PDFs.biv_ind_gamma = wrap_pdf('gamma'), wrap_pdf('biv_ind_gamma')
        try:
            return V.Vourlaki_mixture(params, None, s1, s2, theta, None)
        finally:
            V.PDFs.gamma, V.PDFs.biv_ind_gamma = og, ob
    raise ValueError('unknown op ' + kind)

def run_scenario(sc):
    out = {'id': sc['id']}
    ckw = dict(gamma_bounds=tuple(sc['gamma_bounds']), gamma_pts=sc['gamma_pts'],
               additional_gammas=list(sc.get('additional_gammas', [])), cpus=1)
    s1 = s2 = None
    demog1 = demog2 = None
    try:
        if sc.get('c1'):
            d = dict(sc['c1']); d['ngam'] = 1
            demog1 = make_demog(d)
            s1 = Cache1D(list(sc.get('dparams1', [])), sc['ns'], demog1, sc['pts'], **ckw)
            out['c1'] = cache1_state(s1)
        if sc.get('c2'):
            d = dict(sc['c2']); d['ngam'] = 2
            demog2 = make_demog(d)
            kw2 = dict(ckw)
            if 'gamma_pts2' in sc:
                kw2['gamma_pts'] = sc['gamma_pts2']
            if 'gamma_bounds2' in sc:
                kw2['gamma_bounds'] = tuple(sc['gamma_bounds2'])
            s2 = Cache2D(list(sc.get('dparams2', [])), sc['ns'], demog2, sc['pts'], **kw2)
            out['c2'] = cache2_state(s2)
    except Exception as e:
        out['build_error'] = type(e).__name__ + ': ' + str(e)[:300]
        return out
    REC.take()
    ops = []
    for op in sc['ops']:
        rec = {'op': op}
        if op.get('fresh') and s1 is not None:
            s1 = Cache1D(list(sc.get('dparams1', [])), sc['ns'], demog1, sc['pts'], **ckw)
        if op['op'] in ('pp1', 'mixsym', 'mixpp') and s1 is not None:
            rec['before1'] = cache1_state(s1)
        if op['op'] == 'pp1' and op.get('demo'):
            # the spectrum the demographic function (after make_extrap_func) yields for every requested gammapos
            ex = dadi.Numerics.make_extrap_func(demog1)
            npos = op.get('npos', 1)
            gl = op['params'][-2 * npos + 1::2]
            rec['demo_table'] = [[float(g), fl(arr_entries(ex(tuple(sc.get('dparams1', [])) + (g,), sc['ns'], sc['pts'])))] for g in gl]
        try:
            res = run_op(op, s1, s2, demog1)
            rec.update(result_rec(res))
        except Exception as e:
            rec['error'] = type(e).__name__ + ': ' + str(e)[:300]
        rec['pdf'], rec['quad'] = REC.take()
        try:
            rec['ref1'] = ref_tails1((rec['pdf'], rec['quad']), s1, s2)
            r2 = ref_tails2(rec['quad'], s2)
            if r2 is not None:
                rec['ref_tl2'] = r2
        except Exception as e:
            rec['ref_error'] = type(e).__name__ + ': ' + str(e)[:300]
        if op['op'] in ('pp1',) and s1 is not None:
            rec['after1'] = cache1_state(s1)
        ops.append(rec)
    out['ops'] = ops
    return out

# ------------------------------------------------------------------------------------------------------------
# multiprocessing

def label(a):
    if a is None:
        return None
    b = np.ascontiguousarray(np.asarray(getattr(a, 'data', a), dtype=float))
    return hashlib.md5(b.tobytes()).hexdigest()[:12]

def labels2(spectra):
    return [[label(x) for x in row] for row in spectra]

def run_mp(req):
    tl = req.get('time_limit', 60)
    out = {'builds1': [], 'builds2': [], 'merges': [], 'raising': []}
    base = dict(req['base'])
    ckw = dict(gamma_bounds=tuple(base['gamma_bounds']), gamma_pts=base['gamma_pts'],
               additional_gammas=list(base.get('additional_gammas', [])))
    ckw2 = dict(ckw); ckw2['gamma_pts'] = base.get('gamma_pts2', base['gamma_pts'])
    d1 = dict(base['demog']); d1['ngam'] = 1
    d2 = dict(base['demog']); d2['ngam'] = 2
    # the first job (most deleterious gamma) is slow: with >= 2 workers its result arrives after later jobs'
    g0 = float(-np.logspace(np.log10(base['gamma_bounds'][1]), np.log10(base['gamma_bounds'][0]), base['gamma_pts'])[0])
    for dd in (d1, d2):
        dd['slow_first'] = base.get('slow_first', 0.05); dd['slow_gamma'] = g0; dd['pts_list'] = list(base['pts'])
    f1, f2 = make_demog(d1), make_demog(d2)
    ns1, ns2, pts = base['ns1'], base['ns2'], base['pts']

    def build1(cpus, fn=None):
        return with_alarm(tl, lambda: Cache1D([], ns1, fn or f1, pts, cpus=cpus, **ckw))
    def build2(cpus, s=1, i=0, fn=None):
        return with_alarm(tl, lambda: Cache2D([], ns2, fn or f2, pts, cpus=cpus, split_jobs=s, this_job_id=i, **ckw2))

    ref1 = build1(1)
    ref2 = build2(1)
    out['ref1'] = {'gammas': fl(ref1.gammas), 'labels': [label(x) for x in ref1.spectra], 'neu': label(ref1.neu_spec)}
    out['ref2'] = {'gammas': fl(ref2.gammas), 'labels': labels2(ref2.spectra)}
    # direct evaluation of the function on every gamma: the cache must be map f gammas
    ex1 = dadi.Numerics.make_extrap_func(f1)
    out['direct1'] = [label(ex1((g,), ns1, pts)) for g in ref1.gammas]
    ex2 = dadi.Numerics.make_extrap_func(f2)
    out['direct2'] = [[label(ex2((g, h), ns2, pts)) for h in ref2.gammas] for g in ref2.gammas]

    for k in req.get('workers', []):
        rec = {'cpus': k}
        try:
            c = build1(k)
            rec['labels'] = [label(x) for x in c.spectra]
            rec['is_array'] = isinstance(c.spectra, np.ndarray)
            rec['equal'] = bool(np.array_equal(np.asarray(c.spectra), np.asarray(ref1.spectra)))
        except BaseException as e:
            rec['error'] = type(e).__name__ + ': ' + str(e)[:200]
        out['builds1'].append(rec)
    split_caches = {}
    for k, s in req.get('splits', []):
        for i in range(s):
            rec = {'cpus': k, 'split': s, 'id': i}
            try:
                c = build2(k, s, i)
                rec['labels'] = labels2(c.spectra)
                rec['is_array'] = isinstance(c.spectra, np.ndarray)
                split_caches[(k, s, i)] = c
            except BaseException as e:
                rec['error'] = type(e).__name__ + ': ' + str(e)[:200]
            out['builds2'].append(rec)
        if all((k, s, i) in split_caches for i in range(s)):
            rec = {'cpus': k, 'split': s, 'merge_all': True}
            try:
                m = Cache2D.merge([split_caches[(k, s, i)] for i in range(s)])
                rec['labels'] = labels2(m.spectra)
                rec['is_array'] = isinstance(m.spectra, np.ndarray)
                rec['equal'] = bool(np.array_equal(np.asarray(m.spectra), np.asarray(ref2.spectra)))
            except BaseException as e:
                rec['error'] = type(e).__name__ + ': ' + str(e)[:200]
            out['builds2'].append(rec)
    # merges of arbitrary lists of split caches (single-process ones): [(s, [ids in order], conflict_at or None)]
    single = {}
    for s, ids, conflict in req.get('merges', []):
        for i in set(ids):
            if (s, i) not in single:
                single[(s, i)] = build2(1, s, i)
        lst = [single[(s, i)] for i in ids]
        rec = {'split': s, 'ids': ids, 'conflict': conflict}
        if conflict is not None:
            import copy
            pos, (ii, jj) = conflict
            c = copy.deepcopy(lst[pos])
            if c.spectra[ii][jj] is not None:
                c.spectra[ii][jj] = c.spectra[ii][jj] + 1.0
            lst = list(lst); lst[pos] = c
        rec['inputs'] = [labels2(c.spectra) for c in lst]
        try:
            m = Cache2D.merge(lst)
            rec['labels'] = labels2(m.spectra)
            rec['equal'] = bool(np.array_equal(np.asarray(m.spectra), np.asarray(ref2.spectra)))
            # the inputs must not have been modified
            rec['inputs_after'] = [labels2(c.spectra) for c in lst]
        except ValueError as e:
            rec['error'] = 'ValueError: ' + str(e)[:200]
        except BaseException as e:
            rec['error'] = type(e).__name__ + ': ' + str(e)[:200]
        out['merges'].append(rec)
    # observation: two split jobs that together cover every index but were built on different gamma grids
    if req.get('merges'):
        try:
            gb = tuple(base['gamma_bounds']); gb2 = (gb[0] * 4.0, gb[1] / 2.0)
            ca = Cache2D([], ns2, f2, pts, cpus=1, split_jobs=2, this_job_id=0, **ckw2)
            kw = dict(ckw2); kw['gamma_bounds'] = gb2
            cb = Cache2D([], ns2, f2, pts, cpus=1, split_jobs=2, this_job_id=1, **kw)
            try:
                m = Cache2D.merge([ca, cb])
                same = bool(np.array_equal(np.asarray(m.spectra), np.asarray(ref2.spectra)))
                out['cross_grid_merge'] = {'bounds': [list(gb), list(gb2)], 'outcome': 'absorbed',
                                           'detail': 'merged without an error; result %s the single-process cache on the first grid' % ('equals' if same else 'differs from')}
            except ValueError as e:
                out['cross_grid_merge'] = {'bounds': [list(gb), list(gb2)], 'outcome': 'reported', 'detail': 'ValueError: ' + str(e)[:120]}
        except BaseException as e:
            out['cross_grid_merge'] = {'bounds': [], 'outcome': 'probe failed', 'detail': type(e).__name__ + ': ' + str(e)[:120]}
    # raising workers
    for dim, k, idx in req.get('raising', []):
        rec = {'dim': dim, 'cpus': k, 'index': idx}
        try:
            with contextlib.redirect_stderr(io.StringIO()):
                if dim == 1:
                    g = float(ref1.gammas[idx])
                    dd = dict(d1); dd['raise_at'] = [(g,)]
                    c = build1(k, make_demog(dd))
                else:
                    n = len(ref2.gammas)
                    g = (float(ref2.gammas[idx // n]), float(ref2.gammas[idx % n]))
                    dd = dict(d2); dd['raise_at'] = [g]
                    c = build2(k, fn=make_demog(dd))
            rec['surfaced'] = False
            sp = c.spectra
            rec['note'] = 'constructor returned; spectra type %s' % type(sp).__name__
        except Timeout as e:
            rec['surfaced'] = False
            rec['note'] = 'hang: ' + str(e)
        except BaseException as e:
            rec['surfaced'] = True
            rec['error'] = type(e).__name__ + ': ' + str(e)[:200]
        out['raising'].append(rec)
    return out

# ------------------------------------------------------------------------------------------------------------
# pdfs

def run_pdf(req):
    out = {'cases': [], 'gamma': []}
    for c in req['cases']:
        xx = np.array(c['xx'], dtype=float); yy = np.array(c['yy'], dtype=float)
        rec = {'id': c['id']}
        try:
            cf = getattr(PDFs, c['pdf'])(xx, yy, c['params'])
            pf = getattr(PDFs, c['pdf'] + '_py')(xx, yy, c['params'])
            rec['c'] = np.asarray(cf, dtype=float).tolist()
            rec['py'] = np.asarray(pf, dtype=float).tolist()
        except Exception as e:
            rec['error'] = type(e).__name__ + ': ' + str(e)[:200]
        out['cases'].append(rec)
    lib = None
    p = os.path.join(os.environ.get('DADI_OVERLAY', ''), 'libdadi_pdfs.so')
    if os.path.exists(p):
        lib = ctypes.CDLL(p)
        lib.gamma_func.restype = ctypes.c_double
        lib.gamma_func.argtypes = [ctypes.c_double]
        for z in req.get('gamma', []):
            out['gamma'].append([z, float(lib.gamma_func(z)), float(scipy.special.gamma(z))])
    out['have_lib'] = lib is not None
    return out

def main():
    req = json.load(sys.stdin)
    mode = req['mode']
    # everything the real code prints (verbose, tracebacks of workers) must not pollute the JSON line
    real_stdout = sys.stdout
    sys.stdout = sys.stderr
    if mode == 'scen':
        out = [run_scenario(s) for s in req['scenarios']]
    elif mode == 'mp':
        out = run_mp(req)
    elif mode == 'pdf':
        out = run_pdf(req)
    else:
        raise SystemExit('unknown mode')
    sys.stdout = real_stdout
    print(json.dumps(out))

if __name__ == '__main__':
    main()
