"""C18 stream 'types': the REAL dadi.LowPass.LowPass code on the SAME logical inputs in every spelling
(argument type / container / memory layout) listed in harness/props/c18_types.py.

kinds:
  ltypes : make_low_pass_func_GATK_multisample -- one canonical call (exactly what c18_impl.lowpass does) and one call per
           variant {'vid', 'arg', 'sp'}: `arg` names the argument that is spelled differently, `sp` the spelling.
  htypes : the helpers, each called canonically and once per variant {'vid', 'fn', 'arg', 'sp'}.
Per variant the record has the outputs (or 'error'), the memory layout actually realised, and `changed`: the list of the
caller's objects whose content / layout / type differ after the call from a snapshot taken before it.
numpy's global RNG and LowPass.rng are re-seeded with the case seed before EVERY call, so that the simulated arrays of a
variant are comparable with the canonical ones.
"""
import sys, json, warnings, collections
warnings.filterwarnings('ignore')
import numpy as np
import dadi
from dadi.LowPass import LowPass as LP
np.seterr(all='ignore')

class Rejected(Exception):
    """the spelling cannot express this logical input (e.g. float32 of a non-representable number)"""

def fl(a):
    return [float(t) for t in np.asarray(a, dtype=float).ravel()]

def reseed(seed):
    np.random.seed(seed)
    LP.rng = np.random.default_rng(seed)

# ---------------------------------------------------------------------------------------------------------------
# spellings

def sp_int(n, sp):
    n = int(n)
    if sp == 'int':
        return n
    if sp in ('np_int64', 'np_int32', 'np_int16', 'np_int8', 'np_uint8', 'np_uint64', 'np_intp'):
        return getattr(np, sp[3:])(n)
    if sp == 'float':
        return float(n)
    if sp == 'np_float64':
        return np.float64(n)
    if sp == 'np_float32':
        return np.float32(n)
    if sp == '0d_int':
        return np.array(n)
    if sp == '0d_float':
        return np.array(float(n))
    if sp == 'bool':
        if n not in (0, 1):
            raise Rejected('not 0/1')
        return bool(n)
    raise KeyError(sp)

def sp_float(x, sp):
    x = float(x)
    if sp == 'float':
        return x
    if sp in ('int', 'np_int64', 'bool', 'np_bool', '0d_int'):
        if x != int(x) or (sp in ('bool', 'np_bool') and x not in (0.0, 1.0)):
            raise Rejected('not integral')
        return {'int': int, 'np_int64': np.int64, 'bool': bool, 'np_bool': np.bool_, '0d_int': lambda t: np.array(int(t))}[sp](int(x))
    if sp in ('np_float64', 'np_float32', 'np_float16', 'np_longdouble'):
        v = getattr(np, sp[3:])(x)
        if float(v) != x:
            raise Rejected('not representable')
        return v
    if sp == '0d':
        return np.array(x)
    if sp == '0d_f32':
        v = np.array(x, dtype=np.float32)
        if float(v) != x:
            raise Rejected('not representable')
        return v
    raise KeyError(sp)

def strided(a, neg=False):
    """a view with doubled (or negative) strides holding the values of a"""
    a = np.asarray(a)
    if neg:
        big = np.ascontiguousarray(a[(slice(None, None, -1),) * a.ndim])
        return big[(slice(None, None, -1),) * a.ndim]
    big = np.full([2 * s for s in a.shape], -7, dtype=a.dtype)
    big[(slice(None, None, 2),) * a.ndim] = a
    return big[(slice(None, None, 2),) * a.ndim]

def sp_intseq(vals, sp):
    vals = [int(v) for v in vals]
    if sp == 'list':
        return list(vals)
    if sp == 'tuple':
        return tuple(vals)
    if sp == 'ndarray':
        return np.array(vals, dtype=np.int64)
    if sp == 'ndarray_int32':
        return np.array(vals, dtype=np.int32)
    if sp == 'ndarray_uint8':
        return np.array(vals, dtype=np.uint8)
    if sp == 'ndarray_float':
        return np.array(vals, dtype=float)
    if sp == 'ndarray_strided':
        return strided(np.array(vals, dtype=np.int64))
    if sp == 'ndarray_neg':
        return strided(np.array(vals, dtype=np.int64), neg=True)
    if sp == 'list_np_int64':
        return [np.int64(v) for v in vals]
    if sp == 'list_np_int32':
        return [np.int32(v) for v in vals]
    if sp == 'list_float':
        return [float(v) for v in vals]
    if sp == 'list_0d':
        return [np.array(v) for v in vals]
    raise KeyError(sp)

def sp_floatseq(vals, sp):
    vals = [float(v) for v in vals]
    if sp == 'none':
        if any(vals):
            raise Rejected('not all zero')
        return None
    if sp == 'list':
        return list(vals)
    if sp == 'tuple':
        return tuple(vals)
    if sp in ('ndarray', 'ndarray_f32', 'ndarray_strided', 'ndarray_neg'):
        a = np.array(vals, dtype=np.float32 if sp == 'ndarray_f32' else float)
        if [float(t) for t in a] != vals:
            raise Rejected('not representable')
        return strided(a) if sp == 'ndarray_strided' else strided(a, True) if sp == 'ndarray_neg' else a
    if sp in ('list_int', 'ndarray_int', 'list_bool'):
        if any(v != int(v) for v in vals) or (sp == 'list_bool' and any(v not in (0.0, 1.0) for v in vals)):
            raise Rejected('not integral')
        return [int(v) for v in vals] if sp == 'list_int' else [bool(v) for v in vals] if sp == 'list_bool' else np.array(vals, dtype=np.int64)
    if sp.startswith('list_'):
        return [sp_float(v, sp[5:]) for v in vals]
    raise KeyError(sp)

def sp_cov1(probs, sp):
    """coverage distribution of one population: canonical numpy.array([arange(D+1), probabilities])"""
    probs = [float(p) for p in probs]
    D1 = len(probs)
    canon = np.array([np.arange(D1), np.array(probs, dtype=float)])
    if sp == 'f64':
        return canon
    if sp == 'list_of_lists':
        return [list(range(D1)), list(probs)]
    if sp == 'list_of_float_lists':
        return [[float(i) for i in range(D1)], list(probs)]
    if sp == 'list_of_arrays':
        return [np.arange(D1), np.array(probs, dtype=float)]
    if sp == 'tuple_of_arrays':
        return (np.arange(D1), np.array(probs, dtype=float))
    if sp == 'F_order':
        return np.asfortranarray(canon)
    if sp == 'transposed':
        return np.ascontiguousarray(canon.T).T
    if sp == 'strided':
        return strided(canon)
    if sp == 'neg':
        return strided(canon, neg=True)
    if sp == 'cols_strided':
        big = np.full((2, 3 * D1), -7.0); big[:, ::3] = canon
        return big[:, ::3]
    if sp in ('f32', 'longdouble', 'f16'):
        a = canon.astype({'f32': np.float32, 'longdouble': np.longdouble, 'f16': np.float16}[sp])
        if not np.array_equal(a.astype(float), canon):
            raise Rejected('not representable')
        return a
    if sp == 'readonly':
        a = canon.copy(); a.flags.writeable = False
        return a
    if sp == 'object':
        return np.array([list(range(D1)), list(probs)], dtype=object)
    if sp == 'masked':
        return np.ma.masked_array(canon.copy(), mask=np.zeros(canon.shape, dtype=bool))
    if sp == 'compute_cov_dist':
        # the documented way: LowPass.compute_cov_dist on a data dictionary whose depth histogram is `probs`
        den = 1
        while any((p * den) != int(p * den) for p in probs):
            den *= 2
            if den > 2 ** 14:
                raise Rejected('not a small dyadic distribution')
        if probs[-1] == 0:
            raise Rejected('largest depth has probability 0: compute_cov_dist builds a shorter array')
        depths = [dp for dp, p in enumerate(probs) for _ in range(int(p * den))]
        dd = {('chr', i): {'coverage': {'q': np.array([dp])}} for i, dp in enumerate(depths)}
        out = LP.compute_cov_dist(dd, ['q'])['q']
        if not np.array_equal(np.asarray(out, dtype=float), canon):
            raise Rejected('compute_cov_dist gives another array')
        return out
    raise KeyError(sp)

def sp_covdict(ids, covs, sp):
    """the cov_dist dictionary; sp = '<dict spelling>' or 'each:<array spelling>'"""
    if sp.startswith('each:'):
        return {i: sp_cov1(c, sp[5:]) for i, c in zip(ids, covs)}
    arrs = [sp_cov1(c, 'f64') for c in covs]
    if sp == 'dict':
        return dict(zip(ids, arrs))
    if sp == 'ordered_dict':
        return collections.OrderedDict(zip(ids, arrs))
    if sp == 'int_keys':
        return dict(zip(range(len(ids)), arrs))
    if sp == 'shared_object':
        if any(list(c) != list(covs[0]) for c in covs):
            raise Rejected('populations have different coverage distributions')
        return {i: arrs[0] for i in ids}
    if sp == 'mixed':
        kinds = ['list_of_arrays', 'F_order', 'strided']
        return {i: sp_cov1(c, kinds[k % 3]) for k, (i, c) in enumerate(zip(ids, covs))}
    raise KeyError(sp)

def corner_free(arr):
    a = np.array(arr, dtype=float)
    a[(0,) * a.ndim] = 0.0
    a[(-1,) * a.ndim] = 0.0
    return a

def sp_model(arr, ids, sp):
    """the Spectrum the demographic function hands back; canonical dadi.Spectrum(arr.copy(), pop_ids=ids)"""
    d = arr.ndim
    rev = tuple(range(d - 1, -1, -1))
    def fin(fs):
        fs.pop_ids = list(ids); fs.extrap_x = 0.125
        return fs
    if sp == 'spectrum':
        return fin(dadi.Spectrum(arr.copy(), pop_ids=list(ids)))
    if sp == 'F_order':
        return fin(dadi.Spectrum(np.asfortranarray(arr), pop_ids=list(ids)))
    if sp == 'F_order_data_and_mask':
        fs = dadi.Spectrum(arr.copy(), pop_ids=list(ids))
        out = dadi.Spectrum(np.asfortranarray(fs.data), mask=np.asfortranarray(np.ma.getmaskarray(fs)), mask_corners=False, pop_ids=list(ids))
        return fin(out)
    if sp == 'transpose_view':
        fs = dadi.Spectrum(np.ascontiguousarray(arr.transpose(rev)), pop_ids=list(ids)[::-1])
        return fin(fs.transpose(rev))
    if sp == 'T_attr':
        fs = dadi.Spectrum(np.ascontiguousarray(arr.transpose(rev)), pop_ids=list(ids)[::-1])
        return fin(fs.T)
    if sp == 'reorder_pops':
        if d < 2:
            raise Rejected('one population')
        fs = dadi.Spectrum(np.ascontiguousarray(arr.transpose(rev)), pop_ids=list(ids)[::-1])
        return fin(fs.reorder_pops([d - k for k in range(d)]))
    if sp == 'swapaxes':
        if d < 2:
            raise Rejected('one population')
        pid = list(ids); pid[0], pid[-1] = pid[-1], pid[0]
        fs = dadi.Spectrum(np.ascontiguousarray(arr.swapaxes(0, -1)), pop_ids=pid)
        return fin(fs.swapaxes(0, -1))
    if sp == 'moveaxis':
        if d < 3:
            raise Rejected('fewer than three populations')
        fs = dadi.Spectrum(np.ascontiguousarray(np.moveaxis(arr, 0, -1)))
        return fin(np.moveaxis(fs, -1, 0))
    if sp in ('strided', 'neg'):
        fs = dadi.Spectrum(arr.copy())
        rv = (slice(None, None, -1),) * d; ev = (slice(None, None, 2),) * d
        if sp == 'neg':
            bigd = np.ascontiguousarray(fs.data[rv]); bigm = np.ascontiguousarray(np.ma.getmaskarray(fs)[rv])
        else:
            bigd = np.full([2 * t for t in arr.shape], -7.0); bigd[ev] = fs.data
            bigm = np.ones([2 * t for t in arr.shape], dtype=bool); bigm[ev] = np.ma.getmaskarray(fs)
        big = dadi.Spectrum(bigd, mask=bigm, mask_corners=False)
        return fin(big[rv if sp == 'neg' else ev])
    if sp == 'f32':
        a = arr.astype(np.float32)
        if not np.array_equal(a.astype(float), arr):
            raise Rejected('not representable')
        return fin(dadi.Spectrum(a, pop_ids=list(ids)))
    if sp == 'longdouble':
        return fin(dadi.Spectrum(arr.astype(np.longdouble), pop_ids=list(ids)))
    if sp == 'int':
        if not np.array_equal(np.floor(arr), arr):
            raise Rejected('not integral')
        return fin(dadi.Spectrum(arr.astype(np.int64), pop_ids=list(ids)))
    if sp == 'from_list':
        return fin(dadi.Spectrum(arr.tolist(), pop_ids=list(ids)))
    if sp == 'nomask':
        fs = dadi.Spectrum(corner_free(arr), mask_corners=False, pop_ids=list(ids))
        fs.shrink_mask()
        return fin(fs)
    if sp == 'nomask_F':
        fs = dadi.Spectrum(np.asfortranarray(corner_free(arr)), mask_corners=False, pop_ids=list(ids))
        fs.shrink_mask()
        return fin(fs)
    if sp == 'hardmask':
        fs = dadi.Spectrum(arr.copy(), pop_ids=list(ids)); fs.harden_mask()
        return fin(fs)
    if sp == 'readonly':
        a = arr.copy()
        fs = dadi.Spectrum(a, pop_ids=list(ids))
        fs.data.flags.writeable = False
        if fs.mask is not np.ma.nomask:
            fs.mask.flags.writeable = False
        return fin(fs)
    if sp == 'garbage_under_corners':
        a = arr.copy(); a[(0,) * d] = np.nan; a[(-1,) * d] = -1e300
        return fin(dadi.Spectrum(a, pop_ids=list(ids)))
    if sp == 'ma':
        fs = dadi.Spectrum(arr.copy())
        return np.ma.masked_array(fs.data.copy(), mask=np.ma.getmaskarray(fs).copy())
    if sp == 'ndarray':
        return corner_free(arr)
    if sp == 'list':
        return corner_free(arr).tolist()
    raise KeyError(sp)

# ---------------------------------------------------------------------------------------------------------------
# snapshots of the caller's objects

def snap(o):
    if isinstance(o, np.ma.MaskedArray):
        m = np.ma.getmask(o)
        return ('ma', type(o).__name__, snap(np.ma.getdata(o)), 'nomask' if m is np.ma.nomask else snap(m),
                repr(getattr(o, 'pop_ids', None)), repr(getattr(o, 'folded', None)), repr(getattr(o, 'extrap_x', None)), bool(o.hardmask))
    if isinstance(o, np.ndarray):
        body = repr(o.tolist()) if o.dtype == object else np.ascontiguousarray(o).tobytes()
        return ('nd', o.dtype.str, o.shape, o.strides, bool(o.flags.writeable), body)
    if isinstance(o, (list, tuple)):
        return (type(o).__name__,) + tuple(snap(t) for t in o)
    if isinstance(o, dict):
        return (type(o).__name__,) + tuple((repr(k), snap(v)) for k, v in o.items())
    if isinstance(o, np.generic):
        return ('sc', o.dtype.str, o.tobytes())
    return (type(o).__name__, repr(o))

def changed(before, objs):
    return [k for k in objs if snap(objs[k]) != before[k]]

def layout(a):
    d = np.ma.getdata(a) if isinstance(a, np.ndarray) else None
    if d is None:
        return type(a).__name__
    return '%s%s%s %s' % ('C' if d.flags.c_contiguous else '', 'F' if d.flags.f_contiguous else '',
                          '' if (d.flags.c_contiguous or d.flags.f_contiguous) else 'strided', d.dtype.str)

# ---------------------------------------------------------------------------------------------------------------
# make_low_pass_func_GATK_multisample

CANON = {'model': 'spectrum', 'cov': 'dict', 'nseq': 'list', 'nsub': 'list', 'Fx': 'list', 'thr': 'float', 'nsim': 'int',
         'pop_ids': 'list', 'call_ns': 'list', 'call_pts': 'int', 'reuse': 'no'}

def lp_call(c, spell, want_closure=True):
    """one make_low_pass_func + call in the given spelling of every argument"""
    pops = c['pops']; d = len(pops)
    ids = ['p%d' % i for i in range(d)]
    nseq_l = [p['nseq'] for p in pops]; nsub_l = [p['nsub'] for p in pops]
    arr = np.array(c['model'], dtype=float).reshape([n + 1 for n in nseq_l])
    sp = dict(CANON); sp.update(spell)
    cov = sp_covdict(ids, [p['cov'] for p in pops], sp['cov'])
    nseq = sp_intseq(nseq_l, sp['nseq']); nsub = sp_intseq(nsub_l, sp['nsub'])
    Fx = sp_floatseq([p['F'] for p in pops], sp['Fx'])
    thr = sp_float(c['thr'], sp['thr'])
    nsim = sp_int(c['nsim'], sp['nsim'])
    pop_ids = {'list': list(ids), 'tuple': tuple(ids), 'ndarray': np.array(ids), 'none': None}[sp['pop_ids']]
    call_ns = sp_intseq(nsub_l, sp['call_ns']) if sp['call_ns'] != 'none' else None
    pts = sp_int(10, sp['call_pts'])
    params = [1.0]
    same = sp['reuse'] in ('same_model_object', 'all')
    held = [sp_model(arr, ids, sp['model'])] if same else []
    calls, returned = [], []
    def func(params, ns, pts):
        calls.append([int(t) for t in ns])
        fs = held[0] if same else sp_model(arr, ids, sp['model'])
        returned.append(fs)
        return fs
    objs = {'cov_dist': cov, 'nseq': nseq, 'nsub': nsub, 'Fx': Fx, 'pop_ids': pop_ids, 'call ns': call_ns, 'params': params}
    before = {k: snap(v) for k, v in objs.items()}
    mbefore = snap(held[0]) if same else None
    reseed(c['seed'])
    f = LP.make_low_pass_func_GATK_multisample(func, cov, pop_ids, nseq, nsub, sim_threshold=thr, Fx=Fx, nsim=nsim)
    out = f(params, call_ns, pts)
    outs = [out]
    if sp['reuse'] != 'no':
        # the same argument objects re-used: a second wrapped function from the very same objects, and the first called again
        reseed(c['seed'])
        g = LP.make_low_pass_func_GATK_multisample(func, cov, pop_ids, nseq, nsub, sim_threshold=thr, Fx=Fx, nsim=nsim)
        outs.append(g(params, call_ns, pts))
        reseed(c['seed'])
        outs.append(f(params, call_ns, pts))
    ch = changed(before, objs)
    if same and snap(held[0]) != mbefore:
        ch.append('the model Spectrum returned by the demographic function')
    rec = {'out': fl(np.ma.getdata(out)), 'out_mask': [bool(t) for t in np.ma.getmaskarray(out).ravel()], 'shape': list(out.shape),
           'out_total': float(np.ma.getdata(out).sum()), 'called_ns': calls[0], 'folded': bool(out.folded),
           'extrap_x': float(out.extrap_x) if out.extrap_x is not None else None, 'type': type(out).__name__,
           'changed': ch, 'layout': layout(returned[0]), 'more': [fl(np.ma.getdata(o)) for o in outs[1:]],
           'aliases_model': bool(np.shares_memory(np.ma.getdata(out), np.ma.getdata(returned[0])))}
    if want_closure:
        cl = dict(zip(f.__code__.co_freevars, [x.cell_contents for x in f.__closure__]))
        pnc, use, proj, herr, sims = cl['precalc_cache'][tuple(nsub_l)]
        rec.update({'pnc': fl(pnc), 'use': [bool(t) for t in np.asarray(use).ravel()],
                    'sims': [[[int(t) for t in k], fl(v)] for k, v in sims.items()],
                    'sim_shapes_ok': all(list(np.shape(v)) == [n + 1 for n in nsub_l] for v in sims.values())})
    return rec, arr, ids, nseq_l, nsub_l

def ltypes(c):
    rec0, arr, ids, nseq, nsub = lp_call(c, {})
    d = len(nseq)
    m = dadi.Spectrum(arr.copy(), pop_ids=ids)
    Fx = [p['F'] for p in c['pops']]
    pl = np.where(np.ma.getmaskarray(m), 0.0, np.ma.getdata(m))
    for ax, (ns_, nb_, F_) in enumerate(zip(nseq, nsub, Fx)):
        pl = np.swapaxes(np.swapaxes(pl, ax, -1).dot(LP.projection_matrix(ns_, nb_, F_)), ax, -1)
    rec0.update({'plainF': fl(pl), 'model_mask': [bool(t) for t in np.ma.getmaskarray(m).ravel()], 'model_total': float(m.sum()),
                 'plain': fl(np.ma.getdata(m.project(nsub))), 'plain_mask': [bool(t) for t in np.ma.getmaskarray(m.project(nsub)).ravel()]})
    vs = []
    for v in c['variants']:
        r = {'vid': v['vid']}
        try:
            vr, _, _, _, _ = lp_call(c, {v['arg']: v['sp']})
            r.update(vr)
        except Rejected as e:
            r['inexpressible'] = str(e)
        except Exception as e:
            import traceback
            r['error'] = type(e).__name__ + ': ' + str(e)[:200]
            r['where'] = traceback.format_exc()[-400:]
        vs.append(r)
    rec0['variants'] = vs
    return rec0

# ---------------------------------------------------------------------------------------------------------------
# helpers

def sp_part(part, sp):
    part = [int(g) for g in part]
    if sp == 'list':
        return list(part)
    if sp == 'tuple':
        return tuple(part)
    if sp == 'ndarray':
        return np.array(part, dtype=np.int64)
    if sp == 'ndarray_int8':
        return np.array(part, dtype=np.int8)
    if sp == 'list_np_int64':
        return [np.int64(g) for g in part]
    if sp == 'ndarray_neg':
        return strided(np.array(part, dtype=np.int64), neg=True)
    raise KeyError(sp)

def sp_calls(rows, sp):
    a = np.array(rows, dtype=np.int64)
    if sp == 'ndarray':
        return a
    if sp == 'F_order':
        return np.asfortranarray(a)
    if sp == 'strided':
        return strided(a)
    if sp == 'neg':
        return strided(a, neg=True)
    if sp == 'transposed':
        return np.ascontiguousarray(a.T).T
    if sp == 'int32':
        return a.astype(np.int32)
    if sp == 'int8':
        return a.astype(np.int8)
    if sp == 'float':
        return a.astype(float)
    if sp == 'list':
        return a.tolist()
    if sp == 'readonly':
        a.flags.writeable = False
        return a
    raise KeyError(sp)

HCANON = {'n': 'int', 'k': 'int', 'F': 'float', 'af': 'int', 'cov': 'f64', 'part': 'list', 'calls': 'ndarray',
          'covd': 'dict', 'afs': 'ndarray', 'nseqs': 'list', 'nsubs': 'list', 'Fxs': 'list', 'nsim': 'int'}

def hcall(c, fn, spell):
    """returns (json-able outputs dict, list of changed caller objects)"""
    sp = dict(HCANON); sp.update(spell)
    nseq, nsub, F = c['nseq'], c['nsub'], c['F']
    objs = {}
    def keep(name, o):
        objs[name] = o
        return o
    out = {}
    if fn == 'partitions_genotype':
        n = keep('n_sequenced', sp_int(nseq, sp['n'])); Fv = keep('Fx', sp_float(F, sp['F']))
        before = {k: snap(v) for k, v in objs.items()}
        parts, probs = LP.partitions_and_probabilities(n, 'genotype', Fv)
        out = {'parts': [[[int(g) for g in p] for p in ps] for ps in parts], 'probs': [fl(p) for p in probs]}
    elif fn == 'partitions_af':
        n = keep('n_sequenced', sp_int(nseq, sp['n'])); Fv = keep('Fx', sp_float(F, sp['F']))
        before = {k: snap(v) for k, v in objs.items()}
        P, Q = [], []
        for af in range(nseq + 1):
            p2, pr2 = LP.partitions_and_probabilities(n, 'allele_frequency', Fv, sp_int(af, sp['af']))
            P.append([[int(g) for g in p] for p in p2]); Q.append(fl(pr2))
        out = {'parts': P, 'probs': Q}
    elif fn == 'projection_matrix':
        a = keep('n_sequenced', sp_int(nseq, sp['n'])); b = keep('n_subsampling', sp_int(nsub, sp['k'])); Fv = keep('F', sp_float(F, sp['F']))
        before = {k: snap(v) for k, v in objs.items()}
        out = {'proj': [fl(r) for r in LP.projection_matrix(a, b, Fv)]}
    elif fn == 'calling_error_matrix':
        cov = keep('coverage_distribution', sp_cov1(c['cov'], sp['cov'])); b = keep('n_subsampling', sp_int(nsub, sp['k'])); Fv = keep('Fx', sp_float(F, sp['F']))
        before = {k: snap(v) for k, v in objs.items()}
        out = {'cem': [fl(r) for r in LP.calling_error_matrix(cov, b, Fv)]}
    elif fn == 'no_call':
        cov = keep('coverage_distribution', sp_cov1(c['cov'], sp['cov'])); a = keep('n_sequenced', sp_int(nseq, sp['n'])); Fv = keep('Fx', sp_float(F, sp['F']))
        before = {k: snap(v) for k, v in objs.items()}
        out = {'nocall': fl(LP.probability_of_no_call_1D_GATK_multisample(cov, a, Fv))}
    elif fn == 'enough':
        cov = keep('coverage_distribution', sp_cov1(c['cov'], sp['cov'])); a = keep('n_sequenced', sp_int(nseq, sp['n'])); b = keep('n_subsampling', sp_int(nsub, sp['k']))
        before = {k: snap(v) for k, v in objs.items()}
        out = {'enough': float(LP.probability_enough_individuals_covered(cov, a, b))}
    elif fn == 'projection_inbreeding':
        parts, _ = LP.partitions_and_probabilities(nseq, 'genotype', 0)
        plist = [keep('partition %d' % i, sp_part(p, sp['part'])) for i, p in enumerate([p for ps in parts for p in ps])]
        b = keep('k', sp_int(nsub, sp['k']))
        before = {k: snap(v) for k, v in objs.items()}
        out = {'projinb': [fl(LP.projection_inbreeding(p, b)) for p in plist]}
    elif fn == 'subsample':
        calls = keep('genotype_calls', sp_calls(c['rows'], sp['calls'])); b = keep('n_subsampling', sp_int(c['rows_nsub'], sp['k']))
        before = {k: snap(v) for k, v in objs.items()}
        reseed(c['seed'])
        out = {'sub': [[int(g) for g in row] for row in np.asarray(LP.subsample_genotypes_1D(calls, b))]}
    elif fn == 'simulate':
        ids = ['q0', 'q1'][:len(c['sim_pops'])]
        sps = c['sim_pops']
        cov = keep('coverage_distribution', sp_covdict(ids, [p['cov'] for p in sps], sp['covd']))
        af = c['sim_af']
        afv = keep('allele_frequency', sp_intseq(af, sp['afs']))
        a = keep('n_sequenced', sp_intseq([p['nseq'] for p in sps], sp['nseqs']))
        b = keep('n_subsampling', sp_intseq([p['nsub'] for p in sps], sp['nsubs']))
        Fv = keep('Fx', sp_floatseq([p['F'] for p in sps], sp['Fxs']))
        ns = keep('number_simulations', sp_int(c['sim_nsim'], sp['nsim']))
        before = {k: snap(v) for k, v in objs.items()}
        reseed(c['seed'])
        o = LP.simulate_GATK_multisample_calling(cov, afv, a, b, ns, Fv)
        out = {'sim': fl(o), 'sim_shape': list(np.shape(o))}
    else:
        raise KeyError(fn)
    return out, changed(before, objs)

def htypes(c):
    rec = {'canon': {}, 'variants': []}
    for fn in c['fns']:
        try:
            o, ch = hcall(c, fn, {})
            rec['canon'][fn] = o
            if ch:
                rec['canon'][fn]['changed'] = ch
        except Exception as e:
            rec['canon'][fn] = {'error': type(e).__name__ + ': ' + str(e)[:200]}
    for v in c['variants']:
        r = {'vid': v['vid']}
        try:
            o, ch = hcall(c, v['fn'], {v['arg']: v['sp']})
            r['outs'] = o; r['changed'] = ch
        except Rejected as e:
            r['inexpressible'] = str(e)
        except Exception as e:
            import traceback
            r['error'] = type(e).__name__ + ': ' + str(e)[:200]
            r['where'] = traceback.format_exc()[-400:]
        rec['variants'].append(r)
    return rec

def nonfinite(v):
    if isinstance(v, float):
        return v != v or v in (float('inf'), float('-inf'))
    if isinstance(v, list):
        return any(nonfinite(t) for t in v)
    if isinstance(v, dict):
        return any(nonfinite(t) for t in v.values())
    return False

def scrub(v):
    """non-finite floats cannot cross JSON: spell them"""
    if isinstance(v, float) and nonfinite(v):
        return repr(v)
    if isinstance(v, list):
        return [scrub(t) for t in v]
    if isinstance(v, dict):
        return {k: scrub(t) for k, t in v.items()}
    return v

def main():
    cases = json.load(sys.stdin)
    out = []
    for c in cases:
        rec = {'id': c['id']}
        try:
            rec.update(ltypes(c) if c['kind'] == 'ltypes' else htypes(c))
        except Exception as e:
            import traceback
            rec['error'] = type(e).__name__ + ': ' + str(e)[:300] + ' @ ' + traceback.format_exc()[-400:]
        out.append(scrub(rec))
    print(json.dumps(out))
main()
