"""C16 driver: runs the REAL dadi demes importer / exporter (rebuilt overlay) and observes it from outside.

stdin: {"mode": ..., "cases": [...]}
  mode "log"     : case = {id, graph (demes.Builder data) | yaml, sampled, ns, times (None | list), Ne (None | float), pts}
                   runs dadi.Spectrum.from_demes with every dadi.PhiManip.* / dadi.Integration.* / Spectrum.from_phi call logged
                   (outermost calls only, arguments bound to the parameter names of the callee); also records what the `demes`
                   package (the oracle) reported: the resolved input graph and, for the graph the importer finally works on,
                   `discrete_demographic_events()` and the sizes of the demes it added.
  mode "numeric" : case = {id, jobs: [job...]}; job = {kind: "demes", ...as above} | {kind: "native", ops, ns, pts}
                   | {kind: "explicit_frozen", graph, sampled, ns, frozen: [names], Ne, pts}
                   | {kind: "prog", calls, pts}: the MODEL's program for a graph (the calls into the numerical layer with their
                     arguments, as computed by the Coq model) executed call by call with dadi.PhiManip / dadi.Integration /
                     Spectrum.from_phi - the equivalent hand-written dadi model of that graph; dadi.Demes is not involved
                   returns the spectra (data + mask) of all jobs
  mode "export"  : case = {id, ops, ns, pts, Nref, gen_time}: runs a native dadi program with the event log on, exports it with
                   dadi.Demes.output, re-imports with from_demes (logged); returns both spectra, both call logs, the exported graph
  mode "slice"   : case = {id, graph | yaml, ts: [t...]}: calls dadi.Demes.DemesUtil.slice(g, t) for every t; returns the resolved input
                   graph, its YAML text, and per t the resolved sliced graph with probes: the size of every deme of the sliced
                   graph at times u (epoch ends, points inside every epoch) next to `demes`' own Deme.size_at(u + t) of the input
                   graph, and the migration rate in force for every ordered pair of demes at times u next to the input graph's
  native ops     : ["phi_1D", nu] ["integrate", T, [sizefn..], [[M row]..] | None, [frozen..] | None] ["split", k] ["admix_new", [f..]]
                   ["pulse", dest, [f..]] ["remove", k] ["reorder", [order]] ;  sizefn = ["c", v] | ["e", v0, v1] | ["l", v0, v1]
  self-protection: a size FUNCTION handed to an integrator (outermost call) is probed at 17 times of [0, T]; a value that is
                   not positive / not finite raises NonPositiveSize before the integrator is entered (its time step would collapse
                   and the run never end); every unit of work (one from_demes run, one numeric job, one export round trip) has a
                   wall-clock limit (Watchdog; payload key unit_timeout, default 90 s, 25 s after the first one that fired).  Both
                   appear as the `error` of that unit.
stdout (last line): list of results
"""
import sys, json, warnings, inspect, math, copy, traceback
warnings.filterwarnings('ignore')
import numpy as np
np.seterr(all='ignore')
import dadi
import demes
from dadi import PhiManip, Integration
import dadi.Demes
from dadi.Demes import Demes as DemesMod

LOG = []
DEPTH = [0]
ORACLE = []          # what demes reported during the run: (graph, events)
FIX_FROZEN = [None]

PHIMANIP_FUNCS = [n for n in dir(PhiManip) if n.startswith('phi_') or n in ('remove_pop', 'reorder_pops', 'filter_pops')]
INTEG_FUNCS = ['one_pop', 'two_pops', 'three_pops', 'four_pops', 'five_pops']
GRID_NAMES = ('xx', 'yy', 'zz', 'aa', 'bb', 'cc')

def enc_val(v, T=None):
    if callable(v):
        ts = [0.0] if not T else [T * k / 4 for k in range(5)]
        return {'f': [[float(t), float(v(t))] for t in ts]}
    if isinstance(v, (bool, np.bool_)):
        return bool(v)
    if isinstance(v, (int, np.integer)):
        return int(v)
    if isinstance(v, (float, np.floating)):
        return float(v)
    if isinstance(v, (list, tuple)):
        return [enc_val(x) for x in v]
    if v is None:
        return None
    if isinstance(v, str):
        return v
    return repr(type(v))

def encode(name, ba):
    args = {}
    T = ba.arguments.get('T')
    for k, v in ba.arguments.items():
        if k in ('phi', 'phi_1D', 'phi_2D') or k in GRID_NAMES:
            continue
        args[k] = enc_val(v, T)
    return {'fn': name, 'args': args}

class NonPositiveSize(ValueError):
    pass

GUARD_PROBES = 16

def guard_sizes(name, ba):
    """the harness protecting itself: a size FUNCTION handed to an integrator that is not positive (or not finite) somewhere in
    [0, T] makes the integrator's time step collapse (the run never ends) - it is reported as an error of the call instead.
    No deme of a demes graph, and no program of the generators, has a non-positive size."""
    T = ba.arguments.get('T')
    if not T or not (T > 0) or T == float('inf'):
        return
    ids = ba.arguments.get('deme_ids')
    for k, v in ba.arguments.items():
        if k.rstrip('12345') == 'nu' and callable(v):
            for j in range(GUARD_PROBES + 1):
                t = T * j / GUARD_PROBES
                x = float(v(t))
                if not (x > 0) or x == float('inf'):
                    pop = int(k[2:]) if k[2:] else 1
                    who = ' (deme %s)' % ids[pop - 1] if ids is not None and len(ids) >= pop else ''
                    raise NonPositiveSize('%s receives for %s%s a size function with value %r at t=%r of T=%r (value %r at t=0)'
                                          % (name, k, who, x, t, T, float(v(0.0))))

def wrap(mod, name, static=False):
    f = getattr(mod, name)
    sig = inspect.signature(f)
    def w(*a, **k):
        if DEPTH[0] == 0:
            ba = sig.bind(*a, **k)
            ba.apply_defaults()
            LOG.append(encode(name, ba))
            if name in INTEG_FUNCS:
                guard_sizes(name, ba)
            if FIX_FROZEN[0] is not None and name in INTEG_FUNCS:
                # reference run: the frozen flags are decided by the deme labels, whatever the caller wired
                ids = list(ba.arguments['deme_ids'])
                for kk in range(len(ids)):
                    key = 'frozen' if len(ids) == 1 else 'frozen%d' % (kk + 1)
                    ba.arguments[key] = ids[kk] in FIX_FROZEN[0]
                a, k = ba.args, ba.kwargs
        DEPTH[0] += 1
        try:
            return f(*a, **k)
        finally:
            DEPTH[0] -= 1
    w.__name__ = name
    setattr(mod, name, staticmethod(w) if static else w)

_aliases = {'phi_2D_to_3D': 'phi_2D_to_3D_admix'}
for n in PHIMANIP_FUNCS:
    if n in _aliases:
        if getattr(PhiManip, n) is not getattr(PhiManip, _aliases[n]):
            raise RuntimeError('%s is no longer an alias of %s' % (n, _aliases[n]))
        continue
    wrap(PhiManip, n)
for n, t in _aliases.items():
    setattr(PhiManip, n, getattr(PhiManip, t))
for n in INTEG_FUNCS:
    wrap(Integration, n)
wrap(dadi.Spectrum_mod.Spectrum, 'from_phi', static=True)

_orig_dde = demes.Graph.discrete_demographic_events
def _dde(self):
    ev = _orig_dde(self)
    ORACLE.append((self, ev))
    return ev
demes.Graph.discrete_demographic_events = _dde

def fnum(x):
    x = float(x)
    return x

def graph_dict(g):
    """the resolved graph exactly as demes reports it (attributes the importer reads)"""
    return {
        'time_units': g.time_units, 'generation_time': g.generation_time,
        'demes': [{'name': d.name, 'start_time': fnum(d.start_time), 'end_time': fnum(d.end_time), 'ancestors': list(d.ancestors),
                   'proportions': [fnum(p) for p in d.proportions],
                   'epochs': [{'start_time': fnum(e.start_time), 'end_time': fnum(e.end_time), 'start_size': fnum(e.start_size),
                               'end_size': fnum(e.end_size), 'size_function': e.size_function} for e in d.epochs]} for d in g.demes],
        'migrations': [{'source': m.source, 'dest': m.dest, 'start_time': fnum(m.start_time), 'end_time': fnum(m.end_time),
                        'rate': fnum(m.rate)} for m in g.migrations],
        'pulses': [{'sources': list(p.sources), 'dest': p.dest, 'time': fnum(p.time), 'proportions': [fnum(x) for x in p.proportions]}
                   for p in g.pulses],
    }

def events_dict(ev):
    return {
        'pulses': [{'sources': list(p.sources), 'dest': p.dest, 'time': fnum(p.time), 'proportions': [fnum(x) for x in p.proportions]} for p in ev['pulses']],
        'branches': [{'parent': b.parent, 'child': b.child, 'time': fnum(b.time)} for b in ev['branches']],
        'mergers': [{'parents': list(m.parents), 'proportions': [fnum(x) for x in m.proportions], 'child': m.child, 'time': fnum(m.time)} for m in ev['mergers']],
        'admixtures': [{'parents': list(m.parents), 'proportions': [fnum(x) for x in m.proportions], 'child': m.child, 'time': fnum(m.time)} for m in ev['admixtures']],
        'splits': [{'parent': s.parent, 'children': list(s.children), 'time': fnum(s.time)} for s in ev['splits']],
    }

def load_graph(c):
    if c.get('yaml'):
        return demes.load(c['yaml'])
    return demes.Builder.fromdict(copy.deepcopy(c['graph'])).resolve()

def fs_out(fs):
    return {'shape': list(fs.shape), 'data': [float(x) for x in np.asarray(fs.data).ravel()],
            'mask': [bool(x) for x in np.ma.getmaskarray(fs).ravel()], 'pop_ids': list(fs.pop_ids) if fs.pop_ids is not None else None}

def run_demes(c, want_log=True, rec=None):
    del LOG[:]; del ORACLE[:]
    rec = {} if rec is None else rec
    g = load_graph(c)
    if want_log:
        rec['orig'] = graph_dict(g)
    sampled = list(c['sampled']); ns = list(c['ns'])
    times = None if c.get('times') is None else list(c['times'])
    FIX_FROZEN[0] = set(c['fix_frozen']) if c.get('fix_frozen') is not None else None
    try:
        fs = dadi.Spectrum.from_demes(g, sampled, ns, pts=[c['pts']], sample_times=times, Ne=c.get('Ne'))
    except Exception:
        if want_log:
            rec['calls'] = list(LOG)
            if ORACLE:
                rec['final'] = graph_dict(ORACLE[-1][0]); rec['events'] = events_dict(ORACLE[-1][1])
        raise
    finally:
        FIX_FROZEN[0] = None
    rec['fs'] = fs_out(fs)
    if sampled != list(c['sampled']) or (times is not None and times != list(c['times'])):
        rec['mutated_inputs'] = True
    if want_log:
        rec['calls'] = list(LOG)
        gf, ev = ORACLE[-1]
        rec['final'] = graph_dict(gf)
        rec['events'] = events_dict(ev)
    return rec

# ---------------------------------------------------------------------------------------------------------------
# native programs

def sizefn(spec, T):
    k = spec[0]
    if k == 'c':
        return spec[1]
    if k == 'e':
        v0, v1 = spec[1], spec[2]
        return lambda t, v0=v0, v1=v1: v0 * (v1 / v0) ** (t / T)
    if k == 'l':
        v0, v1 = spec[1], spec[2]
        return lambda t, v0=v0, v1=v1: v0 + (v1 - v0) * t / T
    raise ValueError(spec)

PULSES = {2: ['phi_2D_admix_2_into_1', 'phi_2D_admix_1_into_2'],
          3: ['phi_3D_admix_2_and_3_into_1', 'phi_3D_admix_1_and_3_into_2', 'phi_3D_admix_1_and_2_into_3'],
          4: ['phi_4D_admix_into_1', 'phi_4D_admix_into_2', 'phi_4D_admix_into_3', 'phi_4D_admix_into_4'],
          5: ['phi_5D_admix_into_1', 'phi_5D_admix_into_2', 'phi_5D_admix_into_3', 'phi_5D_admix_into_4', 'phi_5D_admix_into_5']}

def run_native(ops, ns, pts, all_funcs=False):
    """interprets a native program with the public dadi API; returns the spectrum"""
    xx = dadi.Numerics.default_grid(pts)
    phi = None
    for op in ops:
        k = op[0]
        if k == 'phi_1D':
            phi = PhiManip.phi_1D(xx, nu=op[1])
        elif k == 'integrate':
            T, sfs, M, fr = op[1], op[2], op[3], op[4]
            d = phi.ndim
            nus = [sizefn(s, T) for s in sfs]
            if all_funcs and any(callable(n) for n in nus):
                nus = [n if callable(n) else (lambda t, v=n: v) for n in nus]
            kw = {}
            if M is not None:
                for a in range(d):
                    for b in range(d):
                        if a != b:
                            kw['m%d%d' % (a + 1, b + 1)] = M[a][b]
            if d == 1:
                phi = Integration.one_pop(phi, xx, T, nu=nus[0], frozen=bool(fr[0]) if fr else False)
            else:
                for a in range(d):
                    kw['nu%d' % (a + 1)] = nus[a]
                    if fr:
                        kw['frozen%d' % (a + 1)] = bool(fr[a])
                f = getattr(Integration, INTEG_FUNCS[d - 1])
                phi = f(phi, xx, T, **kw)
        elif k == 'split':
            d = phi.ndim; p = op[1]
            if d == 1:
                phi = PhiManip.phi_1D_to_2D(xx, phi)
            elif d == 2:
                phi = [PhiManip.phi_2D_to_3D_split_1, PhiManip.phi_2D_to_3D_split_2][p - 1](xx, phi)
            elif d == 3:
                pr = [1 if i == p - 1 else 0 for i in range(3)]
                phi = PhiManip.phi_3D_to_4D(phi, pr[0], pr[1], xx, xx, xx, xx)
            elif d == 4:
                pr = [1 if i == p - 1 else 0 for i in range(4)]
                phi = PhiManip.phi_4D_to_5D(phi, pr[0], pr[1], pr[2], xx, xx, xx, xx, xx)
        elif k == 'admix_new':
            d = phi.ndim; f = op[1]
            if d == 2:
                phi = PhiManip.phi_2D_to_3D_admix(phi, f[0], xx, xx, xx)
            elif d == 3:
                phi = PhiManip.phi_3D_to_4D(phi, f[0], f[1], xx, xx, xx, xx)
            elif d == 4:
                phi = PhiManip.phi_4D_to_5D(phi, f[0], f[1], f[2], xx, xx, xx, xx, xx)
        elif k == 'pulse':
            d = phi.ndim; dest = op[1]; f = op[2]
            phi = getattr(PhiManip, PULSES[d][dest - 1])(phi, *f, *([xx] * d))
        elif k == 'remove':
            phi = PhiManip.remove_pop(phi, xx, op[1])
        elif k == 'reorder':
            phi = PhiManip.reorder_pops(phi, list(op[1]))
        else:
            raise ValueError('unknown op %r' % (op,))
    fs = dadi.Spectrum.from_phi(phi, ns, [xx] * phi.ndim)
    return fs

MODEL_SPLITS = {'phi_1D_to_2D': 1, 'phi_2D_to_3D_split_1': 2, 'phi_2D_to_3D_split_2': 2}

def model_sizefn(s):
    """a size argument of the model's program: a number, or the closure the model says is handed to the integrator"""
    k = s[0]
    if k == 'num':
        return s[1]
    if k == 'const':
        return lambda t, a=s[1]: a
    if k == 'lin':
        return lambda t, a=s[1], b=s[2], T=s[3]: a + t / T * b
    if k == 'exp':
        return lambda t, a=s[1], r=s[2], T=s[3]: a * r ** (t / T)
    raise ValueError(s)

def run_model_prog(calls, pts):
    """executes the model's program (the equivalent native dadi model of a graph, as the Coq model states it: function
    names and arguments of the calls into the numerical layer) call by call with the public dadi API; nothing of
    dadi.Demes is involved.  Returns the spectrum of its from_phi call."""
    xx = dadi.Numerics.default_grid(pts)
    phi = None; fs = None
    for c in calls:
        fn = c['fn']
        if fs is not None:
            raise ValueError('call %s after from_phi' % fn)
        if fn == 'phi_1D':
            phi = PhiManip.phi_1D(xx, nu=c['fs'][0])
            continue
        d = phi.ndim
        if fn in INTEG_FUNCS:
            if INTEG_FUNCS.index(fn) + 1 != d or len(c['nus']) != d or len(c['fr']) != d or len(c['fs']) != d * (d - 1):
                raise ValueError('%s with %d nus / %d rates / %d flags on a %d-dimensional density' % (fn, len(c['nus']), len(c['fs']), len(c['fr']), d))
            nus = [model_sizefn(s) for s in c['nus']]
            if d == 1:
                phi = Integration.one_pop(phi, xx, c['T'], nu=nus[0], frozen=bool(c['fr'][0]))
            else:
                kw = {}
                pairs = [(a, b) for a in range(1, d + 1) for b in range(1, d + 1) if a != b]       # m12, m13, ..., m21, ...
                for (a, b), m in zip(pairs, c['fs']):
                    kw['m%d%d' % (a, b)] = m
                for a in range(d):
                    kw['nu%d' % (a + 1)] = nus[a]
                    kw['frozen%d' % (a + 1)] = bool(c['fr'][a])
                phi = getattr(Integration, fn)(phi, xx, c['T'], **kw)
        elif fn in MODEL_SPLITS:
            if d != MODEL_SPLITS[fn]:
                raise ValueError('%s on a %d-dimensional density' % (fn, d))
            phi = getattr(PhiManip, fn)(xx, phi)
        elif fn in ('phi_2D_to_3D_admix', 'phi_3D_to_4D', 'phi_4D_to_5D'):
            want = {'phi_2D_to_3D_admix': 2, 'phi_3D_to_4D': 3, 'phi_4D_to_5D': 4}[fn]
            if d != want or len(c['fs']) != d - 1:
                raise ValueError('%s with %d proportions on a %d-dimensional density' % (fn, len(c['fs']), d))
            phi = getattr(PhiManip, fn)(phi, *c['fs'], *([xx] * (d + 1)))
        elif fn == 'pulse':
            if c['d'] != d or len(c['fs']) != d - 1 or not 1 <= c['dest'] <= d:
                raise ValueError('pulse for %d populations into %d with %d proportions on a %d-dimensional density' % (c['d'], c['dest'], len(c['fs']), d))
            phi = getattr(PhiManip, PULSES[d][c['dest'] - 1])(phi, *c['fs'], *([xx] * d))
        elif fn == 'remove_pop':
            phi = PhiManip.remove_pop(phi, xx, c['ns'][0])
        elif fn == 'reorder_pops':
            phi = PhiManip.reorder_pops(phi, list(c['ns']))
        elif fn == 'from_phi':
            fs = dadi.Spectrum.from_phi(phi, list(c['ns']), [xx] * d)
        else:
            raise ValueError('unknown call %r' % (fn,))
    if fs is None:
        raise ValueError('the program has no from_phi call')
    return fs

def run_explicit_frozen(c):
    """from_demes on a graph in which the ancient samples are explicit branch demes, frozen by name: the importer's own
    pipeline with the list of frozen demes supplied from outside (the augmentation step is bypassed)."""
    g = load_graph(c)
    frozen = list(c['frozen'])
    # the importer's own pipeline, called piece by piece with the list of frozen demes supplied; the frozen flags of the
    # integration calls are forced by label, so this reference does not depend on the wiring under test
    sampled = list(c['sampled']); ns = list(c['ns'])
    if g.time_units != 'generations':
        g = g.in_generations()
    ev = g.discrete_demographic_events()
    demo_events, demes_present = DemesMod._get_demographic_events(g, ev, sampled)
    nu_funcs, migs, Ts, frz = DemesMod._get_integration_parameters(g, demes_present, frozen, Ne=c.get('Ne'))
    FIX_FROZEN[0] = set(frozen)
    try:
        phi, xx, order = DemesMod._compute_sfs(demo_events, demes_present, ns, nu_funcs, migs, Ts, frz, c['pts'], 1.0, None, None)
    finally:
        FIX_FROZEN[0] = None
    new_order = [order.index(p) + 1 for p in sampled]
    phi = PhiManip.reorder_pops(phi, new_order)
    return dadi.Spectrum.from_phi(phi, ns, [xx] * len(sampled), pop_ids=sampled)

def _rate_at(gr, s, d, u):
    r = 0.0
    for m in gr.migrations:
        if m.source == s and m.dest == d and m.start_time > u >= m.end_time:
            r = float(m.rate)
    return r

def run_slice(c):
    from dadi.Demes import DemesUtil
    g = load_graph(c)
    rec = {'orig': graph_dict(g), 'yaml': demes.dumps(g), 'slices': []}
    for t in c['ts']:
        one = {'t': t}
        try:
            gs = DemesUtil.slice(load_graph(c), t)
            one['sliced'] = graph_dict(gs)
            sp = []
            for d in gs.demes:
                us = set()
                for e in d.epochs:
                    us.add(float(e.end_time))
                    if math.isinf(e.start_time):
                        us.add(float(e.end_time) + 1.0)
                    else:
                        us.add((e.start_time + e.end_time) / 2); us.add(e.end_time + (e.start_time - e.end_time) * 0.75)
                for u in sorted(us):
                    sp.append([d.name, u, float(d.size_at(u)), float(g[d.name].size_at(u + t)) if d.name in g else None])
            one['size_probes'] = sp
            mp = []
            for (s_, d_) in sorted({(m.source, m.dest) for m in g.migrations}):
                us = {0.0}
                for m in g.migrations:
                    if m.source == s_ and m.dest == d_:
                        for x in (m.start_time, m.end_time):
                            if not math.isinf(x):
                                us.add(max(0.0, x - t)); us.add(max(0.0, x - t) + 0.0625)
                                if x - t - 0.0625 >= 0:
                                    us.add(x - t - 0.0625)
                for u in sorted(us):
                    mp.append([s_, d_, u, _rate_at(gs, s_, d_, u), _rate_at(g, s_, d_, u + t)])
            one['mig_probes'] = mp
        except Exception as e:
            one['error'] = type(e).__name__ + ': ' + str(e)[:300]
            one['tb'] = traceback.format_exc()[-800:]
        rec['slices'].append(one)
    return rec

def norm_log(log):
    return list(log)

def cache_dump(cache):
    """dadi.Demes.cache as plain data (same as harness/props/c16_export.cache_dump)"""
    out = []
    for e in cache:
        t = type(e).__name__
        d = {'type': t, 'duration': (None if e.duration == float('inf') else float(e.duration)),
             'deme_ids': None if e.deme_ids is None else list(e.deme_ids)}
        if t == 'Initiation':
            d['start_sizes'] = [float(x) for x in e.start_sizes]
        elif t == 'IntegrationConst':
            d['start_sizes'] = [float(x) for x in e.start_sizes]; d['mig'] = [float(x) for x in e.mig]
        elif t == 'IntegrationNonConst':
            d['start_sizes'] = [float(x) for x in e.start_sizes]; d['end_sizes'] = [float(x) for x in e.end_sizes]
            d['mig'] = [float(x) for x in e.mig]; d['linear'] = [bool(x) for x in e.linear]
        elif t == 'Split':
            d['proportions'] = [float(x) for x in e.proportions]
        elif t == 'Remove':
            d['removed'] = int(e.removed)
        elif t == 'Reorder':
            d['neworder'] = [int(x) for x in e.neworder]
        elif t == 'Pulse':
            d['sources'] = [int(x) for x in e.sources]; d['dest'] = int(e.dest); d['proportions'] = [float(x) for x in e.proportions]
        else:
            d['unknown'] = True
        out.append(d)
    return out

def run_export(c):
    rec = {}
    if c.get('ops_norm') is not None:
        # the same model written without reorder_pops (populations kept in creation order): a native reference whose
        # integrations run in the order in which the re-imported graph is integrated
        del LOG[:]
        rec['fsN'] = fs_out(run_native(c['ops_norm'], c['ns'], c['pts']))
        rec['callsN'] = list(LOG)
    del LOG[:]
    if c.get('ops') is not None:
        fs0 = run_native(c['ops'], c['ns'], c['pts'])
    else:
        fs0 = dadi.Spectrum.from_demes(load_graph(c), list(c['sampled']), list(c['ns']), pts=[c['pts']])
    rec['fs0'] = fs_out(fs0)
    rec['calls0'] = list(LOG)
    cache = dadi.Demes.cache
    rec['cache'] = [type(e).__name__ for e in cache]
    g = dadi.Demes.output(Nref=c.get('Nref'), generation_time=c.get('gen_time'))
    rec['graph'] = graph_dict(g)
    # the event log as output saw it (names filled in), for the exporter model (Model/DemesExportModel.v)
    try:
        rec['cache_full'] = cache_dump(cache)
    except Exception as e:
        rec['cache_full_error'] = type(e).__name__ + ': ' + str(e)[:200]
    # names of the demes alive at the end, in the order of the final event
    final_ids = list(cache[-1].deme_ids) if c.get('ops') is not None else list(c['sampled'])
    rec['final_ids'] = final_ids
    del LOG[:]; del ORACLE[:]
    fs1 = dadi.Spectrum.from_demes(g, final_ids, list(c['ns']), pts=[c['pts']], Ne=c.get('Nref'))
    rec['fs1'] = fs_out(fs1)
    rec['calls1'] = list(LOG)
    if ORACLE:
        # what `demes` reported for the exported graph (in generations) during the re-import
        rec['events1'] = events_dict(ORACLE[-1][1])
    return rec

class Watchdog(Exception):
    pass

WATCH = {'limit': 90.0, 'after_first': 25.0, 'fired': 0}

def _alarm(signum, frame):
    raise Watchdog('the run did not end within %g s of wall time' % WATCH['current'])

def watch(on=True):
    """wall-clock limit for ONE unit of work (one from_demes run / one numeric job / one export round trip).  A unit takes well
    under a second on the grids of this check (a few seconds on an oversubscribed machine); a run that has not ended after
    90 s is reported as an error of that unit instead of blocking the whole check (after the first such unit: 25 s)."""
    import signal
    if on:
        WATCH['current'] = WATCH['limit'] if not WATCH['fired'] else WATCH['after_first']
        signal.signal(signal.SIGALRM, _alarm)
        signal.setitimer(signal.ITIMER_REAL, WATCH['current'])
    else:
        signal.setitimer(signal.ITIMER_REAL, 0)

def main():
    payload = json.load(sys.stdin)
    mode = payload['mode']
    if payload.get('unit_timeout'):
        WATCH['limit'] = float(payload['unit_timeout'])
    out = []
    for c in payload['cases']:
        rec = {'id': c['id']}
        try:
            if mode != 'numeric':
                watch(True)
            if mode == 'log':
                run_demes(c, rec=rec)
            elif mode == 'numeric':
                res = []
                for j in c['jobs']:
                    try:
                        watch(True)
                        if j['kind'] == 'demes':
                            r = run_demes(j, want_log=bool(j.get('log')))
                        elif j['kind'] == 'native':
                            r = {'fs': fs_out(run_native(j['ops'], j['ns'], j['pts'], all_funcs=bool(j.get('all_funcs'))))}
                        elif j['kind'] == 'prog':
                            r = {'fs': fs_out(run_model_prog(j['calls'], j['pts']))}
                        elif j['kind'] == 'explicit_frozen':
                            r = {'fs': fs_out(run_explicit_frozen(j))}
                        else:
                            raise ValueError(j['kind'])
                    except Exception as e:
                        if isinstance(e, Watchdog):
                            WATCH['fired'] += 1
                        r = {'error': type(e).__name__ + ': ' + str(e)[:300], 'tb': traceback.format_exc()[-800:]}
                    finally:
                        watch(False)
                    res.append(r)
                rec['jobs'] = res
            elif mode == 'export':
                rec.update(run_export(c))
            elif mode == 'slice':
                rec.update(run_slice(c))
            else:
                raise ValueError(mode)
        except Exception as e:
            if isinstance(e, Watchdog):
                WATCH['fired'] += 1
            rec['error'] = type(e).__name__ + ': ' + str(e)[:300]
            rec['tb'] = traceback.format_exc()[-1200:]
        finally:
            watch(False)
        out.append(rec)
    print(json.dumps(out))

main()
