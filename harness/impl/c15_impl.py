"""Runs the REAL library model functions of dadi (rebuilt overlay) for C15.

stdin: JSON list of jobs; stdout (last line): JSON list of results, same order.
job kinds
  model : run one model at one parameter vector        -> shape, finite, min, max, extrap_x, masked corners, type
          (with 'refine': [pts...] the run is repeated on finer grids while the spectrum has an entry < -negtol*max)
  arity : call with len(names)-1 and len(names)+1 parameters -> did it raise
  pair  : complex model at the nesting point vs simple model -> max |difference| / max |simple|
  sym   : model at p / (ns) and at the exchanged p' / permuted ns, at two values of Integration.timescale_factor
          -> relative differences between fs and the transposed fs'
  mscore: call the ms-command helper -> type / raises
  concrete: run one model WITHOUT extrapolation, func(params, ns, pts), with Integration.timescale_factor set to the job's
          'tf' -> the spectrum's data (C order), its mask, the grid Numerics.default_grid(pts) and use_delj_trick
          (compared inside Coq with Model/ProgSem.run_prog on the program translated from the current source)
"""
import sys, json, warnings, importlib, time
warnings.filterwarnings('ignore')
import numpy as np
np.seterr(all='ignore')
import dadi
import dadi.Integration as Integration

MODS = {'dadi/Demographics1D.py': 'dadi.Demographics1D', 'dadi/Demographics2D.py': 'dadi.Demographics2D',
        'dadi/Demographics3D.py': 'dadi.Demographics3D', 'dadi/PortikModels/portik_models_2d.py': 'dadi.PortikModels.portik_models_2d',
        'dadi/PortikModels/portik_models_3d.py': 'dadi.PortikModels.portik_models_3d', 'dadi/DFE/DemogSelModels.py': 'dadi.DFE.DemogSelModels'}
TF0 = Integration.timescale_factor

def get(file, name):
    m = importlib.import_module(MODS[file])
    return getattr(m, name)

def summary(fs, ns):
    rec = {'type': type(fs).__name__, 'is_spectrum': isinstance(fs, dadi.Spectrum)}
    arr = np.asarray(getattr(fs, 'data', fs), dtype=float)
    mask = np.ma.getmaskarray(fs) if isinstance(fs, np.ma.MaskedArray) else np.zeros(arr.shape, bool)
    rec['shape'] = list(arr.shape)
    rec['shape_ok'] = list(arr.shape) == [n + 1 for n in ns]
    vals = arr[~mask]
    rec['finite'] = bool(np.all(np.isfinite(vals)))
    rec['min'] = float(np.min(vals)) if vals.size and rec['finite'] else None
    rec['max'] = float(np.max(np.abs(vals))) if vals.size and rec['finite'] else None
    ex = getattr(fs, 'extrap_x', None)
    rec['extrap_x'] = None if ex is None else float(ex)
    # exactly the two corners masked
    exp_mask = np.zeros(arr.shape, bool)
    if arr.ndim:
        exp_mask[tuple([0] * arr.ndim)] = True; exp_mask[tuple([-1] * arr.ndim)] = True
    rec['mask_is_corners'] = bool(np.array_equal(mask, exp_mask))
    rec['folded'] = bool(getattr(fs, 'folded', False))
    return rec, arr, mask

def run_model(j):
    f = get(j['file'], j['name'])
    rec = {'names_len': len(f.__param_names__), 'names': list(f.__param_names__)}
    grids = [j['pts']] + list(j.get('refine', []))
    negtol = j.get('negtol', 1e-9)
    tries = []
    for pts in grids:
        t0 = time.time()
        try:
            fs = f(list(j['params']), list(j['ns']), pts)
        except Exception as e:
            rec['error'] = type(e).__name__ + ': ' + str(e)[:200]
            break
        s, arr, mask = summary(fs, j['ns'])
        s['pts'] = pts; s['secs'] = round(time.time() - t0, 3)
        if s['extrap_x'] is not None:
            xx = dadi.Numerics.default_grid(pts)
            s['extrap_x_is_grid_spacing'] = bool(s['extrap_x'] == float(xx[1] - xx[0]))
        tries.append(s)
        if not s['finite'] or not s['shape_ok']:
            break
        if s['min'] >= -negtol * s['max']:
            break
    rec['tries'] = tries
    return rec

def run_arity(j):
    f = get(j['file'], j['name'])
    p = list(j['params'])
    rec = {}
    for tag, q in (('short', p[:-1]), ('long', p + [p[-1] if p else 0.5])):
        if tag == 'short' and not p:
            rec[tag] = 'n/a'; continue
        try:
            if j.get('mscore'):
                f(q)
            else:
                f(q, list(j['ns']), j['pts'])
            rec[tag] = 'accepted'
        except Exception as e:
            rec[tag] = type(e).__name__
    return rec

def run_pair(j):
    fc = get(j['cfile'], j['cname']); fsim = get(j['sfile'], j['sname'])
    rec = {}
    try:
        a = fc(list(j['cparams']), list(j['ns']), j['pts'])
    except Exception as e:
        rec['error'] = 'complex: ' + type(e).__name__ + ': ' + str(e)[:200]; return rec
    try:
        b = fsim(list(j['sparams']), list(j['ns']), j['pts'])
    except Exception as e:
        rec['error'] = 'simple: ' + type(e).__name__ + ': ' + str(e)[:200]; return rec
    A = np.asarray(a.data, float); B = np.asarray(b.data, float)
    if A.shape != B.shape:
        rec['error'] = 'shapes %r %r' % (A.shape, B.shape); return rec
    m = ~(np.ma.getmaskarray(a) | np.ma.getmaskarray(b))
    rec['mask_equal'] = bool(np.array_equal(np.ma.getmaskarray(a), np.ma.getmaskarray(b)))
    if not (np.all(np.isfinite(A[m])) and np.all(np.isfinite(B[m]))):
        rec['error'] = 'non-finite entries'; return rec
    scale = float(np.max(np.abs(B[m]))) if m.any() else 1.0
    rec['scale'] = scale
    rec['maxdiff'] = float(np.max(np.abs(A[m] - B[m]))) if m.any() else 0.0
    rec['rel'] = rec['maxdiff'] / scale if scale > 0 else rec['maxdiff']
    return rec

def run_sym(j):
    f = get(j['file'], j['name'])
    perm = list(j['perm'])            # new axis i carries old population perm[i]
    ns = list(j['ns']); ns2 = [ns[k] for k in perm]
    rec = {'rel': []}
    try:
        for tf in j['tfs']:
            Integration.timescale_factor = tf
            a = f(list(j['params']), ns, j['pts'])
            b = f(list(j['params2']), ns2, j['pts'])
            A = np.asarray(a.data, float); B = np.asarray(b.data, float)
            At = np.transpose(A, perm)       # At[i0,i1,..] axes: new axis i = old axis perm[i]
            m = ~np.ma.getmaskarray(b)
            scale = float(np.max(np.abs(At[m])))
            rec['rel'].append(float(np.max(np.abs(At[m] - B[m])) / scale))
    except Exception as e:
        rec['error'] = type(e).__name__ + ': ' + str(e)[:200]
    finally:
        Integration.timescale_factor = TF0
    return rec

def run_mscore(j):
    f = get(j['file'], j['name'])
    rec = {'names_len': len(f.__param_names__)}
    try:
        r = f(list(j['params']))
        rec['type'] = type(r).__name__
        rec['nonempty'] = bool(r)
    except Exception as e:
        rec['error'] = type(e).__name__ + ': ' + str(e)[:200]
    return rec

def run_concrete(j):
    f = get(j['file'], j['name'])
    rec = {}
    try:
        Integration.timescale_factor = j['tf']
        fs = f(list(j['params']), list(j['ns']), j['pts'])
    except Exception as e:
        rec['error'] = type(e).__name__ + ': ' + str(e)[:200]
        return rec
    finally:
        Integration.timescale_factor = TF0
    arr = np.asarray(getattr(fs, 'data', fs), dtype=float)
    mask = np.ma.getmaskarray(fs) if isinstance(fs, np.ma.MaskedArray) else np.zeros(arr.shape, bool)
    rec['shape'] = list(arr.shape)
    rec['mask'] = [bool(x) for x in mask.ravel()]
    rec['finite'] = bool(np.all(np.isfinite(arr[~mask])))
    # masked entries may hold anything (also non-finite values): they are never compared; send 0 in their place
    rec['data'] = [0.0 if m else float(x) for x, m in zip(arr.ravel(), mask.ravel())] if rec['finite'] else []
    rec['grid'] = [float(x) for x in dadi.Numerics.default_grid(j['pts'])]
    rec['use_delj_trick'] = bool(Integration.use_delj_trick)
    rec['use_old_timestep'] = bool(getattr(Integration, 'use_old_timestep', False))
    rec['cuda'] = bool(getattr(Integration, 'cuda_enabled', False))
    return rec

def main():
    jobs = json.load(sys.stdin)
    out = []
    for j in jobs:
        t0 = time.time()
        try:
            r = {'model': run_model, 'arity': run_arity, 'pair': run_pair, 'sym': run_sym, 'mscore': run_mscore, 'concrete': run_concrete}[j['kind']](j)
        except Exception as e:      # e.g. the function or its __param_names__ no longer exists
            r = {'error': 'driver: ' + type(e).__name__ + ': ' + str(e)[:200]}
        r['id'] = j['id']; r['secs_total'] = round(time.time() - t0, 3)
        out.append(r)
    print(json.dumps(out))
main()
