"""Runs the REAL dadi code (Spectrum.fold/unfold, operator overloads, slicing, Numerics.apply_anc_state_misid /
make_anc_state_misid_func, Inference.ll / ll_multinom) on the generated C09 cases.  JSON in, JSON out."""
import sys, json, math, operator, warnings, logging
warnings.filterwarnings('ignore')
import numpy as np
import dadi
for nm in ('Spectrum_mod', 'Numerics', 'Inference'):
    logging.getLogger(nm).setLevel(logging.CRITICAL)
logging.disable(logging.CRITICAL)
np.seterr(all='ignore')

def mk(s):
    """Spectrum with exactly the given data / mask / folded flag / labels (no corner masking, no checks)"""
    data = np.array(s['data'], dtype=float).reshape(s['shape'])
    mask = np.array(s['mask'], dtype=bool).reshape(s['shape'])
    if s.get('ctor') == 'default':
        # the ordinary user path: default mask_corners=True
        fs = dadi.Spectrum(data, mask=mask, data_folded=s['folded'], check_folding=False, pop_ids=s.get('pop_ids'),
                           extrap_x=s.get('extrap_x'))
    else:
        fs = dadi.Spectrum(data, mask=mask, mask_corners=False, data_folded=s['folded'], check_folding=False,
                           pop_ids=s.get('pop_ids'), extrap_x=s.get('extrap_x'))
    return fs

# ------------------------------------------------------------------------------------------------
# spellings (stream 'layouts' of harness/props/c09_layouts.py): the SAME logical spectrum / operand / parameter handed
# over in another memory layout, container or numeric type.  Every builder returns an object whose logical content
# (C-order ravel of values and mask, flags, labels) is the one of mk(s); a spelling that does not apply to this content
# returns None ('n/a'), a spelling the library refuses raises (reported as 'rejected').

class NotApplicable(Exception):
    pass

def logical(s):
    x = mk(s)
    return np.ascontiguousarray(np.array(x.data, dtype=float)), np.ascontiguousarray(np.array(np.ma.getmaskarray(x), dtype=bool))

def _rot(arr):
    d = arr.ndim
    perm = list(range(1, d)) + [0]
    inv = list(np.argsort(perm))
    return np.ascontiguousarray(arr.transpose(perm)).transpose(inv)

def _strided(arr, fill):
    big = np.empty([2 * n - 1 for n in arr.shape] if arr.ndim else [], dtype=arr.dtype)
    if arr.dtype == bool:
        big[...] = (np.indices(big.shape).sum(axis=0) % 3 == 0) if arr.ndim else False
    else:
        big[...] = fill
    ev = (slice(None, None, 2),) * arr.ndim
    big[ev] = arr
    return big, ev

def lay_array(arr, lay):
    """ndarray with the logical content of the C-contiguous `arr` in memory layout `lay`"""
    d = arr.ndim
    if lay == 'C':
        return arr.copy()
    if lay == 'F':
        return np.asfortranarray(arr)
    if lay == 'rot':
        if d < 3: raise NotApplicable()
        return _rot(arr)
    if lay == 'swap':
        if d < 2: raise NotApplicable()
        return np.ascontiguousarray(arr.swapaxes(0, d - 1)).swapaxes(0, d - 1)
    if lay == 'strided':
        big, ev = _strided(arr, 777.25 if arr.dtype != bool else False)
        return big[ev]
    if lay == 'neg':
        return np.ascontiguousarray(np.flip(arr))[(slice(None, None, -1),) * d]
    if lay == 'neg_last':
        return np.ascontiguousarray(arr[..., ::-1])[..., ::-1]
    if lay == 'negF':
        if d < 2: raise NotApplicable()
        return np.asfortranarray(np.flip(arr))[(slice(None, None, -1),) * d]
    raise ValueError(lay)

def mk_sp(s, sp):
    if sp in (None, 'C'):
        return mk(s)
    D, M = logical(s)
    d = D.ndim
    kw = dict(mask_corners=False, data_folded=s['folded'], check_folding=False, pop_ids=s.get('pop_ids'), extrap_x=s.get('extrap_x'))
    def S(data, mask, **k):
        kk = dict(kw); kk.update(k)
        return dadi.Spectrum(data, mask=mask, **kk)
    F = np.asfortranarray
    if sp == 'F':
        if d < 2: raise NotApplicable()
        return S(F(D), F(M))
    if sp == 'Fdata':
        if d < 2: raise NotApplicable()
        return S(F(D), M)
    if sp == 'Fmask':
        if d < 2: raise NotApplicable()
        return S(D, F(M))
    if sp == 'rot':
        return S(lay_array(D, 'rot'), lay_array(M, 'rot'))
    if sp == 'nocopyF':
        if d < 2: raise NotApplicable()
        return S(F(D).copy(order='F'), F(M).copy(order='F'), copy=False)
    if sp in ('transpose', 'dotT'):
        if d < 2: raise NotApplicable()
        pre = S(np.ascontiguousarray(D.T), np.ascontiguousarray(M.T))
        return pre.transpose() if sp == 'transpose' else pre.T
    if sp == 'swapaxes':
        if d < 2: raise NotApplicable()
        pre = S(np.ascontiguousarray(D.swapaxes(0, d - 1)), np.ascontiguousarray(M.swapaxes(0, d - 1)))
        return pre.swapaxes(0, d - 1)
    if sp in ('reorder_rev', 'reorder_swap12'):
        if d < 2 or (sp == 'reorder_swap12' and d < 3): raise NotApplicable()
        newaxes = list(range(d - 1, -1, -1)) if sp == 'reorder_rev' else [1, 0] + list(range(2, d))
        inv = [int(t) for t in np.argsort(newaxes)]
        ids = s.get('pop_ids')
        pre = S(np.ascontiguousarray(D.transpose(inv)), np.ascontiguousarray(M.transpose(inv)),
                pop_ids=None if ids is None else [ids[j] for j in inv])
        return pre.reorder_pops([a + 1 for a in newaxes])
    if sp == 'strided':
        bd, ev = _strided(D, 777.25); bm, _ = _strided(M, False)
        return S(bd, bm)[ev]
    if sp == 'neg':
        return S(np.ascontiguousarray(np.flip(D)), np.ascontiguousarray(np.flip(M)))[(slice(None, None, -1),) * d]
    if sp == 'neg_last':
        return S(np.ascontiguousarray(D[..., ::-1]), np.ascontiguousarray(M[..., ::-1]))[(Ellipsis, slice(None, None, -1))]
    if sp == 'negF':
        if d < 2: raise NotApplicable()
        return S(F(np.flip(D)), F(np.flip(M)))[(slice(None, None, -1),) * d]
    if sp == 'list':
        return S(D.tolist(), M.tolist())
    if sp in ('int', 'intF', 'int32'):
        if not np.all(D == np.round(D)) or (sp == 'intF' and d < 2): raise NotApplicable()
        I = D.astype(np.int32 if sp == 'int32' else np.int64)
        return S(F(I) if sp == 'intF' else I, F(M) if sp == 'intF' else M)
    if sp in ('f32', 'f32F'):
        if not np.all(D.astype(np.float32).astype(float) == D) or (sp == 'f32F' and d < 2): raise NotApplicable()
        I = D.astype(np.float32)
        return S(F(I) if sp == 'f32F' else I, F(M) if sp == 'f32F' else M)
    if sp in ('mask_int', 'mask_intF'):
        if sp == 'mask_intF' and d < 2: raise NotApplicable()
        I = M.astype(np.int8)
        return S(F(D) if sp == 'mask_intF' else D, F(I) if sp == 'mask_intF' else I)
    if sp in ('ma_in', 'ma_inF'):
        if sp == 'ma_inF' and d < 2: raise NotApplicable()
        ma = np.ma.masked_array(F(D), mask=F(M)) if sp == 'ma_inF' else np.ma.masked_array(D, mask=M)
        return dadi.Spectrum(ma, **kw)
    if sp in ('nomask', 'nomaskF'):
        if M.any() or (sp == 'nomaskF' and d < 2): raise NotApplicable()
        return dadi.Spectrum(F(D) if sp == 'nomaskF' else D, **kw)
    if sp == 'spec_in_F':
        if d < 2: raise NotApplicable()
        return dadi.Spectrum(S(F(D), F(M)), mask_corners=False, extrap_x=s.get('extrap_x'))
    raise ValueError(sp)

def p_sp(p, sp):
    """the misidentification probability p in another numeric spelling"""
    if sp in (None, 'float'): return float(p)
    if sp == 'np.float64': return np.float64(p)
    if sp == 'np.float32':
        if float(np.float32(p)) != p: raise NotApplicable()
        return np.float32(p)
    if sp == 'np.float16':
        if float(np.float16(p)) != p: raise NotApplicable()
        return np.float16(p)
    if sp == '0d': return np.array(float(p))
    if sp == '1elem': return np.array([float(p)])
    if sp == 'ma0d': return np.ma.masked_array(float(p))
    if p not in (0.0, 1.0): raise NotApplicable()
    if sp == 'int': return int(p)
    if sp == 'bool': return bool(p)
    if sp == 'np.int64': return np.int64(p)
    if sp == 'np.int8': return np.int8(p)
    if sp == 'np.bool_': return np.bool_(p)
    if sp == '0d_int': return np.array(int(p))
    raise ValueError(sp)

def params_sp(p, sp):
    base = [1.0, 2.0, float(p)]
    if sp in (None, 'ndarray'): return np.array(base)
    if sp == 'list': return list(base)
    if sp == 'tuple': return tuple(base)
    if sp == 'strided': return np.array([1.0, 9.0, 2.0, 9.0, float(p), 9.0])[::2]
    if sp == 'neg': return np.array(base[::-1])[::-1]
    if sp == 'f32':
        if float(np.float32(p)) != p: raise NotApplicable()
        return np.array(base, dtype=np.float32)
    if sp == 'object': return np.array(base, dtype=object)
    if sp == 'list_np': return [np.float64(1.0), np.float64(2.0), np.float64(p)]
    if p not in (0.0, 1.0): raise NotApplicable()
    if sp == 'int_list': return [1, 2, int(p)]
    if sp == 'int_array': return np.array([1, 2, int(p)])
    raise ValueError(sp)

def strides_of(a):
    out = {'strides': list(a.strides) if hasattr(a, 'strides') else None}
    if isinstance(a, np.ma.MaskedArray):
        m = np.ma.getmask(a)
        out['mask_strides'] = list(m.strides) if m is not np.ma.nomask else None
    return out

def operand_sp(o, sp):
    """operand of a binary / in-place operator in another spelling"""
    if sp in (None, 'C'):
        return operand(o)
    t = o['t']
    if t == 'scalar':
        v = o['v']
        if sp == 'np.float64': return np.float64(v)
        if sp == '0d': return np.array(float(v))
        if sp == '1elem': return np.array([float(v)])
        if sp == 'np.float32':
            if float(np.float32(v)) != v: raise NotApplicable()
            return np.float32(v)
        if v != int(v): raise NotApplicable()
        if sp == 'int': return int(v)
        if sp == 'np.int64': return np.int64(v)
        if sp == '0d_int': return np.array(int(v))
        if sp == 'bool':
            if v not in (0.0, 1.0): raise NotApplicable()
            return bool(v)
        raise ValueError(sp)
    if t == 'spec':
        return mk_sp(o, sp)
    A = np.array(o['data'], dtype=float).reshape(o['shape'])
    M = np.array(o['mask'], dtype=bool).reshape(o['shape']) if t == 'masked' else None
    if sp in ('list', 'tuple'):
        if t != 'array': raise NotApplicable()
        def tup(x):
            return tuple(tup(y) for y in x) if isinstance(x, list) else x
        return A.tolist() if sp == 'list' else tup(A.tolist())
    if sp in ('int', 'intF', 'f32'):
        if sp == 'f32':
            if not np.all(A.astype(np.float32).astype(float) == A): raise NotApplicable()
            A2 = A.astype(np.float32)
        else:
            if not np.all(A == np.round(A)): raise NotApplicable()
            A2 = A.astype(np.int64)
            if sp == 'intF':
                if A.ndim < 2: raise NotApplicable()
                A2 = np.asfortranarray(A2)
        return A2 if M is None else np.ma.masked_array(A2, mask=M)
    A2 = lay_array(A, sp)
    return A2 if M is None else np.ma.masked_array(A2, mask=lay_array(M, sp))

def fl(x):
    x = float(x)
    return x if math.isfinite(x) else None

def dump(a):
    d = {'type': type(a).__name__}
    if isinstance(a, np.ma.MaskedArray):
        d['shape'] = list(a.shape)
        d['data'] = [fl(t) for t in np.asarray(a.data, dtype=float).ravel()]
        d['mask'] = [bool(t) for t in np.ma.getmaskarray(a).ravel()]
    elif isinstance(a, np.ndarray):
        d['shape'] = list(a.shape)
        d['data'] = [fl(t) for t in np.asarray(a, dtype=float).ravel()]
        d['mask'] = None
    else:
        d['scalar'] = fl(a) if isinstance(a, (int, float, np.floating, np.integer)) else repr(a)
    f = getattr(a, 'folded', 'missing')
    d['folded'] = bool(f) if isinstance(f, (bool, np.bool_)) else repr(f)
    d['pop_ids'] = list(getattr(a, 'pop_ids', None)) if getattr(a, 'pop_ids', None) is not None else None
    ex = getattr(a, 'extrap_x', None)
    d['extrap_x'] = fl(ex) if ex is not None else None
    return d

def operand(o):
    t = o['t']
    if t == 'scalar':
        v = o['v']
        if o.get('np'):
            return np.float64(v)
        if o.get('int'):
            return int(v)
        return float(v)
    if t == 'array':
        return np.array(o['data'], dtype=float).reshape(o['shape'])
    if t == 'masked':
        return np.ma.masked_array(np.array(o['data'], dtype=float).reshape(o['shape']),
                                  mask=np.array(o['mask'], dtype=bool).reshape(o['shape']))
    if t == 'spec':
        return mk(o)
    raise ValueError(t)

SYNTAX = {
    '__add__': lambda a, b: a + b, '__radd__': lambda a, b: b + a,
    '__sub__': lambda a, b: a - b, '__rsub__': lambda a, b: b - a,
    '__mul__': lambda a, b: a * b, '__rmul__': lambda a, b: b * a,
    '__truediv__': lambda a, b: a / b, '__rtruediv__': lambda a, b: b / a,
    '__floordiv__': lambda a, b: a // b, '__rfloordiv__': lambda a, b: b // a,
    '__pow__': lambda a, b: a ** b, '__rpow__': lambda a, b: b ** a,
}
def isyntax(name, a, b):
    if name == '__iadd__': a += b
    elif name == '__isub__': a -= b
    elif name == '__imul__': a *= b
    elif name == '__itruediv__': a /= b
    elif name == '__ifloordiv__': a //= b
    elif name == '__ipow__': a **= b
    else: raise KeyError(name)
    return a

def sel_of(sel):
    out = []
    for e in sel:
        if 'i' in e:
            out.append(int(e['i']))
        else:
            out.append(slice(*e['s']))
    return tuple(out)

def run_case(c):
    k = c['kind']
    rec = {'id': c['id']}
    sp = c.get('sp')            # spelling of the Spectrum the entry point is applied to
    lay = sp is not None        # a case of the layouts stream: also record the object afterwards and call twice
    def after(x, key='in_after', st0=None):
        if lay:
            rec[key] = dump(x)
            rec[key + '_strides_same'] = (st0 is None) or (strides_of(x) == st0)
    if k == 'fold':
        x = mk_sp(c['a'], sp)
        rec['in'] = dump(x); st0 = strides_of(x)
        try:
            f = x.fold()
            rec['f'] = dump(f)
        except ValueError as e:
            rec['f'] = {'raised': 'ValueError', 'msg': str(e)[:100]}
            return rec
        u = f.unfold(); rec['u'] = dump(u)
        f2 = u.fold(); rec['f2'] = dump(f2)
        # mirrored input built with numpy only
        xr = dadi.Spectrum(np.flip(x.data).copy(), mask=np.flip(np.ma.getmaskarray(x)).copy(), mask_corners=False,
                           data_folded=False, pop_ids=x.pop_ids, extrap_x=x.extrap_x)
        rec['fr'] = dump(xr.fold())
        rec['sum_in'] = fl(x.sum()) if x.count() else 0.0
        rec['sum_f'] = fl(f.sum()) if f.count() else 0.0
        if lay:
            # the mirror through the library's own helper, in the layout under test
            rec['rev'] = dump(dadi.Numerics.reverse_array(x))
            rec['f_again'] = dump(x.fold())         # the same object a second time
            rec['u_again'] = dump(f.unfold())
            after(x, st0=st0)
    elif k == 'unfold':
        x = mk_sp(c['a'], sp)
        rec['in'] = dump(x); st0 = strides_of(x)
        try:
            u = x.unfold()
            rec['u'] = dump(u)
        except ValueError as e:
            rec['u'] = {'raised': 'ValueError', 'msg': str(e)[:100]}
        if lay:
            try:
                rec['u_again'] = dump(x.unfold())
            except ValueError as e:
                rec['u_again'] = {'raised': 'ValueError', 'msg': str(e)[:100]}
            after(x, st0=st0)
    elif k == 'misid':
        x = mk_sp(c['a'], sp)
        rec['in'] = dump(x); st0 = strides_of(x)
        p = c['p']
        via = c.get('via', 'apply')
        if via == 'apply':
            pv = p_sp(p, c.get('psp'))
            r = dadi.Numerics.apply_anc_state_misid(x, pv)
            if lay:
                rec['r_again'] = dump(dadi.Numerics.apply_anc_state_misid(x, pv))
                rec['p_after'] = repr(pv) == repr(p_sp(p, c.get('psp')))
        elif via == 'np':
            r = dadi.Numerics.apply_anc_state_misid(x, np.float64(p))
        else:
            def model(params, ns, pts=None, scale=1.0):
                return x
            g = dadi.Numerics.make_anc_state_misid_func(model)
            rec['name'] = g.__name__
            pr = params_sp(p, c.get('parsp'))
            r = g(pr, None, pts=None)
            if lay:
                rec['r_again'] = dump(g(pr, None, pts=None))
                rec['p_after'] = repr(pr) == repr(params_sp(p, c.get('parsp')))
        rec['r'] = dump(r)
        after(x, st0=st0)
    elif k in ('bin', 'iop'):
        a = mk_sp(c['a'], sp)
        rec['in'] = dump(a)
        b = operand_sp(c['b'], c.get('bsp'))
        if c['b']['t'] == 'spec':
            rec['b_in'] = dump(b)
        if lay and isinstance(b, np.ndarray):
            rec['b_before'] = dump(b); stb = strides_of(b)
        name = c['op']
        try:
            if c['call'] == 'method':
                r = getattr(a, name)(b)
            elif k == 'bin':
                r = SYNTAX[name](a, b)
            else:
                r = isyntax(name, a, b)
            rec['r'] = dump(r)
            rec['r_is_self'] = r is a
            rec['a_after'] = dump(a)
        except (ValueError, AttributeError, TypeError) as e:
            rec['r'] = {'raised': type(e).__name__, 'msg': str(e)[:100]}
        if lay and isinstance(b, np.ndarray):
            after(b, 'b_after', stb)
    elif k == 'slice':
        a = mk_sp(c['a'], sp)
        rec['in'] = dump(a); st0 = strides_of(a)
        r = a[sel_of(c['sel'])]
        rec['r'] = dump(r)
        after(a, st0=st0)
    elif k == 'unary':
        a = mk_sp(c['a'], sp)
        rec['in'] = dump(a); st0 = strides_of(a)
        op = c['op']
        if op == 'neg': r = -a
        elif op == 'pos': r = +a
        elif op == 'abs': r = abs(a)
        elif op == 'log': r = a.log()
        elif op == 'copy': r = a.copy()
        elif op == 'reverse': r = dadi.Numerics.reverse_array(a)
        elif op == 'transpose': r = a.transpose()
        elif op == 'exp': r = np.exp(a)
        elif op == 'reverse_ndarray':
            # the helper on a plain ndarray / plain masked array in the layout under test
            D, M = logical(c['a'])
            r = dadi.Numerics.reverse_array(lay_array(D, c['lay']))
            rec['r2'] = dump(dadi.Numerics.reverse_array(np.ma.masked_array(lay_array(D, c['lay']), mask=lay_array(M, c['lay']))))
        else: raise ValueError(op)
        rec['r'] = dump(r)
        after(a, st0=st0)
    elif k == 'll':
        model = mk_sp(c['model'], c.get('msp')); data = mk_sp(c['data'], c.get('dsp'))
        lay = c.get('msp') is not None or c.get('dsp') is not None
        rec['model_in'] = dump(model); rec['data_in'] = dump(data)
        fn = dadi.Inference.ll_multinom if c['multinom'] else dadi.Inference.ll
        try:
            rec['ll'] = fl(fn(model, data))
        except ValueError as e:
            rec['ll'] = None; rec['raised'] = 'ValueError'; rec['msg'] = str(e)[:100]
        # the same with the model folded by hand first (property predicate on the implementation)
        if data.folded and not model.folded:
            try:
                rec['ll_prefolded'] = fl(fn(model.fold(), data))
            except ValueError as e:
                rec['ll_prefolded'] = None
        rec['model_after'] = dump(model)
        if lay:
            rec['data_after'] = dump(data)
            try:
                rec['ll_again'] = fl(fn(model, data))
            except ValueError as e:
                rec['ll_again'] = None
    else:
        raise ValueError(k)
    return rec

def main():
    cases = json.load(sys.stdin)
    out = []
    for c in cases:
        try:
            out.append(run_case(c))
        except NotApplicable:
            out.append({'id': c['id'], 'na': True})
        except Exception as e:   # anything unexpected is reported per case, never swallowed
            out.append({'id': c['id'], 'crash': type(e).__name__ + ': ' + str(e)[:300]})
    print(json.dumps(out))
main()
