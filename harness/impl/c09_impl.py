"""Runs the REAL dadi code (Spectrum.fold/unfold, operator overloads, slicing, Numerics.apply_anc_state_misid /
make_anc_state_misid_func, Inference.ll / ll_multinom) on the generated C09 cases.  JSON in, JSON out."""
import sys, json, math, operator, warnings, logging
warnings.filterwarnings('ignore')
import numpy as np
import dadi
for nm in ('Spectrum_mod', 'Numerics', 'Inference'):
    logging.getLogger(nm).setLevel(logging.CRITICAL)
logging.disable(logging.CRITICAL)
np.seterr(all='ignore')

def mk(s):
    """Spectrum with exactly the given data / mask / folded flag / labels (no corner masking, no checks)"""
    data = np.array(s['data'], dtype=float).reshape(s['shape'])
    mask = np.array(s['mask'], dtype=bool).reshape(s['shape'])
    if s.get('ctor') == 'default':
        # the ordinary user path: default mask_corners=True
        fs = dadi.Spectrum(data, mask=mask, data_folded=s['folded'], check_folding=False, pop_ids=s.get('pop_ids'),
                           extrap_x=s.get('extrap_x'))
    else:
        fs = dadi.Spectrum(data, mask=mask, mask_corners=False, data_folded=s['folded'], check_folding=False,
                           pop_ids=s.get('pop_ids'), extrap_x=s.get('extrap_x'))
    return fs

def fl(x):
    x = float(x)
    return x if math.isfinite(x) else None

def dump(a):
    d = {'type': type(a).__name__}
    if isinstance(a, np.ma.MaskedArray):
        d['shape'] = list(a.shape)
        d['data'] = [fl(t) for t in np.asarray(a.data, dtype=float).ravel()]
        d['mask'] = [bool(t) for t in np.ma.getmaskarray(a).ravel()]
    elif isinstance(a, np.ndarray):
        d['shape'] = list(a.shape)
        d['data'] = [fl(t) for t in np.asarray(a, dtype=float).ravel()]
        d['mask'] = None
    else:
        d['scalar'] = fl(a) if isinstance(a, (int, float, np.floating, np.integer)) else repr(a)
    f = getattr(a, 'folded', 'missing')
    d['folded'] = bool(f) if isinstance(f, (bool, np.bool_)) else repr(f)
    d['pop_ids'] = list(getattr(a, 'pop_ids', None)) if getattr(a, 'pop_ids', None) is not None else None
    ex = getattr(a, 'extrap_x', None)
    d['extrap_x'] = fl(ex) if ex is not None else None
    return d

def operand(o):
    t = o['t']
    if t == 'scalar':
        v = o['v']
        if o.get('np'):
            return np.float64(v)
        if o.get('int'):
            return int(v)
        return float(v)
    if t == 'array':
        return np.array(o['data'], dtype=float).reshape(o['shape'])
    if t == 'masked':
        return np.ma.masked_array(np.array(o['data'], dtype=float).reshape(o['shape']),
                                  mask=np.array(o['mask'], dtype=bool).reshape(o['shape']))
    if t == 'spec':
        return mk(o)
    raise ValueError(t)

SYNTAX = {
    '__add__': lambda a, b: a + b, '__radd__': lambda a, b: b + a,
    '__sub__': lambda a, b: a - b, '__rsub__': lambda a, b: b - a,
    '__mul__': lambda a, b: a * b, '__rmul__': lambda a, b: b * a,
    '__truediv__': lambda a, b: a / b, '__rtruediv__': lambda a, b: b / a,
    '__floordiv__': lambda a, b: a // b, '__rfloordiv__': lambda a, b: b // a,
    '__pow__': lambda a, b: a ** b, '__rpow__': lambda a, b: b ** a,
}
def isyntax(name, a, b):
    if name == '__iadd__': a += b
    elif name == '__isub__': a -= b
    elif name == '__imul__': a *= b
    elif name == '__itruediv__': a /= b
    elif name == '__ifloordiv__': a //= b
    elif name == '__ipow__': a **= b
    else: raise KeyError(name)
    return a

def sel_of(sel):
    out = []
    for e in sel:
        if 'i' in e:
            out.append(int(e['i']))
        else:
            out.append(slice(*e['s']))
    return tuple(out)

def run_case(c):
    k = c['kind']
    rec = {'id': c['id']}
    if k == 'fold':
        x = mk(c['a'])
        rec['in'] = dump(x)
        try:
            f = x.fold()
            rec['f'] = dump(f)
        except ValueError as e:
            rec['f'] = {'raised': 'ValueError', 'msg': str(e)[:100]}
            return rec
        u = f.unfold(); rec['u'] = dump(u)
        f2 = u.fold(); rec['f2'] = dump(f2)
        # mirrored input built with numpy only
        xr = dadi.Spectrum(np.flip(x.data).copy(), mask=np.flip(np.ma.getmaskarray(x)).copy(), mask_corners=False,
                           data_folded=False, pop_ids=x.pop_ids, extrap_x=x.extrap_x)
        rec['fr'] = dump(xr.fold())
        rec['sum_in'] = fl(x.sum()) if x.count() else 0.0
        rec['sum_f'] = fl(f.sum()) if f.count() else 0.0
    elif k == 'unfold':
        x = mk(c['a'])
        rec['in'] = dump(x)
        try:
            u = x.unfold()
            rec['u'] = dump(u)
        except ValueError as e:
            rec['u'] = {'raised': 'ValueError', 'msg': str(e)[:100]}
    elif k == 'misid':
        x = mk(c['a'])
        rec['in'] = dump(x)
        p = c['p']
        via = c.get('via', 'apply')
        if via == 'apply':
            r = dadi.Numerics.apply_anc_state_misid(x, p)
        elif via == 'np':
            r = dadi.Numerics.apply_anc_state_misid(x, np.float64(p))
        else:
            def model(params, ns, pts=None, scale=1.0):
                return x
            g = dadi.Numerics.make_anc_state_misid_func(model)
            rec['name'] = g.__name__
            r = g(np.array([1.0, 2.0, p]), None, pts=None)
        rec['r'] = dump(r)
    elif k in ('bin', 'iop'):
        a = mk(c['a'])
        rec['in'] = dump(a)
        b = operand(c['b'])
        if c['b']['t'] == 'spec':
            rec['b_in'] = dump(b)
        name = c['op']
        try:
            if c['call'] == 'method':
                r = getattr(a, name)(b)
            elif k == 'bin':
                r = SYNTAX[name](a, b)
            else:
                r = isyntax(name, a, b)
            rec['r'] = dump(r)
            rec['r_is_self'] = r is a
            rec['a_after'] = dump(a)
        except (ValueError, AttributeError, TypeError) as e:
            rec['r'] = {'raised': type(e).__name__, 'msg': str(e)[:100]}
    elif k == 'slice':
        a = mk(c['a'])
        rec['in'] = dump(a)
        r = a[sel_of(c['sel'])]
        rec['r'] = dump(r)
    elif k == 'unary':
        a = mk(c['a'])
        rec['in'] = dump(a)
        op = c['op']
        if op == 'neg': r = -a
        elif op == 'pos': r = +a
        elif op == 'abs': r = abs(a)
        elif op == 'log': r = a.log()
        elif op == 'copy': r = a.copy()
        elif op == 'reverse': r = dadi.Numerics.reverse_array(a)
        elif op == 'transpose': r = a.transpose()
        elif op == 'exp': r = np.exp(a)
        else: raise ValueError(op)
        rec['r'] = dump(r)
    elif k == 'll':
        model = mk(c['model']); data = mk(c['data'])
        rec['model_in'] = dump(model); rec['data_in'] = dump(data)
        fn = dadi.Inference.ll_multinom if c['multinom'] else dadi.Inference.ll
        try:
            rec['ll'] = fl(fn(model, data))
        except ValueError as e:
            rec['ll'] = None; rec['raised'] = 'ValueError'; rec['msg'] = str(e)[:100]
        # the same with the model folded by hand first (property predicate on the implementation)
        if data.folded and not model.folded:
            try:
                rec['ll_prefolded'] = fl(fn(model.fold(), data))
            except ValueError as e:
                rec['ll_prefolded'] = None
        rec['model_after'] = dump(model)
    else:
        raise ValueError(k)
    return rec

def main():
    cases = json.load(sys.stdin)
    out = []
    for c in cases:
        try:
            out.append(run_case(c))
        except Exception as e:   # anything unexpected is reported per case, never swallowed
            out.append({'id': c['id'], 'crash': type(e).__name__ + ': ' + str(e)[:300]})
    print(json.dumps(out))
main()
