"""Runs the REAL dadi.DFE code (overlay) for the C17 stream 'types' (harness/props/c17_types.py).

JSON request on stdin, JSON answer on the last stdout line.

request  {'pdf_blocks': [...], 'int_blocks': [...]}
  pdf block : {'id', 'pdf', 'xx': [..], 'yy': [..], 'params': [..], 'variants': [{'vid', 'kx', 'ky', 'kp'}]}
              every variant calls PDFs.<pdf>(xx, yy, params) with each argument built in the named SPELLING from the same
              numbers (twice, with the SAME objects), the canonical call (float64 C-contiguous ndarrays) and the reference
              formula PDFs.<pdf>_py on float64 arrays come with the block.
  int block : {'id', 'cache': {...}, 'calls': [{'cid', 'fn', 'pdf1', 'pdf2', 'params', 'theta', 'ext', 'rho', 'npos',
              'variants': [{'vid', 'kp', 'kt', 'ke', 'kr'}]}]}
              the caches are built once per block; every variant calls the entry point with params / theta / exterior_int /
              rho in the named spellings (twice, same objects); the canonical call (list of python floats, python float
              theta, python bool) and, for Cache2D.integrate without exterior integration, the independent reference
              theta * trapezoid quadrature with the reference formula come with the call.
A spelling that cannot hold the numbers exactly (e.g. float16 for 0.3) is answered with {'skipped': ...}.
"""
import sys, json, os, warnings, logging
warnings.filterwarnings('ignore')
import numpy as np
sys.path.insert(0, os.path.dirname(os.path.abspath(__file__)))
import c17_impl as base                      # demographic stand-ins, result_rec (its scipy recording wrappers are harmless)
import dadi
from dadi.DFE import PDFs, Cache1D, Cache2D, Cache2D_mod
logging.getLogger('Numerics').setLevel(logging.ERROR)
np.seterr(all='ignore')

try:
    trapz = np.trapezoid
except AttributeError:                       # pragma: no cover
    trapz = np.trapz

class Skip(Exception):
    pass

FLOATS = {'f64': np.float64, 'f32': np.float32, 'f16': np.float16, 'longdouble': np.longdouble}
INTS = {'i64': np.int64, 'i32': np.int32, 'i16': np.int16, 'i8': np.int8, 'u8': np.uint8, 'u64': np.uint64, 'bool': np.bool_}

def _exact(vals, dt):
    """ndarray of dtype dt holding exactly vals, else Skip"""
    v64 = np.array(vals, dtype=np.float64)
    with np.errstate(all='ignore'):
        a = v64.astype(dt)
    if not np.array_equal(a.astype(np.float64), v64):
        raise Skip('not representable in %s' % np.dtype(dt).name)
    return a

def _layout(a, how):
    """the same 1-D numbers in another memory layout; every view sits inside a larger buffer filled with a sentinel"""
    n = a.size
    sent = 77 if a.dtype.kind in 'iub' else 7.75
    if a.dtype.kind == 'b':
        sent = True
    if how == 'c':
        return a
    if how == 'step2':
        buf = np.full(2 * n + 4, sent, dtype=a.dtype); v = buf[1:1 + 2 * n:2]
    elif how == 'step3':
        buf = np.full(3 * n + 4, sent, dtype=a.dtype); v = buf[2:2 + 3 * n:3]
    elif how == 'rev':
        buf = np.full(n + 4, sent, dtype=a.dtype); v = buf[2:2 + n][::-1]; v[...] = a; return v
    elif how == 'offset':                     # contiguous, but not the start of its buffer and not owning it
        buf = np.full(n + 6, sent, dtype=a.dtype); v = buf[3:3 + n]
    elif how == 'Frow':                       # a row of a Fortran-ordered matrix (strided)
        buf = np.full((3, n), sent, dtype=a.dtype, order='F'); v = buf[1, :]
    elif how == 'Fcol':                       # a column of a Fortran-ordered matrix (contiguous)
        buf = np.full((n, 3), sent, dtype=a.dtype, order='F'); v = buf[:, 1]
    elif how == 'Tcol':                       # a column of a transposed C matrix (contiguous), a row of it (strided): 'Trow'
        buf = np.full((3, n), sent, dtype=a.dtype).T; v = buf[:, 1]
    elif how == 'Trow':
        buf = np.full((n, 3), sent, dtype=a.dtype).T; v = buf[1, :]
    elif how == 'ro':
        v = a.copy(); v.setflags(write=False); return v
    else:
        raise ValueError(how)
    v[...] = a
    return v

def spell(vals, kind):
    """vals: list of floats.  kind: see harness/props/c17_types.py (ARRAY_KINDS / SCALAR_KINDS)"""
    vals = [float(v) for v in vals]
    integral = all(v.is_integer() for v in vals)
    # ---- scalars
    if kind.startswith('s:'):
        if len(vals) != 1:
            raise Skip('scalar spelling of %d numbers' % len(vals))
        v = vals[0]; k = kind[2:]
        if k == 'float':
            return v
        if k == 'int':
            if not integral:
                raise Skip('not integral')
            return int(v)
        if k == 'bool':
            if v not in (0.0, 1.0):
                raise Skip('not 0/1')
            return bool(v)
        zero_d = k.startswith('0d_')
        if zero_d:
            k = k[3:]
        masked0 = k.startswith('ma_')
        if masked0:
            k = k[3:]
        dt = FLOATS.get(k) or INTS.get(k)
        if dt is None:
            raise ValueError(kind)
        a = _exact([v], dt)
        if masked0:
            return np.ma.masked_array(a.reshape(()), mask=False)
        return a.reshape(()) if zero_d else a[0]
    # ---- containers of python / numpy scalars
    if kind in ('list', 'tuple'):
        return list(vals) if kind == 'list' else tuple(vals)
    if kind in ('list_int', 'tuple_int'):
        if not integral:
            raise Skip('not integral')
        r = [int(v) for v in vals]
        return r if kind == 'list_int' else tuple(r)
    if kind == 'list_bool':
        if not all(v in (0.0, 1.0) for v in vals):
            raise Skip('not 0/1')
        return [bool(v) for v in vals]
    if kind == 'list_mixed':
        if not any(v.is_integer() for v in vals):
            raise Skip('no integral entry')
        return [int(v) if v.is_integer() else v for v in vals]
    if kind.startswith('list_np_'):
        dt = FLOATS.get(kind[8:]) or INTS.get(kind[8:])
        return list(_exact(vals, dt))
    if kind == 'list_0d':
        return [np.array(v) for v in vals]
    # ---- ndarrays:  <dtype>[_<layout>]   /   be_f64  /  ma_*  /  obj
    if kind == 'be_f64':
        return np.array(vals, dtype='>f8')
    if kind == 'be_f64_step2':
        return _layout(np.array(vals, dtype='>f8'), 'step2')
    if kind == 'obj':
        return np.array(vals, dtype=object)
    if kind.startswith('ma_'):
        rest = kind[3:]
        if rest.endswith('_nomask'):
            return np.ma.masked_array(spell(vals, rest[:-7]))
        if rest.endswith('_hard'):
            m = np.ma.masked_array(spell(vals, rest[:-5]), mask=np.zeros(len(vals), dtype=bool)); m.harden_mask(); return m
        return np.ma.masked_array(spell(vals, rest), mask=np.zeros(len(vals), dtype=bool))
    parts = kind.split('_')
    dt = FLOATS.get(parts[0]) or INTS.get(parts[0])
    if dt is None:
        raise ValueError(kind)
    a = _exact(vals, dt)
    return _layout(a, parts[1] if len(parts) > 1 else 'c')

def snapshot(o):
    """everything a caller could see of an argument object"""
    if isinstance(o, np.ma.MaskedArray):
        return ('ma', str(o.dtype), o.shape, o.strides, np.asarray(o.data).tobytes(), np.ma.getmaskarray(o).tobytes(),
                o.flags.writeable, getattr(o, '_hardmask', None))
    if isinstance(o, np.ndarray):
        b = o.base
        return ('nd', str(o.dtype), o.shape, o.strides, o.tobytes(), o.flags.writeable,
                None if b is None or not isinstance(b, np.ndarray) else np.asarray(b).tobytes())
    if isinstance(o, (list, tuple)):
        return (type(o).__name__, [snapshot(x) for x in o])
    return (type(o).__name__, repr(o))

def err(e):
    return type(e).__name__ + ': ' + str(e)[:200]

def val_rec(res):
    if isinstance(res, np.ma.MaskedArray):
        mask = [bool(t) for t in np.ma.getmaskarray(res).ravel()]
        data = np.asarray(res.data)
    else:
        data = np.asarray(res)
        mask = [False] * data.size
    d64 = np.asarray(data, dtype=np.float64).ravel()
    return {'res': [float(t) if np.isfinite(t) else repr(float(t)) for t in d64], 'mask': mask, 'shape': list(np.shape(res)),
            'dtype': str(data.dtype), 'type': type(res).__name__}

def twice(build, call):
    """build the argument objects, call, call again with the SAME objects; snapshots before / after"""
    rec = {}
    try:
        args = build()
    except Skip as e:
        return {'skipped': str(e)}
    snap = [snapshot(a) for a in args]
    try:
        r1 = val_rec(call(*args))
    except Exception as e:
        return {'error': err(e), 'unchanged': [snapshot(a) for a in args] == snap}
    rec.update(r1)
    rec['unchanged'] = [snapshot(a) for a in args] == snap
    try:
        r2 = val_rec(call(*args))
        rec['again_same'] = (r2['res'] == r1['res'] and r2['mask'] == r1['mask'] and r2['shape'] == r1['shape'])
        if not rec['again_same']:
            rec['again'] = r2['res']
    except Exception as e:
        rec['again_same'] = False
        rec['again'] = err(e)
    rec['unchanged2'] = [snapshot(a) for a in args] == snap
    return rec

# ------------------------------------------------------------------------------------------------------------
def run_pdf_block(b):
    fast = getattr(PDFs, b['pdf']); ref = getattr(PDFs, b['pdf'] + '_py')
    out = {'id': b['id'], 'variants': []}
    c = lambda v: np.array(v, dtype=np.float64)
    try:
        out['canon'] = val_rec(fast(c(b['xx']), c(b['yy']), c(b['params'])))
    except Exception as e:
        out['canon'] = {'error': err(e)}
    try:
        out['py'] = val_rec(ref(c(b['xx']), c(b['yy']), list(b['params'])))
    except Exception as e:
        out['py'] = {'error': err(e)}
    for v in b['variants']:
        rec = twice(lambda: (spell(b['xx'], v['kx']), spell(b['yy'], v['ky']), spell(b['params'], v['kp'])), fast)
        rec['vid'] = v['vid']
        out['variants'].append(rec)
    return out

def entry(fn, call, s1, s2):
    """(params, theta, ext, rho) -> result of the entry point, the pdfs being the library's own functions"""
    p1 = getattr(PDFs, call['pdf1']) if call.get('pdf1') else None
    p2 = getattr(PDFs, call['pdf2']) if call.get('pdf2') else None
    npos = call.get('npos', 1)
    if fn == 'int1':
        return lambda p, t, e, r: s1.integrate(p, None, p1, t, None, exterior_int=e)
    if fn == 'pp1':
        return lambda p, t, e, r: s1.integrate_point_pos(p, None, p1, t, None, npos, None, exterior_int=e)
    if fn == 'int2':
        return lambda p, t, e, r: s2.integrate(p, None, p2, t, None, exterior_int=e)
    if fn == 'pp2':
        return lambda p, t, e, r: s2.integrate_point_pos(p, None, p2, t, rho=r)
    if fn == 'sympp2':
        return lambda p, t, e, r: s2.integrate_symmetric_point_pos(p, None, p2, t)
    if fn == 'mix':
        return lambda p, t, e, r: Cache2D_mod.mixture(p, None, s1, s2, p1, p2, t, None, exterior_int=e)
    if fn == 'mixsym':
        return lambda p, t, e, r: Cache2D_mod.mixture_symmetric_point_pos(p, None, s1, s2, p1, p2, t, None)
    if fn == 'mixpp':
        return lambda p, t, e, r: Cache2D_mod.mixture_point_pos(p, None, s1, s2, p1, p2, t, None)
    if fn == 'vourlaki':
        import dadi.DFE.Vourlaki2022 as V
        return lambda p, t, e, r: V.Vourlaki_mixture(p, None, s1, s2, t, None)
    raise ValueError(fn)

def spell_flag(v, k):
    if k == 'bool':
        return bool(v)
    if k == 'np_bool':
        return np.bool_(v)
    if k == 'int':
        return int(v)
    if k == 'np_int':
        return np.int64(int(v))
    if k == '0d_bool':
        return np.array(bool(v))
    raise ValueError(k)

def reference_quadrature(s2, pdf, params, theta):
    ref = getattr(PDFs, pdf + '_py')
    neg = np.asarray(s2.neg_gammas, dtype=float)
    w = ref(-neg, -neg, [float(p) for p in params])
    n = len(neg)
    weighted = w[:, :, np.newaxis, np.newaxis] * np.asarray(s2.spectra, dtype=float)[:n, :n]
    return theta * trapz(trapz(weighted, neg, axis=0), neg, axis=0)

def run_int_block(b):
    out = {'id': b['id'], 'calls': []}
    c = b['cache']
    ckw = dict(gamma_bounds=tuple(c['gamma_bounds']), gamma_pts=c['gamma_pts'], additional_gammas=list(c.get('additional_gammas', [])), cpus=1)
    s1 = s2 = None
    try:
        if c.get('c1'):
            d = dict(c['c1']); d['ngam'] = 1
            s1 = Cache1D([], c['ns'], base.make_demog(d), c['pts'], **ckw)
        if c.get('c2'):
            d = dict(c['c2']); d['ngam'] = 2
            kw2 = dict(ckw); kw2['gamma_pts'] = c.get('gamma_pts2', c['gamma_pts'])
            s2 = Cache2D([], c['ns'], base.make_demog(d), c['pts'], **kw2)
    except Exception as e:
        out['build_error'] = err(e)
        return out
    state = lambda: [None if s is None else (np.asarray(s.spectra, dtype=float).tobytes(), np.asarray(s.gammas, dtype=float).tobytes()) for s in (s1, s2)]
    st0 = state()
    for call in b['calls']:
        f = entry(call['fn'], call, s1, s2)
        rec = {'cid': call['cid'], 'variants': []}
        ext = call.get('ext', True); rho = call.get('rho', 0)
        try:
            rec['canon'] = val_rec(f([float(p) for p in call['params']], float(call['theta']), bool(ext), rho))
        except Exception as e:
            rec['canon'] = {'error': err(e)}
        if call['fn'] == 'int2' and not ext:
            try:
                rec['refquad'] = val_rec(reference_quadrature(s2, call['pdf2'], call['params'], float(call['theta'])))
            except Exception as e:
                rec['refquad'] = {'error': err(e)}
        # time budget per entry-point call (the whole list takes about a second on the unchanged tree): a pdf that returns garbage can make
        # scipy's adaptive quadrature run for minutes; what does not fit is answered 'over_budget' (evaluated fail-closed by the check)
        import time
        t0 = time.time(); budget = float(b.get('budget', 60.0)); timeouts = 0
        for v in call['variants']:
            left = budget - (time.time() - t0)
            if left <= 0 or timeouts >= 2:
                rec['variants'].append({'vid': v['vid'], 'over_budget': True})
                continue
            try:
                r = base.with_alarm(max(10, min(20, left)), lambda: twice(lambda: (spell(call['params'], v['kp']), spell([call['theta']], v['kt']),
                                                                                 spell_flag(ext, v['ke']), spell([rho], v['kr'])), f))
            except base.Timeout:
                r = None
            if r is None or str(r.get('error', '')).startswith('Timeout') or str(r.get('again', '')).startswith('Timeout'):
                timeouts += 1
                r = {'over_budget': True, 'timeout': True}
            r['vid'] = v['vid']
            rec['variants'].append(r)
        rec['caches_unchanged'] = state() == st0
        out['calls'].append(rec)
    return out

def main():
    req = json.load(sys.stdin)
    real_stdout = sys.stdout
    sys.stdout = sys.stderr
    out = {'pdf_blocks': [run_pdf_block(b) for b in req.get('pdf_blocks', [])],
           'int_blocks': [run_int_block(b) for b in req.get('int_blocks', [])]}
    sys.stdout = real_stdout
    print(json.dumps(out))

if __name__ == '__main__':
    main()
