"""Runs the REAL dadi projection code (Numerics._cached_projection, Spectrum.project, _project_one_axis,
fold/unfold) on the generated cases.  JSON on stdin, JSON on the last stdout line."""
import sys, json, warnings, logging, pickle, copy as _copy
warnings.filterwarnings('ignore')
import numpy as np
import dadi
from dadi import Numerics
logging.disable(logging.CRITICAL)


def fl(a):
    return [float(t) for t in np.asarray(a, dtype=float).ravel()]


def bl(a):
    return [bool(t) for t in np.asarray(a, dtype=bool).ravel()]


def dump(fs):
    return {'shape': [int(s) for s in fs.shape], 'data': fl(fs.data), 'mask': bl(np.ma.getmaskarray(fs)),
            'folded': bool(fs.folded), 'folded_type': type(fs.folded).__module__ + '.' + type(fs.folded).__name__,
            'pop_ids': None if fs.pop_ids is None else [str(p) for p in fs.pop_ids],
            'extrap_x': None if fs.extrap_x is None else float(fs.extrap_x),
            'is_spectrum': isinstance(fs, dadi.Spectrum)}


def guarded(f):
    try:
        return dump(f())
    except Exception as e:          # noqa
        return {'error': type(e).__name__ + ': ' + str(e)[:160]}


def prelude(cases):
    """Call history before anything is projected: every other library entry point that reads the module-level
    projection cache (Spectrum._from_count_dict, used by from_data_dict and the bootstraps) is run first on count
    dictionaries whose (proj_to, proj_from, hits) keys overlap the triples examined afterwards; the projection
    weights must still be the hypergeometric ones whatever ran before."""
    out = []
    for c in cases:
        cd = {}
        k = c.get('types', 'canon')
        # argument types of _from_count_dict (same logical dictionary and projections)
        conv = {'keys_i64': np.int64, 'keys_i32': np.int32}.get(k, int)
        cconv = {'counts_float': float, 'counts_np_i64': np.int64, 'counts_np_f64': np.float64}.get(k, lambda x: x)
        for called, derived, pol, cnt in c['entries']:
            cd[(tuple(conv(x) for x in called), tuple(conv(x) for x in derived), bool(pol))] = cconv(cnt)
        proj = NS[k](c['projections']) if k in NS else c['projections']
        try:
            fs = dadi.Spectrum._from_count_dict(cd, proj, polarized=True)
            out.append({'total': float(fs.data.sum()), 'shape': [int(s_) for s_ in fs.shape], 'data': fl(fs.data),
                        'mask': bl(np.ma.getmaskarray(fs)), 'folded': bool(fs.folded)})
        except Exception as e:      # noqa
            out.append({'error': type(e).__name__ + ': ' + str(e)[:160]})
    return out


def weights(triples):
    """each triple is evaluated through the module-level cache exactly as Spectrum.project does; the list is
    walked twice (second pass = cache hits) and the two passes are returned separately."""
    out1, out2 = [], []
    for (to, fr, hits) in triples:
        try:
            out1.append(fl(Numerics._cached_projection(to, fr, hits)))
        except Exception as e:      # noqa
            out1.append({'error': type(e).__name__ + ': ' + str(e)[:160]})
    for (to, fr, hits) in reversed(triples):
        try:
            out2.append(fl(Numerics._cached_projection(to, fr, hits)))
        except Exception as e:      # noqa
            out2.append({'error': type(e).__name__ + ': ' + str(e)[:160]})
    out2.reverse()
    return out1, out2


def typed_weights(items):
    """_cached_projection with the arguments in `pos` given in integer type `kind` (first visit of each key: the
    generator keeps these keys away from every other stream), then again with Python ints (cache hit)"""
    out = []
    for it in items:
        args = [int(x) for x in it['triple']]
        for p in it['pos']:
            args[p] = NS[it['kind']]([args[p]])[0]
        try:
            first = fl(Numerics._cached_projection(*args))
            again = fl(Numerics._cached_projection(*[int(x) for x in it['triple']]))
            out.append({'first': first, 'again': again})
        except Exception as e:      # noqa
            out.append({'error': type(e).__name__ + ': ' + str(e)[:160]})
    return out


def build(c):
    shape = c['shape']
    data = np.array(c['data'], dtype=float).reshape(shape)
    mask = np.array(c['mask'], dtype=bool).reshape(shape)
    fs = dadi.Spectrum(data, mask=mask, mask_corners=c['mask_corners'], pop_ids=c.get('pop_ids'))
    fs.extrap_x = c.get('extrap_x')
    if c['folded']:
        fs = fs.fold()
        for k in c.get('extra_mask', []):
            fs.mask.flat[k % fs.size] = True
    return fs


# ----------------------------------------------------------------------------------------------
# ARGUMENT / ATTRIBUTE TYPES.  A case with c['types'] = {axis: kind} is the SAME logical spectrum and the same logical call
# as the canonical form (float64 C-contiguous data, bool mask array, folded flag a Python bool, pop_ids a list, sample sizes
# a list of Python ints), presented to the library with other types the unchanged library accepts.  The kinds are listed
# (and reviewed) in harness/props/c08.py TYPE_KINDS; an unknown kind is an error here (fail-closed).

def _strided(a, fill):
    big = np.full([2 * s for s in a.shape], fill, dtype=a.dtype)
    sl = (slice(None, None, 2),) * a.ndim
    big[sl] = a
    return big[sl]


def _negstride(a):
    rev = (slice(None, None, -1),) * a.ndim
    return np.ascontiguousarray(a[rev])[rev]


def _readonly(a):
    a = np.array(a); a.setflags(write=False); return a


FLAG = {
    'bool': lambda v: bool(v),
    'np_bool': lambda v: np.bool_(v),
    'np_all': lambda v: np.all(np.array([bool(v), bool(v)])),       # what numpy.all(mask[...]) hands back
    'int': lambda v: int(v),
    'np_int': lambda v: np.int64(v),
    'arr0d': lambda v: np.array(bool(v)),                           # a flag read back from an .npz file
    'float': lambda v: float(v),
}
DATA = {
    'f64': lambda D: np.array(D, dtype=float),
    'i64': lambda D: np.array(D, dtype=np.int64),
    'i32': lambda D: np.array(D, dtype=np.int32),
    'f32': lambda D: np.array(D, dtype=np.float32),
    'longdouble': lambda D: np.array(D, dtype=np.longdouble),
    'bigendian': lambda D: np.array(D, dtype='>f8'),
    'list': lambda D: np.array(D, dtype=float).tolist(),
    'intlist': lambda D: np.array(D, dtype=np.int64).tolist(),
    'ma_nomask': lambda D: np.ma.masked_array(np.array(D, dtype=float)),
    'fortran': lambda D: np.asfortranarray(np.array(D, dtype=float)),
    'transposed': lambda D: np.ascontiguousarray(np.array(D, dtype=float).T).T,
    'strided': lambda D: _strided(np.array(D, dtype=float), 777.0),
    'negstride': lambda D: _negstride(np.array(D, dtype=float)),
    'readonly': lambda D: _readonly(np.array(D, dtype=float)),
    # 'ma_masked' (the mask travels inside the data, no mask argument) and 'spectrum' (the canonical Spectrum itself as
    # data: flag, labels come from its attributes) are handled in build_variant
}
MASK = {
    'bool': lambda M: np.array(M, dtype=bool),
    'int': lambda M: np.array(M, dtype=np.int64),
    'u8': lambda M: np.array(M, dtype=np.uint8),
    'list': lambda M: np.array(M, dtype=bool).tolist(),
    'intlist': lambda M: np.array(M, dtype=np.int64).tolist(),
    'fortran': lambda M: np.asfortranarray(np.array(M, dtype=bool)),
    'strided': lambda M: _strided(np.array(M, dtype=bool), True),
    'negstride': lambda M: _negstride(np.array(M, dtype=bool)),
    'readonly': lambda M: _readonly(np.array(M, dtype=bool)),
    # 'nomask' (numpy.ma.nomask as the mask ARGUMENT of the constructor; only for spectra without masked entries): build_variant
}
NS = {
    'list': lambda ns: [int(n) for n in ns],
    'tuple': lambda ns: tuple(int(n) for n in ns),
    'arr_i64': lambda ns: np.array(ns, dtype=np.int64),
    'arr_i32': lambda ns: np.array(ns, dtype=np.int32),
    'list_i64': lambda ns: [np.int64(n) for n in ns],
    'list_i32': lambda ns: [np.int32(n) for n in ns],
    'tuple_i64': lambda ns: tuple(np.int64(n) for n in ns),
    'list_intp': lambda ns: [np.intp(n) for n in ns],
    'mixed': lambda ns: [np.int64(n) if k % 2 == 0 else int(n) for k, n in enumerate(ns)],
    'sample_sizes': lambda ns: np.asarray([n + 1 for n in ns]) - 1,     # as computed from another spectrum's shape
}
IDS = {'list': list, 'tuple': tuple}
XX = {'float': float, 'np_f64': np.float64, 'np_f32': np.float32}
POST = {
    'none': lambda fs: fs,
    'copy': lambda fs: fs.copy(),
    'deepcopy': lambda fs: _copy.deepcopy(fs),
    'pickle': lambda fs: pickle.loads(pickle.dumps(fs)),
    'mul1': lambda fs: fs * 1.0,
    'add0': lambda fs: fs + 0,
    'slice': lambda fs: fs[(slice(None),) * fs.ndim],
    'view': lambda fs: fs.view(),
    'rewrap': lambda fs: dadi.Spectrum(fs, mask_corners=False, extrap_x=fs.extrap_x),      # (the constructor does not inherit extrap_x)
    'astype': lambda fs: fs.astype(float),
    'ma_array': lambda fs: np.ma.array(fs, copy=True, subok=True),
}


def build_variant(c, fs):
    """the canonical spectrum fs presented with the types c['types'] asks for"""
    t = c['types']
    D = np.array(fs.data, dtype=float); M = np.array(np.ma.getmaskarray(fs), dtype=bool)
    folded = bool(fs.folded)
    dk, mk = t.get('data', 'f64'), t.get('mask', 'bool')
    flagkind, via = t.get('flag'), t.get('via', 'ctor')
    ids = fs.pop_ids if fs.pop_ids is None else IDS[t.get('ids', 'list')](list(fs.pop_ids))
    xx = fs.extrap_x if fs.extrap_x is None else XX[t.get('xx', 'float')](fs.extrap_x)
    if dk == 'spectrum':
        g = dadi.Spectrum(fs, mask_corners=False, extrap_x=xx)       # (the constructor does not inherit extrap_x)
    else:
        if dk == 'ma_masked':
            data, mask = np.ma.masked_array(D.copy(), mask=M.copy()), np.ma.nomask
        else:
            data = DATA[dk](D)
            if not np.array_equal(np.asarray(data, dtype=float), D):
                raise AssertionError('generator: data kind %s does not represent the data exactly' % dk)
            if mk == 'nomask':
                if M.any():
                    raise AssertionError('generator: mask kind nomask on a spectrum with masked entries')
                mask = np.ma.nomask
            else:
                mask = MASK[mk](M)
                if not np.array_equal(np.asarray(mask, dtype=bool), M):
                    raise AssertionError('generator: mask kind %s does not represent the mask exactly' % mk)
        if flagkind == 'none':
            if folded:
                raise AssertionError('generator: data_folded=None on a folded spectrum')
            df = None
        elif flagkind is not None and via == 'ctor':
            df = FLAG[flagkind](folded)
        else:
            df = folded
        g = dadi.Spectrum(data, mask=mask, mask_corners=False, data_folded=df, pop_ids=ids, extrap_x=xx)
        if flagkind not in (None, 'none') and via == 'attr':
            g.folded = FLAG[flagkind](folded)
    return POST[t.get('post', 'none')](g)


def _axis_like(n, ax):
    """the axis argument of _project_one_axis in the integer type of the size argument"""
    return type(n)(ax) if isinstance(n, np.integer) else ax


def spectrum(c):
    rec = {'id': c['id']}
    fs = build(c)
    ns = c['ns']
    if c.get('types'):
        canon = fs
        try:
            fs = build_variant(c, canon)
        except AssertionError as e:
            rec['variant_error'] = str(e)
            fs = canon
        except Exception as e:          # noqa
            rec['build_error'] = type(e).__name__ + ': ' + str(e)[:160]
            fs = canon
        nk = c['types'].get('ns', 'list')
        ns = NS[nk](c['ns'])
        if c.get('mid') is not None:
            c = dict(c); c['mid'] = NS[nk](c['mid'])
    rec['input'] = dump(fs)
    rec['out'] = guarded(lambda: fs.project(ns))
    if c.get('types'):
        # the canonical form AFTER the variant (whichever runs first fills the module-level weight cache)
        rec['canon_input'] = dump(canon)
        rec['canon_out'] = guarded(lambda: canon.project([int(n) for n in c['ns']]))
    if c.get('expect_error'):
        ax = c.get('bad_axis', 0)
        rec['one_axis'] = guarded(lambda: (fs.unfold() if fs.folded else fs)._project_one_axis(ns[ax] if ax < len(ns) else 0, ax))
        return rec
    mid = c['mid']
    rec['two_stage'] = guarded(lambda: fs.project(mid).project(ns))
    # axes one at a time, in the given order, through _project_one_axis
    def in_order():
        cur = fs.unfold() if fs.folded else fs.copy()
        for ax in c['perm']:
            if ns[ax] != fs.sample_sizes[ax] or c.get('noskip'):
                cur = cur._project_one_axis(ns[ax], _axis_like(ns[ax], ax))
        return cur.fold() if fs.folded else cur
    rec['in_order'] = guarded(in_order)
    if fs.folded:
        rec['via_unfold'] = guarded(lambda: fs.unfold().project(ns).fold())
        if c.get('large'):
            # the unfolded spectrum Spectrum.project works on, and its projection before folding back
            rec['unfolded'] = guarded(lambda: fs.unfold())
            rec['unfold_project'] = guarded(lambda: fs.unfold().project(ns))
    else:
        rec['fold_project'] = guarded(lambda: fs.fold().project(ns))
        rec['project_fold'] = guarded(lambda: fs.project(ns).fold())
    # the input must not have been modified
    after = dump(fs)
    rec['input_unchanged'] = (after['data'] == rec['input']['data'] and after['mask'] == rec['input']['mask']
                              and after['folded'] == rec['input']['folded'])
    return rec


def neutral(pairs):
    out = []
    for (n, m) in pairs:
        try:
            with np.errstate(divide='ignore'):
                fs = dadi.Spectrum(1. / np.arange(n + 1))
            p = fs.project([m])
            out.append({'n': n, 'm': m, 'data': fl(p.data), 'mask': bl(np.ma.getmaskarray(p))})
        except Exception as e:      # noqa
            out.append({'n': n, 'm': m, 'error': type(e).__name__ + ': ' + str(e)[:160]})
    return out


def main():
    payload = json.load(sys.stdin)
    res = {}
    res['prelude'] = prelude(payload.get('prelude', []))
    w1, w2 = weights(payload.get('weights', []))
    res['weights'] = w1
    res['weights_cached'] = w2
    # weight vectors beyond the sizes compared inside Coq (first visit only; evaluated before the spectra are projected)
    bw = []
    for (to, fr, hits) in payload.get('bigweights', []):
        try:
            bw.append(fl(Numerics._cached_projection(to, fr, hits)))
        except Exception as e:      # noqa
            bw.append({'error': type(e).__name__ + ': ' + str(e)[:160]})
    res['bigweights'] = bw
    res['typed_weights'] = typed_weights(payload.get('typed_weights', []))
    res['spectra'] = [spectrum(c) for c in payload.get('spectra', [])]
    res['neutral'] = neutral(payload.get('neutral', []))
    print(json.dumps(res))


main()
