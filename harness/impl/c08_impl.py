"""Runs the REAL dadi projection code (Numerics._cached_projection, Spectrum.project, _project_one_axis,
fold/unfold) on the generated cases.  JSON on stdin, JSON on the last stdout line."""
import sys, json, warnings, logging
warnings.filterwarnings('ignore')
import numpy as np
import dadi
from dadi import Numerics
logging.disable(logging.CRITICAL)


def fl(a):
    return [float(t) for t in np.asarray(a, dtype=float).ravel()]


def bl(a):
    return [bool(t) for t in np.asarray(a, dtype=bool).ravel()]


def dump(fs):
    return {'shape': [int(s) for s in fs.shape], 'data': fl(fs.data), 'mask': bl(np.ma.getmaskarray(fs)),
            'folded': bool(fs.folded), 'pop_ids': fs.pop_ids, 'extrap_x': fs.extrap_x,
            'is_spectrum': isinstance(fs, dadi.Spectrum)}


def guarded(f):
    try:
        return dump(f())
    except Exception as e:          # noqa
        return {'error': type(e).__name__ + ': ' + str(e)[:160]}


def prelude(cases):
    """Call history before anything is projected: every other library entry point that reads the module-level
    projection cache (Spectrum._from_count_dict, used by from_data_dict and the bootstraps) is run first on count
    dictionaries whose (proj_to, proj_from, hits) keys overlap the triples examined afterwards; the projection
    weights must still be the hypergeometric ones whatever ran before."""
    out = []
    for c in cases:
        cd = {}
        for called, derived, pol, cnt in c['entries']:
            cd[(tuple(called), tuple(derived), bool(pol))] = cnt
        try:
            fs = dadi.Spectrum._from_count_dict(cd, c['projections'], polarized=True)
            out.append({'total': float(fs.data.sum())})
        except Exception as e:      # noqa
            out.append({'error': type(e).__name__ + ': ' + str(e)[:160]})
    return out


def weights(triples):
    """each triple is evaluated through the module-level cache exactly as Spectrum.project does; the list is
    walked twice (second pass = cache hits) and the two passes are returned separately."""
    out1, out2 = [], []
    for (to, fr, hits) in triples:
        try:
            out1.append(fl(Numerics._cached_projection(to, fr, hits)))
        except Exception as e:      # noqa
            out1.append({'error': type(e).__name__ + ': ' + str(e)[:160]})
    for (to, fr, hits) in reversed(triples):
        try:
            out2.append(fl(Numerics._cached_projection(to, fr, hits)))
        except Exception as e:      # noqa
            out2.append({'error': type(e).__name__ + ': ' + str(e)[:160]})
    out2.reverse()
    return out1, out2


def build(c):
    shape = c['shape']
    data = np.array(c['data'], dtype=float).reshape(shape)
    mask = np.array(c['mask'], dtype=bool).reshape(shape)
    fs = dadi.Spectrum(data, mask=mask, mask_corners=c['mask_corners'], pop_ids=c.get('pop_ids'))
    fs.extrap_x = c.get('extrap_x')
    if c['folded']:
        fs = fs.fold()
        for k in c.get('extra_mask', []):
            fs.mask.flat[k % fs.size] = True
    return fs


def spectrum(c):
    rec = {'id': c['id']}
    fs = build(c)
    rec['input'] = dump(fs)
    ns = c['ns']
    rec['out'] = guarded(lambda: fs.project(ns))
    if c.get('expect_error'):
        ax = c.get('bad_axis', 0)
        rec['one_axis'] = guarded(lambda: (fs.unfold() if fs.folded else fs)._project_one_axis(ns[ax] if ax < len(ns) else 0, ax))
        return rec
    mid = c['mid']
    rec['two_stage'] = guarded(lambda: fs.project(mid).project(ns))
    # axes one at a time, in the given order, through _project_one_axis
    def in_order():
        cur = fs.unfold() if fs.folded else fs.copy()
        for ax in c['perm']:
            if ns[ax] != fs.sample_sizes[ax] or c.get('noskip'):
                cur = cur._project_one_axis(ns[ax], ax)
        return cur.fold() if fs.folded else cur
    rec['in_order'] = guarded(in_order)
    if fs.folded:
        rec['via_unfold'] = guarded(lambda: fs.unfold().project(ns).fold())
        if c.get('large'):
            # the unfolded spectrum Spectrum.project works on, and its projection before folding back
            rec['unfolded'] = guarded(lambda: fs.unfold())
            rec['unfold_project'] = guarded(lambda: fs.unfold().project(ns))
    else:
        rec['fold_project'] = guarded(lambda: fs.fold().project(ns))
        rec['project_fold'] = guarded(lambda: fs.project(ns).fold())
    # the input must not have been modified
    after = dump(fs)
    rec['input_unchanged'] = (after['data'] == rec['input']['data'] and after['mask'] == rec['input']['mask']
                              and after['folded'] == rec['input']['folded'])
    return rec


def neutral(pairs):
    out = []
    for (n, m) in pairs:
        try:
            with np.errstate(divide='ignore'):
                fs = dadi.Spectrum(1. / np.arange(n + 1))
            p = fs.project([m])
            out.append({'n': n, 'm': m, 'data': fl(p.data), 'mask': bl(np.ma.getmaskarray(p))})
        except Exception as e:      # noqa
            out.append({'n': n, 'm': m, 'error': type(e).__name__ + ': ' + str(e)[:160]})
    return out


def main():
    payload = json.load(sys.stdin)
    res = {}
    res['prelude'] = prelude(payload.get('prelude', []))
    w1, w2 = weights(payload.get('weights', []))
    res['weights'] = w1
    res['weights_cached'] = w2
    # weight vectors beyond the sizes compared inside Coq (first visit only; evaluated before the spectra are projected)
    bw = []
    for (to, fr, hits) in payload.get('bigweights', []):
        try:
            bw.append(fl(Numerics._cached_projection(to, fr, hits)))
        except Exception as e:      # noqa
            bw.append({'error': type(e).__name__ + ': ' + str(e)[:160]})
    res['bigweights'] = bw
    res['spectra'] = [spectrum(c) for c in payload.get('spectra', [])]
    res['neutral'] = neutral(payload.get('neutral', []))
    print(json.dumps(res))


main()
