"""Runs the REAL dadi code for C05 (fresh interpreter, overlay on PYTHONPATH).

stdin: JSON list of call specs, stdout (last line): JSON list of results, same order.
call spec:
  {'fn': 'from_phi', 'shape', 'phi' (flat), 'ns', 'xxs', 'admix' (nested list | None), 'het' (str | None),
   'force' (bool), 'mask_corners' (bool), 'pop_ids' (list | None),
   'pre': [['remove_pop', popnum]...], 'post': [['project', ns] | ['marginalize', over]...]}
  {'fn': 'from_phi_inbreeding', ... + 'Fs', 'ploidys', 'force' (None = default)}
  {'fn': 'private', 'name': '_from_phi_4D_direct' | ..., 'args': as for the private function}
  {'fn': 'bbconv', 'n', 'p', 'a', 'b'}        -> [BetaBinomConvolution(i, n, a, b, ploidy=p) for i in 0..n*p]
result: {'data','mask','shape','pop_ids','extrap_x','warn'} | {'refused': 'ValueError: ...'} | {'error': 'UnboundLocalError: ...'}
"""
import sys, json, warnings, logging
warnings.filterwarnings('ignore')
import numpy as np
import dadi
from dadi import Spectrum, Numerics, PhiManip
np.seterr(all='ignore')

class Grab(logging.Handler):
    def __init__(self):
        super().__init__(); self.msgs = []
    def emit(self, rec):
        self.msgs.append(rec.getMessage())
grab = Grab()
lg = logging.getLogger('Spectrum_mod'); lg.addHandler(grab); lg.propagate = False

def tup(a):
    return None if a is None else tuple(tuple(r) for r in a)

def pack(fs):
    fs_data = np.asarray(np.ma.getdata(fs), dtype=float)
    return {'data': [float(t) for t in fs_data.ravel()],
            'mask': [bool(t) for t in np.ma.getmaskarray(fs).ravel()],
            'shape': list(fs_data.shape),
            'pop_ids': getattr(fs, 'pop_ids', None),
            'extrap_x': (None if getattr(fs, 'extrap_x', None) is None else float(fs.extrap_x)),
            'is_spectrum': isinstance(fs, Spectrum)}

def one(c):
    fn = c['fn']
    if fn == 'bbconv':
        n, p = c['n'], c['p']
        via_float = c.get('n_float', True)          # the callers pass n/ploidy, a float
        nn = float(n) if via_float else n
        return {'data': [float(Numerics.BetaBinomConvolution(i, nn, c['a'], c['b'], ploidy=p)) for i in range(n * p + 1)]}
    xxs = [np.array(x, dtype=float) for x in c['xxs']]
    phi = np.array(c['phi'], dtype=float).reshape(c['shape'])
    phi0 = phi.copy(); xxs0 = [x.copy() for x in xxs]
    for pre in c.get('pre', []):
        if pre[0] == 'remove_pop':
            phi = PhiManip.remove_pop(phi, xxs[pre[1] - 1], pre[1])
            xxs = [x for k, x in enumerate(xxs) if k != pre[1] - 1]
            xxs0 = [x.copy() for x in xxs]; phi0 = phi.copy()
    grab.msgs.clear()
    if fn == 'from_phi':
        fs = Spectrum.from_phi(phi, c['ns'], xxs, mask_corners=c.get('mask_corners', True), pop_ids=c.get('pop_ids'),
                               admix_props=tup(c.get('admix')), het_ascertained=c.get('het'),
                               force_direct=c.get('force', False))
    elif fn == 'from_phi_inbreeding':
        kw = {}
        if c.get('force') is not None:
            kw['force_direct'] = c['force']
        fs = Spectrum.from_phi_inbreeding(phi, c['ns'], xxs, list(c['Fs']), list(c['ploidys']),
                                          mask_corners=c.get('mask_corners', True), pop_ids=c.get('pop_ids'),
                                          admix_props=tup(c.get('admix')), het_ascertained=c.get('het'), **kw)
    elif fn == 'private':
        f = getattr(Spectrum, c['name'])
        args = list(c['ns']) + xxs + [phi]
        kw = {'mask_corners': c.get('mask_corners', True)}
        if 'admix' in c['name']:
            kw['admix_props'] = tup(c.get('admix'))
        elif 'direct' in c['name']:
            kw['het_ascertained'] = c.get('het')
        fs = f(*args, **kw)
    else:
        raise KeyError(fn)
    for post in c.get('post', []):
        if post[0] == 'project':
            fs = fs.project(post[1])
        elif post[0] == 'marginalize':
            fs = fs.marginalize(post[1], mask_corners=c.get('mask_corners', True))
    r = pack(fs)
    r['warn'] = list(grab.msgs)
    # inputs must not be modified
    r['inputs_untouched'] = bool(np.array_equal(phi, phi0) and all(np.array_equal(a, b) for a, b in zip(xxs, xxs0)))
    return r

def main():
    calls = json.load(sys.stdin)
    out = []
    for c in calls:
        try:
            out.append(one(c))
        except (ValueError, NotImplementedError) as e:
            out.append({'refused': type(e).__name__ + ': ' + str(e)[:160]})
        except Exception as e:
            out.append({'error': type(e).__name__ + ': ' + str(e)[:200]})
    print(json.dumps(out))
main()
