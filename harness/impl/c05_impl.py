"""Runs the REAL dadi code for C05 (fresh interpreter, overlay on PYTHONPATH).

stdin: JSON list of call specs, stdout (last line): JSON list of results, same order.
call spec:
  {'fn': 'from_phi', 'shape', 'phi' (flat), 'ns', 'xxs', 'admix' (nested list | None), 'het' (str | None),
   'force' (bool), 'mask_corners' (bool), 'pop_ids' (list | None),
   'pre': [['remove_pop', popnum]...], 'post': [['project', ns] | ['marginalize', over]...]}
  {'fn': 'from_phi_inbreeding', ... + 'Fs', 'ploidys', 'force' (None = default)}
  {'fn': 'private', 'name': '_from_phi_4D_direct' | ..., 'args': as for the private function}
  {'fn': 'bbconv', 'n', 'p', 'a', 'b'}        -> [BetaBinomConvolution(i, n, a, b, ploidy=p) for i in 0..n*p]
result: {'data','mask','shape','pop_ids','extrap_x','warn'} | {'refused': 'ValueError: ...'} | {'error': 'UnboundLocalError: ...'}

Array layouts (every call spec): 'phi_layout' in C (default) | F (Fortran order) | T (transposed view of the transposed copy) |
  swap (first and last axis swapped in storage) | strided (every other element of a buffer twice as large along each axis) |
  neg (storage reversed along every axis, negative strides);  'grid_layout' in C | strided | neg  (1-D views built the same way).

Sessions: stdin {'sessions': [{'id': str, 'calls': [spec...]}...]} -> {'sessions': [{'id', 'pid', 'results': [...]}...]}.
  Every session runs in its OWN process forked from this interpreter right after `import dadi` (no dadi call has been made,
  so every module-level memo is empty), its calls strictly in list order; each result records 'pos' (its place in the
  sequence), 'pid' and 'layout' so that the caller can check that the order it asked for is the order that ran.
"""
import sys, os, json, warnings, logging
warnings.filterwarnings('ignore')
import numpy as np
import dadi
from dadi import Spectrum, Numerics, PhiManip
np.seterr(all='ignore')

class Grab(logging.Handler):
    def __init__(self):
        super().__init__(); self.msgs = []
    def emit(self, rec):
        self.msgs.append(rec.getMessage())
grab = Grab()
lg = logging.getLogger('Spectrum_mod'); lg.addHandler(grab); lg.propagate = False

def tup(a):
    return None if a is None else tuple(tuple(r) for r in a)

def pack(fs):
    fs_data = np.asarray(np.ma.getdata(fs), dtype=float)
    return {'data': [float(t) for t in fs_data.ravel()],
            'mask': [bool(t) for t in np.ma.getmaskarray(fs).ravel()],
            'shape': list(fs_data.shape),
            'pop_ids': getattr(fs, 'pop_ids', None),
            'extrap_x': (None if getattr(fs, 'extrap_x', None) is None else float(fs.extrap_x)),
            'is_spectrum': isinstance(fs, Spectrum)}

def relayout(a, how):
    """same values, different memory layout (always a fresh buffer: the JSON-built array is never handed to dadi twice)"""
    if how in (None, 'C'):
        return a
    if how == 'F':
        return np.asfortranarray(a)
    if how == 'T':
        return np.ascontiguousarray(a.T).T
    if how == 'swap':
        return np.ascontiguousarray(a.swapaxes(0, -1)).swapaxes(0, -1)
    if how == 'strided':
        big = np.full([2 * n for n in a.shape], np.nan)
        view = big[tuple(slice(None, None, 2) for _ in a.shape)]
        view[...] = a
        return view
    if how == 'neg':
        rev = tuple(slice(None, None, -1) for _ in a.shape)
        return np.ascontiguousarray(a[rev])[rev]
    raise KeyError(how)

def one(c):
    fn = c['fn']
    if fn == 'bbconv':
        n, p = c['n'], c['p']
        via_float = c.get('n_float', True)          # the callers pass n/ploidy, a float
        nn = float(n) if via_float else n
        return {'data': [float(Numerics.BetaBinomConvolution(i, nn, c['a'], c['b'], ploidy=p)) for i in range(n * p + 1)]}
    xxs = [relayout(np.array(x, dtype=float), c.get('grid_layout')) for x in c['xxs']]
    phi = relayout(np.array(c['phi'], dtype=float).reshape(c['shape']), c.get('phi_layout'))
    phi0 = phi.copy(); xxs0 = [x.copy() for x in xxs]
    lay = {'phi': [bool(phi.flags['C_CONTIGUOUS']), bool(phi.flags['F_CONTIGUOUS']), [int(t) for t in phi.strides]],
           'grid': [[int(t) for t in x.strides] for x in xxs]}
    for pre in c.get('pre', []):
        if pre[0] == 'remove_pop':
            phi = PhiManip.remove_pop(phi, xxs[pre[1] - 1], pre[1])
            xxs = [x for k, x in enumerate(xxs) if k != pre[1] - 1]
            xxs0 = [x.copy() for x in xxs]; phi0 = phi.copy()
    grab.msgs.clear()
    if fn == 'from_phi':
        fs = Spectrum.from_phi(phi, c['ns'], xxs, mask_corners=c.get('mask_corners', True), pop_ids=c.get('pop_ids'),
                               admix_props=tup(c.get('admix')), het_ascertained=c.get('het'),
                               force_direct=c.get('force', False))
    elif fn == 'from_phi_inbreeding':
        kw = {}
        if c.get('force') is not None:
            kw['force_direct'] = c['force']
        fs = Spectrum.from_phi_inbreeding(phi, c['ns'], xxs, list(c['Fs']), list(c['ploidys']),
                                          mask_corners=c.get('mask_corners', True), pop_ids=c.get('pop_ids'),
                                          admix_props=tup(c.get('admix')), het_ascertained=c.get('het'), **kw)
    elif fn == 'private':
        f = getattr(Spectrum, c['name'])
        args = list(c['ns']) + xxs + [phi]
        kw = {'mask_corners': c.get('mask_corners', True)}
        if 'admix' in c['name']:
            kw['admix_props'] = tup(c.get('admix'))
        elif 'direct' in c['name']:
            kw['het_ascertained'] = c.get('het')
        fs = f(*args, **kw)
    else:
        raise KeyError(fn)
    for post in c.get('post', []):
        if post[0] == 'project':
            fs = fs.project(post[1])
        elif post[0] == 'marginalize':
            fs = fs.marginalize(post[1], mask_corners=c.get('mask_corners', True))
    r = pack(fs)
    r['warn'] = list(grab.msgs)
    r['layout'] = lay
    # inputs must not be modified
    r['inputs_untouched'] = bool(np.array_equal(phi, phi0) and all(np.array_equal(a, b) for a, b in zip(xxs, xxs0)))
    return r

def run_list(calls):
    out = []
    for pos, c in enumerate(calls):
        try:
            r = one(c)
        except (ValueError, NotImplementedError) as e:
            r = {'refused': type(e).__name__ + ': ' + str(e)[:160]}
        except Exception as e:
            r = {'error': type(e).__name__ + ': ' + str(e)[:200]}
        r['pos'] = pos; r['pid'] = os.getpid()
        out.append(r)
    return out

def run_session(sess):
    """the calls of one session, in order, in a process of their own (forked before any dadi call was made)"""
    rd, wr = os.pipe()
    pid = os.fork()
    if pid == 0:
        code = 0
        try:
            os.close(rd)
            txt = json.dumps(run_list(sess['calls']))
            with os.fdopen(wr, 'w') as f:
                f.write(txt)
        except BaseException as e:
            sys.stderr.write('session %s: %r\n' % (sess.get('id'), e)); code = 1
        os._exit(code)
    os.close(wr)
    with os.fdopen(rd) as f:
        txt = f.read()
    _, status = os.waitpid(pid, 0)
    if status != 0 or not txt:
        return {'id': sess.get('id'), 'pid': pid, 'results': [{'error': 'session process died (status %d)' % status, 'pos': k, 'pid': pid}
                                                                for k in range(len(sess['calls']))]}
    return {'id': sess.get('id'), 'pid': pid, 'results': json.loads(txt)}

def main():
    payload = json.load(sys.stdin)
    if isinstance(payload, dict) and 'sessions' in payload:
        sys.stdout.flush()
        print(json.dumps({'sessions': [run_session(s) for s in payload['sessions']], 'parent': os.getpid()}))
        return
    print(json.dumps(run_list(payload)))
main()
