"""Runs the real dadi.PhiManip population constructors, in-place pulse functions, remove_pop, filter_pops and
reorder_pops (rebuilt overlay) on the generated cases.

case: {id, op: pulse|cons|split12|remove|filter|reorder, fn, shape, grids (grid parameters in signature order),
       ps (proportion parameters in signature order), phi (C-order flat), arg (popnum | tokeep | neworder)}
result: {id, raised: bool, error, shape, res (C-order flat)}   -- only ValueError counts as a rejection
"""
import sys, json, warnings
warnings.filterwarnings('ignore')
import numpy as np
np.seterr(all='ignore')
import dadi
from dadi import PhiManip, Demes

def run(c):
    phi = np.array(c['phi'], dtype=float).reshape(c['shape']).copy()
    grids = [np.array(g, dtype=float) for g in c['grids']]
    ps = list(c['ps'])
    op = c['op']
    Demes.cache = []
    if op == 'pulse':
        out = getattr(PhiManip, c['fn'])(phi, *ps, *grids)
    elif op == 'cons':
        if c['fn'] in ('phi_2D_to_3D_split_1', 'phi_2D_to_3D_split_2'):
            out = getattr(PhiManip, c['fn'])(grids[0], phi)
        else:
            out = getattr(PhiManip, c['fn'])(phi, *ps, *grids)
    elif op == 'split12':
        out = PhiManip.phi_1D_to_2D(grids[0], phi)
    elif op == 'remove':
        out = PhiManip.remove_pop(phi, grids[0], c['arg'])
    elif op == 'filter':
        out = PhiManip.filter_pops(phi, grids[0], list(c['arg']))
    elif op == 'reorder':
        out = PhiManip.reorder_pops(phi, list(c['arg']))
    else:
        raise RuntimeError('unknown op ' + op)
    out = np.asarray(out, dtype=float)
    return out

def main():
    cases = json.load(sys.stdin)
    res = []
    for c in cases:
        rec = {'id': c['id'], 'raised': False}
        try:
            out = run(c)
            rec['shape'] = [int(n) for n in out.shape]
            rec['res'] = [float(t) for t in np.ascontiguousarray(out).ravel()]
        except ValueError as e:
            rec['raised'] = True
            rec['error'] = 'ValueError: ' + str(e)[:160]
        except Exception as e:
            rec['crashed'] = True
            rec['error'] = type(e).__name__ + ': ' + str(e)[:160]
        res.append(rec)
    print(json.dumps(res))
main()
