"""Runs the real dadi.PhiManip population constructors, in-place pulse functions, remove_pop, filter_pops and
reorder_pops (rebuilt overlay) on the generated cases.

case: {id, layout, perm, shape, phi (C-order flat LOGICAL content), steps: [step, ...]}
step: {op: pulse|cons|split12|remove|filter|reorder, fn, grids (grid parameters in signature order),
       ps (proportion parameters in signature order), arg (popnum | tokeep | neworder),
       commute: {fn, ps} (optional; the step before must be a reorder)}
The density handed to the first step holds the logical content `phi` in the memory layout `layout`:
  C        freshly allocated, C-contiguous
  F        Fortran-ordered copy
  T        transposed view (axes `perm`) of a C-contiguous array
  neg      view with negative strides along every axis
  strided  every other cell of a larger NaN-filled array along every axis (the grids are strided views too)
Every later step receives THE OBJECT the step before returned (no copy in between): the documented way of chaining,
phi = PhiManip.f(phi, ...).
result: {id, steps: [{raised, error, shape, res (C-order flat logical content of the returned density),
                      in_c, in_f (contiguity of the incoming array), same_obj (returned object is the argument),
                      arg_holds (the argument holds the returned density after the call),
                      layout_dev (max |result - result on a fresh C-contiguous copy of the same content|),
                      commute (flat: reorder(g(content before the reorder)) for the permuted pulse g)}]}
-- only ValueError counts as a rejection
"""
import sys, json, warnings
warnings.filterwarnings('ignore')
import numpy as np
np.seterr(all='ignore')
import dadi
from dadi import PhiManip, Demes

def lay(L, layout, perm):
    d = L.ndim
    if layout == 'C':
        return np.array(L, order='C', copy=True)
    if layout == 'F':
        return np.array(L, order='F', copy=True)
    if layout == 'T':
        inv = [int(i) for i in np.argsort(perm)]
        base = np.ascontiguousarray(L.transpose(inv))
        return base.transpose(perm)
    rev = (slice(None, None, -1),) * d
    if layout == 'neg':
        base = np.ascontiguousarray(L[rev])
        return base[rev]
    if layout == 'strided':
        big = np.full([2 * n + 1 for n in L.shape], np.nan)
        sl = (slice(1, None, 2),) * d
        big[sl] = L
        return big[sl]
    raise RuntimeError('unknown layout ' + str(layout))

def lay_grid(g, layout):
    g = np.array(g, dtype=float)
    if layout == 'neg':
        return np.ascontiguousarray(g[::-1])[::-1]
    if layout == 'strided':
        big = np.full(2 * len(g) + 1, np.nan)
        big[1::2] = g
        return big[1::2]
    return g

def call(st, phi, grids):
    ps = list(st.get('ps') or [])
    op = st['op']
    fn = st['fn']
    Demes.cache = []
    if op == 'pulse':
        return getattr(PhiManip, fn)(phi, *ps, *grids)
    if op == 'cons':
        if fn in ('phi_2D_to_3D_split_1', 'phi_2D_to_3D_split_2'):
            return getattr(PhiManip, fn)(grids[0], phi)
        return getattr(PhiManip, fn)(phi, *ps, *grids)
    if op == 'split12':
        return PhiManip.phi_1D_to_2D(grids[0], phi)
    if op == 'remove':
        return PhiManip.remove_pop(phi, grids[0], st['arg'])
    if op == 'filter':
        return PhiManip.filter_pops(phi, grids[0], list(st['arg']))
    if op == 'reorder':
        return PhiManip.reorder_pops(phi, list(st['arg']))
    raise RuntimeError('unknown op ' + op)

def flat(a):
    return [float(t) for t in np.ascontiguousarray(np.asarray(a, dtype=float)).ravel()]

def run(c):
    layout = c.get('layout', 'C')
    L = np.array(c['phi'], dtype=float).reshape(c['shape'])
    x = lay(L, layout, c.get('perm'))
    if not (x.shape == L.shape and np.array_equal(x, L, equal_nan=True)):
        raise RuntimeError('driver: layout %s does not hold the logical content' % layout)
    recs = []
    before_prev = None
    for j, st in enumerate(c['steps']):
        rec = {'raised': False}
        recs.append(rec)
        plain = layout in ('C', 'F', 'T') or j > 0
        grids = [np.array(g, dtype=float) if plain else lay_grid(g, layout) for g in st['grids']]
        x = np.asarray(x) if not isinstance(x, np.ndarray) else x
        rec['in_c'] = bool(x.flags['C_CONTIGUOUS']); rec['in_f'] = bool(x.flags['F_CONTIGUOUS'])
        before = np.array(x, order='C', copy=True)
        try:
            out = call(st, x, grids)
            rec['same_obj'] = out is x
            rec['shares'] = bool(isinstance(out, np.ndarray) and np.shares_memory(out, x))
            o = np.asarray(out, dtype=float)
            rec['shape'] = [int(n) for n in o.shape]
            rec['res'] = flat(o)
            rec['arg_holds'] = bool(x.shape == o.shape and np.array_equal(x, o, equal_nan=True))
        except ValueError as e:
            rec['raised'] = True
            rec['error'] = 'ValueError: ' + str(e)[:160]
            break
        except Exception as e:
            rec['crashed'] = True
            rec['error'] = type(e).__name__ + ': ' + str(e)[:160]
            break
        # the same content, freshly laid out: a density operator is a function of the values only
        if not (rec['in_c'] and j == 0 and layout == 'C'):
            try:
                ref = np.asarray(call(st, before.copy(), [np.array(g, dtype=float) for g in st['grids']]), dtype=float)
                if ref.shape != o.shape:
                    rec['layout_dev'] = None; rec['layout_shape'] = [int(n) for n in ref.shape]
                else:
                    dv = np.abs(ref - o)
                    rec['layout_dev'] = float(np.nanmax(dv)) if dv.size else 0.0
                    if not np.array_equal(np.isnan(ref), np.isnan(o)):
                        rec['layout_dev'] = float('inf')
                    rec['layout_at'] = [int(t) for t in np.unravel_index(int(np.nanargmax(dv)), dv.shape)] if dv.size and not np.all(np.isnan(dv)) else []
            except Exception as e:
                rec['layout_error'] = type(e).__name__ + ': ' + str(e)[:160]
        # reordering commutes with the pulse: pulse_f(reorder(b)) == reorder(pulse_g(b)) for the permuted pulse g
        cm = st.get('commute')
        if cm and before_prev is not None and j > 0 and c['steps'][j - 1]['op'] == 'reorder':
            try:
                g = getattr(PhiManip, cm['fn'])(before_prev.copy(), *cm['ps'], *[np.array(t, dtype=float) for t in st['grids']])
                alt = PhiManip.reorder_pops(g, list(c['steps'][j - 1]['arg']))
                rec['commute'] = flat(alt)
                rec['commute_shape'] = [int(n) for n in np.shape(alt)]
            except Exception as e:
                rec['commute_error'] = type(e).__name__ + ': ' + str(e)[:160]
        before_prev = before
        x = out
    return recs

def main():
    cases = json.load(sys.stdin)
    res = []
    for c in cases:
        rec = {'id': c['id']}
        try:
            rec['steps'] = run(c)
        except Exception as e:
            rec['crashed'] = True
            rec['error'] = type(e).__name__ + ': ' + str(e)[:160]
        res.append(rec)
    print(json.dumps(res))
main()
