"""C07, stream 'argument types': runs dadi.Numerics.make_extrap_func / make_extrap_log_func and the closed formulas
linear_extrap ... quintic_extrap (real code, overlay) with the SAME NUMBERS handed over in different types.

A base case fixes k integer spacings, the grid sizes that stand for them, the polynomial data per entry, the mode (linear / log) and
the kind of result (array / Spectrum).  Every variant of the base case names, per argument, the type in which it is handed over:
   xl       extrap_x_l          (list / tuple / ndarray of python int, numpy int64 / int32 / float32 / float64 scalars, mixtures, 0-d arrays ...)
   attr     .extrap_x of the results, when no explicit list is given
   pts      the grid list        (list / tuple / ndarray of ints, numpy ints, floats; scalars for one grid size)
   res      what the model returns (float64 / int64 / int32 / float32 ndarray, masked array, list, tuple, scalars)
   fm       fail_mag             (int / float / numpy scalars)
   logflag  extrap_log           (bool / int / numpy.bool_)
Each variant wraps once and calls twice (positional, keyword).  Recorded per call: the values the model returned (as exact
floats, in the order of the pts list), the result, its mask / type / dtype / labels, or the exception.
"""
import sys, json, warnings, logging
warnings.filterwarnings('ignore')
import numpy as np
import dadi
logging.getLogger('Numerics').setLevel(logging.ERROR)
np.seterr(all='ignore')

# ---- builders ------------------------------------------------------------------------------------------------------
def strided(vals, dtype):
    a = np.zeros(2 * len(vals), dtype=dtype)
    a[::2] = vals
    return a[::2]

def alt(vals, f_even, f_odd):
    return [f_even(v) if i % 2 == 0 else f_odd(v) for i, v in enumerate(vals)]

SEQ = {      # sequences of numbers (extrap_x_l, pts lists, xs of the direct functions) from a list of python ints
    'list_float': lambda v: [float(t) for t in v],
    'tuple_float': lambda v: tuple(float(t) for t in v),
    'nd_float64': lambda v: np.array(v, dtype=np.float64),
    'list_np_float64': lambda v: [np.float64(t) for t in v],
    'list_int': lambda v: [int(t) for t in v],
    'tuple_int': lambda v: tuple(int(t) for t in v),
    'nd_int64': lambda v: np.array(v, dtype=np.int64),
    'nd_int32': lambda v: np.array(v, dtype=np.int32),
    'list_np_int64': lambda v: [np.int64(t) for t in v],
    'list_np_int32': lambda v: [np.int32(t) for t in v],
    'tuple_np_int64': lambda v: tuple(np.int64(t) for t in v),
    'mixed_first_float': lambda v: [float(v[0])] + [int(t) for t in v[1:]],
    'mixed_last_float': lambda v: [int(t) for t in v[:-1]] + [float(v[-1])],
    'mixed_np': lambda v: alt(v, np.int64, float),
    'mixed_np32': lambda v: alt(v, np.float64, np.int32),
    'list_0d_int': lambda v: [np.array(int(t)) for t in v],
    'list_0d_float': lambda v: [np.array(float(t)) for t in v],
    'nd_object_int': lambda v: np.array([int(t) for t in v], dtype=object),
    'nd_view_int': lambda v: strided(v, np.int64),
    'nd_view_float': lambda v: strided(v, np.float64),
    'nd_ma_int': lambda v: np.ma.array(v, dtype=np.int64),
    # lists that hold integers AND genuinely fractional floats: every integral number as an integer, the others as floats
    'mixed_intlike': lambda v: [int(t) if float(t).is_integer() else float(t) for t in v],
    'tuple_mixed_intlike': lambda v: tuple(int(t) if float(t).is_integer() else float(t) for t in v),
    'mixed_intlike_np': lambda v: [np.int64(t) if float(t).is_integer() else np.float64(t) for t in v],
    'mixed_intlike_np32': lambda v: [np.int32(t) if float(t).is_integer() else float(t) for t in v],
    'nd_object_mixed_intlike': lambda v: np.array([int(t) if float(t).is_integer() else float(t) for t in v], dtype=object),
    'nd_float32': lambda v: np.array(v, dtype=np.float32),
    'list_np_float32': lambda v: [np.float32(t) for t in v],
    'nd_int16': lambda v: np.array(v, dtype=np.int16),
    'nd_int8': lambda v: np.array(v, dtype=np.int8),
    'nd_uint8': lambda v: np.array(v, dtype=np.uint8),
    'nd_uint64': lambda v: np.array(v, dtype=np.uint64),
    'nd_float16': lambda v: np.array(v, dtype=np.float16),
    # one grid size handed over as a scalar
    'scalar_int': lambda v: int(v[0]),
    'scalar_np_int64': lambda v: np.int64(v[0]),
    'scalar_np_int32': lambda v: np.int32(v[0]),
    'scalar_float': lambda v: float(v[0]),
    'scalar_np_float64': lambda v: np.float64(v[0]),
}
SCALAR = {   # one number (the .extrap_x attribute of a result, fail_mag)
    'float': float, 'int': int, 'np_int64': np.int64, 'np_int32': np.int32, 'np_float64': np.float64, 'np_float32': np.float32,
    '0d_int': lambda t: np.array(int(t)), '0d_float': lambda t: np.array(float(t)),
    'intlike': lambda t: int(t) if float(t).is_integer() else float(t),
    'intlike_np': lambda t: np.int64(t) if float(t).is_integer() else np.float64(t),
}
FLAG = {'bool': bool, 'int': int, 'np_bool': np.bool_}

def cast_result(vals, kind):
    """vals: float64 array of the entries; kind: what the model function returns"""
    if kind == 'float64': return vals
    if kind == 'int64': return vals.astype(np.int64)
    if kind == 'int32': return vals.astype(np.int32)
    if kind == 'float32': return vals.astype(np.float32)
    if kind == 'ma_float64': return np.ma.array(vals)
    if kind == 'ma_int64': return np.ma.array(vals.astype(np.int64))
    if kind == 'ma_masked': return np.ma.array(vals, mask=[i == 0 for i in range(len(vals))])
    if kind == 'nd_view_float64': return strided(vals, np.float64)
    if kind == 'list': return [float(t) for t in vals]
    if kind == 'tuple': return tuple(float(t) for t in vals)
    if kind == 'pyfloat': return float(vals[0])
    if kind == 'pyint': return int(vals[0])
    if kind == 'np_float64': return np.float64(vals[0])
    if kind == 'np_int64': return np.int64(vals[0])
    raise ValueError(kind)

def flat(o):
    if isinstance(o, np.ma.MaskedArray):
        return [float(t) for t in np.asarray(o.data).ravel()]
    return [float(t) for t in np.asarray(o, dtype=object).ravel()] if isinstance(o, (list, tuple)) else [float(t) for t in np.asarray(o).ravel()]

# ---- wrapped functions -------------------------------------------------------------------------------------------
def run_variant(c, v):
    k = c['k']
    xmap = dict(zip(c['pts'], c['xs']))
    trace = []
    res_kind = v.get('res', 'float64')
    attr_kind = v.get('attr')
    rnd = v.get('round', 0)

    def model(a, b, pts):
        p = int(pts)
        x = float(xmap[p])
        vals = []
        for cs in c['coefs']:
            t = 0.0
            for cc in reversed(cs):
                t = t * x + cc
            if c['log']:
                t = float(np.exp(t))
            t = t * ((a + b) / 4.0)
            if rnd:
                t = float(np.rint(t * rnd))
            vals.append(t)
        arr = np.array(vals, dtype=float)
        if c['mode'] == 'spectrum':
            fs = dadi.Spectrum(arr.reshape(c['shape']), mask_corners=c.get('mask_corners', True), pop_ids=list(c['pop_ids']))
            if attr_kind == 'mixed':             # float on the first grid size of the list, python int on the others
                fs.extrap_x = float(xmap[p]) if p == c['pts'][0] else int(xmap[p])
            elif attr_kind is not None:
                fs.extrap_x = SCALAR[attr_kind](xmap[p])
            else:
                fs.extrap_x = 0.5 / p + 0.01          # an explicit list must win
            trace.append((p, flat(fs)))
            return fs
        out = cast_result(arr, res_kind)
        trace.append((p, flat(out)))
        return out
    model.__name__ = 'model'

    rec = {'name': v['name'], 'calls': []}
    try:
        xl = None if attr_kind is not None else SEQ[v['xl']](c['xs'])
        kw = {}
        if v.get('fm') is not None:
            kw['fail_mag'] = SCALAR[v['fm']](10)
        if v.get('via_log_func'):
            f = dadi.Numerics.make_extrap_log_func(model, extrap_x_l=xl)
        else:
            f = dadi.Numerics.make_extrap_func(model, extrap_x_l=xl, extrap_log=FLAG[v.get('logflag', 'bool')](c['log']), **kw)
        rec['fname'] = f.__name__
    except Exception as e:
        rec['error'] = 'wrapping: ' + type(e).__name__ + ': ' + str(e)[:200]
        return rec
    for passing in ('pos', 'kw'):
        out = {'passing': passing}
        del trace[:]
        try:
            p = SEQ[v.get('pts', 'list_int')](c['pts'])
            res = f(1.5, 2.5, pts=p) if passing == 'kw' else f(1.5, 2.5, p)
            out['evaluated'] = [t[0] for t in trace]
            ys = dict(trace)
            nent = len(c['coefs']) if res_kind not in ('pyfloat', 'pyint', 'np_float64', 'np_int64') else 1
            out['ys'] = [[ys[q][e] for q in c['pts']] for e in range(nent)] if all(q in ys for q in c['pts']) else None
            out['type'] = type(res).__name__
            out['dtype'] = str(getattr(res, 'dtype', ''))
            out['res'] = flat(res)
            out['mask'] = [bool(t) for t in np.ma.getmaskarray(res).ravel()] if isinstance(res, np.ma.MaskedArray) else [False] * len(out['res'])
            if c['mode'] == 'spectrum':
                out['pop_ids'] = getattr(res, 'pop_ids', None)
                out['is_spectrum'] = isinstance(res, dadi.Spectrum)
                out['shape'] = list(np.shape(res))
        except Exception as e:
            out['error'] = type(e).__name__ + ': ' + str(e)[:200]
        rec['calls'].append(out)
    return rec

# ---- the closed formulas called directly -----------------------------------------------------------------------
def make_ys(rows, kind):
    """rows: k lists of n numbers (integers as floats)"""
    if kind == 'list_f64_arrays': return [np.array(r, dtype=np.float64) for r in rows]
    if kind == 'tuple_f64_arrays': return tuple(np.array(r, dtype=np.float64) for r in rows)
    if kind == 'list_int64_arrays': return [np.array(r).astype(np.int64) for r in rows]
    if kind == 'list_int32_arrays': return [np.array(r).astype(np.int32) for r in rows]
    if kind == 'list_f32_arrays': return [np.array(r, dtype=np.float32) for r in rows]
    if kind == 'nd2_f64': return np.array(rows, dtype=np.float64)
    if kind == 'nd2_int64': return np.array(rows).astype(np.int64)
    if kind == 'list_ma_int': return [np.ma.array(np.array(r).astype(np.int64)) for r in rows]
    # scalars: the first entry only
    if kind == 'list_pyfloat': return [float(r[0]) for r in rows]
    if kind == 'list_pyint': return [int(r[0]) for r in rows]
    if kind == 'tuple_pyint': return tuple(int(r[0]) for r in rows)
    if kind == 'list_np_int64': return [np.int64(r[0]) for r in rows]
    if kind == 'list_np_int32': return [np.int32(r[0]) for r in rows]
    if kind == 'list_np_float64': return [np.float64(r[0]) for r in rows]
    if kind == 'nd1_int64': return np.array([r[0] for r in rows]).astype(np.int64)
    if kind == 'nd1_f64': return np.array([r[0] for r in rows], dtype=np.float64)
    raise ValueError(kind)

def run_direct(c, v):
    rec = {'name': v['name']}
    try:
        fn = getattr(dadi.Numerics, c['fn'])
        ys = make_ys(c['rows'], v['ys'])
        xs = SEQ[v['xs']](c['xs'])
        res = fn(ys, xs)
        rec['type'] = type(res).__name__
        rec['dtype'] = str(getattr(res, 'dtype', ''))
        rec['res'] = flat(res)
    except Exception as e:
        rec['error'] = type(e).__name__ + ': ' + str(e)[:200]
    return rec

def main():
    payload = json.load(sys.stdin)
    out = {'typed': [], 'direct': []}
    for c in payload.get('typed', []):
        out['typed'].append({'id': c['id'], 'variants': [run_variant(c, v) for v in c['variants']]})
    for c in payload.get('direct', []):
        out['direct'].append({'id': c['id'], 'variants': [run_direct(c, v) for v in c['variants']]})
    print(json.dumps(out))
main()
