"""C12 driver: runs the REAL dadi optimiser glue (overlay) on JSON cases.

mode 'scripted': nlopt.opt and scipy.optimize.fmin_bfgs / fmin_l_bfgs_b / fmin / fmin_powell / fmin_slsqp are replaced by
                 deterministic stubs that (after validating the call against the installed function's signature) evaluate
                 the start they were handed and then a given list of proposals, and return the best point of that trace
                 (or the k-th one).  scipy.optimize.brute is the real one (it is already a scripted optimiser).
                 The likelihoods dadi.Inference.ll / ll_multinom are replaced by closed-form quadratics of the parameters
                 (the likelihood formulas themselves are C11's subject); everything in between is the real code.
mode 'real'    : real nlopt / scipy optimisers, real likelihoods, cheap closed-form Spectrum-valued models; every model
                 evaluation is logged; the returned point and the start are re-evaluated.
mode 'perturb' : dadi.Misc.perturb_params with numpy.random.uniform replaced by given draws.
mode 'project' : dadi.Inference._project_params_down / _project_params_up and their two compositions on given vectors.

A case may carry `clip`: the scripted optimiser then HONOURS the box it is handed -- every proposal is moved onto that box,
coordinate by coordinate, before the objective is called (Model/Optim.v scripted_clip) -- so that a bound the wrapper did not
hand over shows as a model evaluation beyond it; and `call`: how the call is SPELLED -- `positional` (names of the optional
parameters handed over positionally, in the order of the documented signature), `omit` (keywords left out altogether: the
documented default is in force), `extra` (further keywords: verbose, flush_delay, epsilon, gtol, pgtol, maxiter, func_args,
func_kwargs, output_file, constraints, nlopt's tolerances ...).  The model function accepts and records whatever extra
positional / keyword arguments it is called with.

In every mode fixed_params / lower_bound / upper_bound / p0 / the free and full vectors of the projection helpers are handed
over with the Python types the case names (`*_kinds`, per element: Python int, float, -0.0, bool, numpy.float64 / float32 /
int64 / int32 / bool_ scalars, a 0-d array; `*_container`: list, tuple, numpy array of a named dtype (`array:int64`, ...),
numpy's own choice of dtype (`array:auto`), a 0-d array, the bare scalar), and the ranges of optimize_grid with the Python
type of each of start / stop / step (`grid_kinds`: int, float, complex step): numpy.mgrid yields an INTEGER grid when every
number of every range is a Python int.  The scripted scipy stubs evaluate the start exactly as it was handed to them (dtype
included), as scipy.optimize.fmin_powell does.
"""
import sys, os, io, json, warnings, inspect, math, contextlib
warnings.filterwarnings('ignore')
import numpy as np
np.seterr(all='ignore')
import scipy.optimize
import nlopt
import dadi
import dadi.Inference as Inf
import dadi.NLopt_mod as NL
import dadi.Misc as Misc

REAL = {n: getattr(scipy.optimize, n) for n in ['fmin_bfgs', 'fmin_l_bfgs_b', 'fmin', 'fmin_powell', 'fmin_slsqp', 'brute']}
REAL_NLOPT = nlopt.opt

def jf(x):
    x = float(x)
    if x != x:
        return 'nan'
    if x == float('inf'):
        return 'inf'
    if x == float('-inf'):
        return '-inf'
    return x

def jl(xs):
    return [jf(x) for x in np.atleast_1d(np.asarray(xs, dtype=float)).ravel()]

# ------------------------------------------------------------------------------------------------
# scripted optimisers

SCRIPT = {'props': [], 'ret': None, 'lenient': False}
REC = {}

def play(func, x0, maximize):
    """evaluate the start, then the proposals; return (best point, its value) -- first one among equals --
    or the ret-th point of the trace"""
    x0_as_handed = np.array(x0) if SCRIPT.get('start_as_handed') else np.array(x0, dtype=float)
    x0 = np.array(x0, dtype=float)
    trace = [x0] + [clip_to_box(np.array(p, dtype=float)) for p in SCRIPT['props']]
    vals = []
    for k, x in enumerate(trace):
        # (scipy.optimize.fmin_powell evaluates an integer start as the integer array it was handed)
        vals.append(float(func(x0_as_handed.copy() if k == 0 else x.copy())))
    REC['trace'] = [jl(x) for x in trace]
    REC['vals'] = [jf(v) for v in vals]
    if SCRIPT['ret'] is not None:
        k = SCRIPT['ret'] if SCRIPT['ret'] < len(trace) else 0
    else:
        k = 0
        for i in range(1, len(trace)):
            if (vals[k] < vals[i]) if maximize else (vals[i] < vals[k]):
                k = i
    return trace[k].copy(), vals[k]

def clip_to_box(x):
    """with SCRIPT['clip']: the proposal moved onto the box the optimiser was handed (finite ends only; an empty bound list is
    no bounds, nan is no bound) -- Model/Optim.v clip"""
    if not SCRIPT.get('clip'):
        return x
    lo, hi = SCRIPT.get('box') or ([], [])
    x = x.copy()
    for i in range(len(x)):
        if i < len(lo) and math.isfinite(lo[i]) and x[i] < lo[i]:
            x[i] = lo[i]
        if i < len(hi) and math.isfinite(hi[i]) and x[i] > hi[i]:
            x[i] = hi[i]
    return x

def bounds_pairs(bounds, n):
    lo, hi = [], []
    if bounds is None or len(bounds) == 0:
        return lo, hi
    for l, u in bounds:
        lo.append(-np.inf if l is None else float(l))
        hi.append(np.inf if u is None else float(u))
    return lo, hi

class StubNlopt:
    """the subset of nlopt.opt that dadi.NLopt_mod.opt uses"""
    def __init__(self, algorithm, n):
        self.n = int(n); self.f = None; self.maximize = None; self.lb = None; self.ub = None; self.val = None
    def _vec(self, v):
        v = np.array(v, dtype=float)
        if v.shape != (self.n,):
            raise nlopt.invalid_argument('dimension mismatch')
        return v
    def set_lower_bounds(self, v): self.lb = self._vec(v)
    def set_upper_bounds(self, v): self.ub = self._vec(v)
    def add_inequality_constraint(self, f, tol=0): pass
    def add_equality_constraint(self, f, tol=0): pass
    def set_stopval(self, v): float(v)
    def set_ftol_abs(self, v): float(v)
    def set_xtol_abs(self, v): float(v)
    def set_maxeval(self, v): int(v)
    def set_maxtime(self, v): float(v)
    def set_local_optimizer(self, o): assert isinstance(o, StubNlopt)
    def set_max_objective(self, f): self.f = f; self.maximize = True
    def set_min_objective(self, f): self.f = f; self.maximize = False
    def optimize(self, x0):
        x0 = self._vec(x0)
        REC['lo'] = jl(self.lb) if self.lb is not None else []
        REC['hi'] = jl(self.ub) if self.ub is not None else []
        REC['start'] = jl(x0)
        REC['maximize'] = self.maximize
        SCRIPT['box'] = ([float(v) for v in self.lb] if self.lb is not None else [], [float(v) for v in self.ub] if self.ub is not None else [])
        x, v = play(lambda x: self.f(x, np.array([])), x0, self.maximize)
        self.val = v
        return x
    def last_optimum_value(self): return self.val
    def last_optimize_result(self): return 1

def _bind(name, a, k):
    k = dict(k)
    if SCRIPT['lenient'] and name == 'fmin_l_bfgs_b':
        k.pop('iprint', None)
    ba = inspect.signature(REAL[name]).bind(*a, **k)     # TypeError on a keyword the installed scipy does not know
    ba.apply_defaults()
    return ba.arguments

def _scipy_play(name, A, fkey, bounds=None):
    func, x0, args = A[fkey], A['x0'], A['args']
    x0 = np.atleast_1d(np.asarray(x0, dtype=float))
    lo, hi = bounds_pairs(bounds, len(x0))
    REC['lo'] = jl(lo) if lo else []; REC['hi'] = jl(hi) if hi else []
    REC['start'] = jl(x0); REC['maximize'] = False
    SCRIPT['box'] = (lo, hi)
    SCRIPT['start_as_handed'] = True
    try:
        return play(lambda x: func(x, *args), np.atleast_1d(np.asarray(A['x0'])), False)
    finally:
        SCRIPT['start_as_handed'] = False

def stub_fmin_bfgs(*a, **k):
    A = _bind('fmin_bfgs', a, k)
    x, v = _scipy_play('fmin_bfgs', A, 'f')
    n = len(x)
    return x, v, np.zeros(n), np.eye(n), len(REC['trace']), 0, 0
def stub_fmin_l_bfgs_b(*a, **k):
    A = _bind('fmin_l_bfgs_b', a, k)
    x, v = _scipy_play('fmin_l_bfgs_b', A, 'func', A['bounds'])
    return x, v, {'warnflag': 0, 'funcalls': len(REC['trace'])}
def stub_fmin(*a, **k):
    A = _bind('fmin', a, k)
    x, v = _scipy_play('fmin', A, 'func')
    return x, v, 1, len(REC['trace']), 0
def stub_fmin_powell(*a, **k):
    A = _bind('fmin_powell', a, k)
    x, v = _scipy_play('fmin_powell', A, 'func')
    return x, v, np.eye(len(x)), 1, len(REC['trace']), 0
def stub_fmin_slsqp(*a, **k):
    A = _bind('fmin_slsqp', a, k)
    int(A['iter'])                                       # the real function needs an integer here
    x, v = _scipy_play('fmin_slsqp', A, 'func', A['bounds'])
    return x, v, 1, 0, 'ok'

def install_stubs():
    nlopt.opt = StubNlopt
    scipy.optimize.fmin_bfgs = stub_fmin_bfgs
    scipy.optimize.fmin_l_bfgs_b = stub_fmin_l_bfgs_b
    scipy.optimize.fmin = stub_fmin
    scipy.optimize.fmin_powell = stub_fmin_powell
    scipy.optimize.fmin_slsqp = stub_fmin_slsqp

def remove_stubs():
    nlopt.opt = REAL_NLOPT
    for n, f in REAL.items():
        setattr(scipy.optimize, n, f)

class FakeSfs:
    def __init__(self, params): self.params = [float(x) for x in params]

def quad(spec, p):
    if spec.get('nan') is not None and p[0] > spec['nan']:
        return float('nan')
    s = 0.0
    for pi, ci, wi in zip(p, spec['cs'], spec['ws']):
        s = s + wi * (pi - ci) * (pi - ci)
    return spec['c0'] - s

def grid_num(v, kind):
    if kind == 'int':
        assert float(v) == int(v)
        return int(v)
    if kind == 'complex':                      # the step "5j": that many points, both ends included
        assert float(v) == int(v)
        return complex(0, int(v))
    if kind == 'npint':
        assert float(v) == int(v)
        return np.int64(int(v))
    return float(v)

def grid_slices(ranges, kinds=None):
    kinds = kinds or [None] * len(ranges)
    return tuple(slice(*[grid_num(v, k) for v, k in zip(r, ks or [None] * 3)]) for r, ks in zip(ranges, kinds))

# ------------------------------------------------------------------------------------------------
# the caller-visible arguments with the Python types the case asks for: a value fixed at zero may arrive as 0, 0.0, -0.0,
# numpy.float64(0), numpy.int64(0) or False; fixed_params / bounds as list, tuple or numpy array

def typed(v, kind):
    if v is None:
        return None
    if kind in (None, 'float'):
        return float(v)
    if kind == 'int':
        assert float(v) == int(v)
        return int(v)
    if kind == 'negzero':
        assert float(v) == 0.0
        return -0.0
    if kind == 'npfloat':
        return np.float64(v)
    if kind == 'npint':
        assert float(v) == int(v)
        return np.int64(int(v))
    if kind == 'bool':
        assert float(v) in (0.0, 1.0)
        return bool(v)
    if kind == 'npbool':
        assert float(v) in (0.0, 1.0)
        return np.bool_(bool(v))
    if kind == 'npint32':
        assert float(v) == int(v)
        return np.int32(int(v))
    if kind == 'npfloat32':
        assert float(np.float32(v)) == float(v)
        return np.float32(v)
    if kind == 'np0d':
        return np.array(float(v))
    if kind == 'np0d_int':
        assert float(v) == int(v)
        return np.array(int(v))
    raise ValueError('unknown kind %r' % (kind,))

def typed_seq(vals, kinds, how, force_object=False):
    if vals is None:
        return None
    kinds = kinds or [None] * len(vals)
    out = [typed(v, k) for v, k in zip(vals, kinds)]
    if how == 'tuple':
        return tuple(out)
    if how == 'scalar':                                   # the bare value
        assert len(out) == 1
        return out[0]
    if how == 'array0d':                                  # numpy.array(value): no axis at all
        assert len(out) == 1
        return np.array(out[0])
    if how == 'array:auto':                               # numpy's own choice of dtype for these elements
        return np.array(out)
    if isinstance(how, str) and how.startswith('array:'):
        a = np.array(out, dtype=np.dtype(how[6:]))
        assert [float(x) for x in a] == [float(v) for v in vals], (how, vals)
        return a
    if how == 'array':
        if force_object or any(v is None for v in out):
            a = np.empty(len(out), dtype=object)
            for i, v in enumerate(out):
                a[i] = v
            return a
        return np.array(out, dtype=float)
    return out

def typed_args(c):
    return {'fixed': typed_seq(c.get('fixed'), c.get('fixed_kinds'), c.get('fixed_container'), force_object=True),
            'lower': typed_seq(c.get('lower'), c.get('lower_kinds'), c.get('bound_container')),
            'upper': typed_seq(c.get('upper'), c.get('upper_kinds'), c.get('bound_container')),
            'p0': None if c.get('p0') is None else typed_seq(c['p0'], c.get('p0_kinds'), c.get('p0_container'))}

def plain(seq):
    return None if seq is None else [None if v is None else float(v) for v in seq]

def decode_extra(name, v, c):
    if name == 'output_file' and v is True:
        import tempfile
        fd, path = tempfile.mkstemp(prefix='c12_out_', suffix='.txt')
        os.close(fd)
        c.setdefault('_files', []).append(path)
        return path
    if name in ('algorithm', 'local_optimizer') and isinstance(v, str):
        return getattr(nlopt, v)
    if name in ('eq_constraint', 'ieq_constraint') and isinstance(v, dict):
        # a constraint that every point satisfies: g(x) = 1 + sum x_i^2 >= 0 (never binding, never an equality)
        return lambda x, *a: np.array([1.0 + float(np.sum(np.asarray(x, dtype=float) ** 2))])
    if name == 'maxtime' and v == 'inf':
        return float('inf')
    return v

def spelled_call(f, required, kw, c):
    """the call as the case spells it: extra keywords added, omitted keywords left to their defaults, the named optional
    parameters handed over positionally"""
    call = c.get('call') or {}
    kw = dict(kw)
    for name, v in sorted((call.get('extra') or {}).items()):
        kw[name] = decode_extra(name, v, c)
    for name in call.get('omit') or []:
        kw.pop(name, None)
    pos = [kw.pop(name) for name in (call.get('positional') or [])]
    c['_func_kwargs_handed'] = kw.get('func_kwargs')
    c['_func_kwargs_before'] = None if kw.get('func_kwargs') is None else dict(kw['func_kwargs'])
    return f(*(list(required) + pos), **kw)

def call_wrapper(c, data, model, full_output=True):
    fn = c['fn']
    kw = dict(multinom=c['multinom'], fixed_params=c['fixed'])
    if fn == 'opt':
        kw.update(lower_bound=c['lower'], upper_bound=c['upper'], log_opt=c['log_opt'])
        if c.get('algorithm'):
            kw['algorithm'] = getattr(nlopt, c['algorithm'])
        for key in ('maxeval', 'ftol_abs', 'xtol_abs'):
            if c.get(key) is not None:
                kw[key] = c[key]
        x, f = spelled_call(NL.opt, [c['p0'], data, model, None], kw, c)
        return x, f
    if fn == 'optimize_grid':
        kw['full_output'] = full_output
        out = spelled_call(Inf.optimize_grid, [data, model, None, grid_slices(c['grid'], c.get('grid_kinds'))], kw, c)
        return (out[0], out[1]) if full_output else (out, None)
    kw.update(lower_bound=c['lower'], upper_bound=c['upper'], full_output=full_output)
    if fn not in ('optimize_log_fmin', 'optimize_log_powell') and c.get('ll_scale') is not None:
        kw['ll_scale'] = c['ll_scale']
    if c.get('maxiter') is not None:
        kw['maxiter'] = c['maxiter']
    out = spelled_call(getattr(Inf, fn), [c['p0'], data, model, None], kw, c)
    return (out[0], out[1]) if full_output else (out, None)

def copy_in(c):
    """fresh copies of the caller-visible sequences (with the requested Python types), to see whether the wrapper modifies them"""
    return typed_args(c)

def captured_call(cc, data, model, full_output, rec):
    """the call with sys.stdout captured (verbose output goes to the stream the wrapper looks up at call time); what was written,
    whether the caller's func_kwargs dictionary came back as it went in, and the lines of a requested output_file"""
    buf = io.StringIO()
    try:
        with contextlib.redirect_stdout(buf):
            return call_wrapper(cc, data, model, full_output=full_output)
    finally:
        rec['stdout_lines'] = len(buf.getvalue().splitlines())
        if cc.get('_func_kwargs_handed') is not None:
            rec['func_kwargs_after'] = sorted(cc['_func_kwargs_handed'].items())
            rec['func_kwargs_before'] = sorted(cc['_func_kwargs_before'].items())
        for path in cc.get('_files') or []:
            try:
                rec['output_file_lines'] = len(open(path).read().splitlines())
                os.remove(path)
            except OSError as e:
                rec['output_file_lines'] = 'unreadable: %s' % e

def model_args_record(rec, margs):
    """the extra positional / keyword arguments the model function was called with: the distinct combinations seen"""
    seen = []
    for m in margs:
        if m not in seen:
            seen.append(m)
    rec['model_args'] = seen[:4]

def run_scripted(cases):
    out = []
    data = dadi.Spectrum([0, 1.0, 1.0, 0])
    real_ll, real_llm, real_scal = Inf.ll, Inf.ll_multinom, Inf.optimal_sfs_scaling
    for c in cases:
        rec = {'id': c['id']}
        evals = []
        margs = []
        def model(params, ns, *a, _e=evals, _m=margs, **k):
            _e.append(jl(params))
            _m.append([list(a), sorted(k.items())])
            return FakeSfs(params)
        Inf.ll = lambda sfs, d, _c=c: quad(_c['llp'], sfs.params)
        Inf.ll_multinom = lambda sfs, d, _c=c: quad(_c['llm'], sfs.params)
        Inf.optimal_sfs_scaling = lambda sfs, d: 1.0
        SCRIPT['props'] = c.get('props') or []; SCRIPT['ret'] = c.get('ret'); SCRIPT['lenient'] = bool(c.get('lenient'))
        SCRIPT['clip'] = bool(c.get('clip')); SCRIPT['box'] = None
        REC.clear()
        install_stubs()
        try:
            cc = dict(c); cc.update(copy_in(c))
            x, f = captured_call(cc, data, model, c.get('full_output', True), rec)
            rec['x'] = jl(x); rec['f'] = None if f is None else jf(f)
        except Exception as e:
            rec['error'] = type(e).__name__ + ': ' + str(e)[:300]
        finally:
            remove_stubs()
            Inf.ll, Inf.ll_multinom, Inf.optimal_sfs_scaling = real_ll, real_llm, real_scal
        rec['evals'] = list(evals)
        rec['oracle'] = dict(REC)
        model_args_record(rec, margs)
        out.append(rec)
    return out

# ------------------------------------------------------------------------------------------------
# real optimisers on closed-form models

def make_model(spec):
    """sfs(p) = base + sum_k dk * (p_k - c_k)^2 + lin_k * p_k   (entrywise positive over the generated boxes)"""
    base = np.array(spec['base'], dtype=float)
    quadc = [np.array(d, dtype=float) for d in spec['quad']]
    lin = [np.array(d, dtype=float) for d in spec['lin']]
    cs = spec['cs']
    def sfs_of(p):
        a = base.copy()
        try:
            for k in range(len(cs)):
                a = a + quadc[k] * (p[k] - cs[k]) ** 2 + lin[k] * p[k]
        except OverflowError:
            # an optimiser without bounds (in log(params) in particular) may try astronomically large parameters: the
            # model stays defined there (differences saturate at 1e100: a finite, hopeless spectrum) instead of raising out
            # of the harness's own arithmetic
            a = base.copy()
            for k in range(len(cs)):
                d = min(abs(float(p[k]) - cs[k]), 1e100)
                a = a + quadc[k] * d * d + lin[k] * max(-1e100, min(1e100, float(p[k])))
        return dadi.Spectrum(a)
    return sfs_of

def run_real(cases):
    out = []
    for c in cases:
        rec = {'id': c['id']}
        sfs_of = make_model(c['model'])
        data = dadi.Spectrum(np.array(c['model']['data'], dtype=float))
        evals = []
        margs = []
        def model(params, ns, *a, _e=evals, _m=margs, **k):
            _e.append(jl(params))
            _m.append([list(a), sorted(k.items())])
            return sfs_of([float(x) for x in params])
        def lik(p):
            m = sfs_of([float(x) for x in p])
            return float(Inf.ll_multinom(m, data) if c['multinom'] else Inf.ll(m, data))
        SCRIPT['lenient'] = bool(c.get('lenient'))
        if c.get('lenient'):
            def shim(*a, **k):
                k.pop('iprint', None)
                return REAL['fmin_l_bfgs_b'](*a, **k)
            scipy.optimize.fmin_l_bfgs_b = shim
        try:
            if c.get('seed') is not None:
                nlopt.srand(int(c['seed'])); np.random.seed(int(c['seed']))
            cc = dict(c); cc.update(copy_in(c))
            x, f = captured_call(cc, data, model, c.get('full_output', True), rec)
            rec['x'] = jl(x); rec['f'] = None if f is None else jf(f)
            rec['ll_at_x'] = jf(lik(np.atleast_1d(x)))
            for k in ('p0', 'lower', 'upper', 'fixed'):
                if isinstance(c.get(k), list) and plain(cc[k]) != plain(c[k]):
                    rec.setdefault('mutated', []).append(k)
        except Exception as e:
            rec['error'] = type(e).__name__ + ': ' + str(e)[:300]
        finally:
            scipy.optimize.fmin_l_bfgs_b = REAL['fmin_l_bfgs_b']
        if c.get('p0') is not None:
            p0s = [float(v) if (c['fixed'] is None or c['fixed'][i] is None) else float(c['fixed'][i]) for i, v in enumerate(c['p0'])]
            rec['p0_subst'] = p0s
            rec['ll_at_p0'] = jf(lik(p0s))
        rec['evals'] = list(evals)
        model_args_record(rec, margs)
        out.append(rec)
    return out

# ------------------------------------------------------------------------------------------------

def run_perturb(cases):
    out = []
    real_uniform = np.random.uniform
    for c in cases:
        rec = {'id': c['id']}
        us = list(c['us'])
        def fake_uniform(low=0.0, high=1.0, size=None, _us=us):
            n = size if isinstance(size, int) else (size[0] if size else 1)
            assert n == len(_us)
            return np.array(_us, dtype=float)
        np.random.uniform = fake_uniform
        try:
            lo = typed_seq(c['lower'], c.get('lower_kinds'), c.get('bound_container'))
            hi = typed_seq(c['upper'], c.get('upper_kinds'), c.get('bound_container'))
            kw = {}
            if lo is not None: kw['lower_bound'] = lo
            if hi is not None: kw['upper_bound'] = hi
            r = Misc.perturb_params(np.array(c['params'], dtype=float) if c.get('as_array', True) else list(c['params']), fold=c['fold'], **kw)
            rec['x'] = jl(r)
        except Exception as e:
            rec['error'] = type(e).__name__ + ': ' + str(e)[:300]
        finally:
            np.random.uniform = real_uniform
        out.append(rec)
    return out

# ------------------------------------------------------------------------------------------------
# _project_params_down / _project_params_up on their own

def run_project(cases):
    out = []
    def opt_list(a):
        return [None if v is None else jf(v) for v in list(a)]
    for c in cases:
        rec = {'id': c['id']}
        fixed = typed_seq(c.get('fixed'), c.get('fixed_kinds'), c.get('fixed_container'), force_object=True)
        pin = typed_seq(c['pin'], c.get('pin_kinds'), c.get('pin_container'))
        free = c['free'][0] if c.get('free_scalar') else typed_seq(c['free'], c.get('free_kinds'), c.get('free_container', c.get('pin_container')))
        try:
            rec['free_type'] = str(free.dtype) + ('[%d-d]' % free.ndim) if isinstance(free, np.ndarray) else type(free).__name__
            rec['up_type'] = str(getattr(Inf._project_params_up(free, fixed), 'dtype', None))
        except Exception:
            pass
        def attempt(name, thunk, conv):
            try:
                rec[name] = conv(thunk())
            except Exception as e:
                rec[name] = None
                rec.setdefault('errors', {})[name] = type(e).__name__ + ': ' + str(e)[:200]
        attempt('down', lambda: Inf._project_params_down(pin, fixed), opt_list)
        attempt('up', lambda: Inf._project_params_up(free, fixed), lambda a: jl(a) if not np.isscalar(a) else [jf(a)])
        attempt('down_up', lambda: Inf._project_params_down(Inf._project_params_up(free, fixed), fixed), lambda a: jl(a) if not np.isscalar(a) else [jf(a)])
        if all(v is not None for v in c['pin']):
            attempt('up_down', lambda: Inf._project_params_up(Inf._project_params_down(pin, fixed), fixed), jl)
        else:
            rec['up_down'] = None
        out.append(rec)
    return out

def main():
    payload = json.load(sys.stdin)
    mode = payload['mode']
    if mode == 'scripted':
        res = run_scripted(payload['cases'])
    elif mode == 'real':
        res = run_real(payload['cases'])
    elif mode == 'perturb':
        res = run_perturb(payload['cases'])
    elif mode == 'project':
        res = run_project(payload['cases'])
    else:
        raise SystemExit('unknown mode')
    print(json.dumps(res))

main()
