"""C16 driver of the argument-TYPES stream (harness/props/c16_types.py): the same logical call of the demes importer / slicer /
exporter, spelled with the Python / numpy types, containers and memory layouts the API accepts, with the SAME argument
objects re-used across calls.

stdin : {"cases": [ {id, graph, sampled, ns, times (None | list), Ne (None | number), pts (int), variants: [variant...]} ]}
        variant = {vid, entry: "SFS" | "from_demes" | "slice" | "output", kinds: {dimension: kind}}   (missing dimension = canonical)
stdout: per case {id, variants: [{vid, calls: [{what, fs | graph | error}], mutated: [{arg, after, before, now}]}], fresh3: fs}

entry "SFS"        dadi.Demes.SFS(g, sampled, ns, p, sample_times=, Ne=, theta=) called TWICE with the same argument objects
entry "from_demes" dadi.Spectrum.from_demes(g, sampled, ns, pts, sample_times=, Ne=, ...) called once with the objects (the
                   default pts of this stream has THREE grid sizes: make_extrap_func evaluates Demes.SFS three times with the same
                   objects), then dadi.Demes.SFS once more with the same objects on the first grid
entry "slice"      dadi.Demes.DemesUtil.slice(g, t) twice with the same objects
entry "output"     a small native two-population program, then dadi.Demes.output(Nref=, generation_time=)
After every call every argument object is compared with the snapshot taken before the first call (type, dtype, shape, strides,
bytes - also of the array a view looks into -, items and their identities, the graph as dict).
`fresh3` (canonical spelling only): make_extrap_func over Demes.SFS calls that each get FRESH argument objects - the value
from_demes has when no object is shared between the evaluations.
"""
import sys, json, warnings, copy, traceback, os, tempfile, signal
warnings.filterwarnings('ignore')
import numpy as np
np.seterr(all='ignore')
import dadi
import demes
import dadi.Demes
from dadi.Demes import DemesUtil

SENT = 7.5


def load_graph(c):
    return demes.Builder.fromdict(copy.deepcopy(c['graph'])).resolve()


def fs_out(fs):
    return {'shape': list(fs.shape), 'data': [float(x) for x in np.asarray(fs.data).ravel()],
            'mask': [bool(x) for x in np.ma.getmaskarray(fs).ravel()],
            'pop_ids': [str(x) for x in fs.pop_ids] if fs.pop_ids is not None else None,
            'type': type(fs).__name__, 'dtype': str(fs.dtype)}


# ------------------------------------------------------------------------------------------------------------------
# spellings

def seq(kind, v, conv_py, np_scalar, dtypes):
    """a sequence of numbers / names in the container `kind`"""
    v = list(v)
    if kind == 'list':
        return [conv_py(x) for x in v]
    if kind == 'tuple':
        return tuple(conv_py(x) for x in v)
    raise KeyError(kind)


def make_sampled(kind, v):
    v = [str(x) for x in v]
    if kind == 'list': return list(v)
    if kind == 'tuple': return tuple(v)
    if kind == 'np_str_array': return np.array(v)
    if kind == 'np_object_array': return np.array(v, dtype=object)
    if kind == 'list_np_str': return [np.str_(x) for x in v]
    raise KeyError(kind)


def strided(v, dtype):
    a = np.full(2 * len(v), SENT, dtype=dtype)
    a[::2] = v
    return a[::2]


def negstride(v, dtype):
    return np.array(list(v)[::-1], dtype=dtype)[::-1]


def fortran_column(v, dtype):
    A = np.asfortranarray(np.stack([np.array(v, dtype=dtype), np.full(len(v), SENT, dtype=dtype)], axis=1))
    return A[:, 0]


def c_column(v, dtype):
    A = np.ascontiguousarray(np.stack([np.array(v, dtype=dtype), np.full(len(v), SENT, dtype=dtype)], axis=1))
    return A[:, 0]


def make_ns(kind, v):
    v = [int(x) for x in v]
    if kind == 'list': return list(v)
    if kind == 'tuple': return tuple(v)
    if kind == 'np_int64': return np.array(v, dtype=np.int64)
    if kind == 'np_int32': return np.array(v, dtype=np.int32)
    if kind == 'np_uint8': return np.array(v, dtype=np.uint8)
    if kind == 'list_np_int64': return [np.int64(x) for x in v]
    if kind == 'np_float64': return np.array(v, dtype=np.float64)
    if kind == 'list_float': return [float(x) for x in v]
    if kind == 'np_int64_negstride': return negstride(v, np.int64)
    if kind == 'np_int64_strided': return strided(v, np.int64)
    raise KeyError(kind)


def make_times(kind, v):
    if kind in ('none', 'omitted'):
        if v is not None:
            raise KeyError(kind)
        return None
    if v is None:
        raise KeyError(kind)
    if kind in ('list_int', 'np_int64', 'np_int32', 'tuple_int'):
        if any(float(x) != int(x) for x in v):
            raise KeyError(kind)
    if kind == 'list_float': return [float(x) for x in v]
    if kind == 'list_int': return [int(x) for x in v]
    if kind == 'tuple_float': return tuple(float(x) for x in v)
    if kind == 'tuple_int': return tuple(int(x) for x in v)
    if kind == 'np_float64': return np.array(v, dtype=np.float64)
    if kind == 'np_int64': return np.array(v, dtype=np.int64)
    if kind == 'np_int32': return np.array(v, dtype=np.int32)
    if kind == 'np_float32': return np.array(v, dtype=np.float32)
    if kind == 'np_longdouble': return np.array(v, dtype=np.longdouble)
    if kind == 'list_np_float64': return [np.float64(x) for x in v]
    if kind == 'list_np_float32': return [np.float32(x) for x in v]
    if kind == 'list_np_int64': return [np.int64(x) for x in v]
    if kind == 'list_arr0': return [np.array(float(x)) for x in v]
    if kind == 'np_float64_negstride': return negstride(v, np.float64)
    if kind == 'np_float64_strided': return strided(v, np.float64)
    if kind == 'np_float64_fortran_column': return fortran_column(v, np.float64)
    if kind == 'np_float64_c_column': return c_column(v, np.float64)
    if kind == 'np_float64_readonly':
        a = np.array(v, dtype=np.float64); a.setflags(write=False); return a
    if kind == 'masked_array': return np.ma.array([float(x) for x in v])
    if kind == 'masked_array_mask_false': return np.ma.array([float(x) for x in v], mask=[False] * len(v))
    raise KeyError(kind)


def make_scalar(kind, x, allow_none=False):
    if kind in ('none', 'omitted'):
        if x is not None:
            raise KeyError(kind)
        return None
    if x is None:
        raise KeyError(kind)
    if kind in ('int', 'np_int64', 'np_int32', 'arr0_int', 'bool', 'np_bool'):
        if float(x) != int(x):
            raise KeyError(kind)
    if kind == 'float': return float(x)
    if kind == 'int': return int(x)
    if kind == 'np_float64': return np.float64(x)
    if kind == 'np_float32':
        if float(np.float32(x)) != float(x):
            raise KeyError(kind)
        return np.float32(x)
    if kind == 'np_longdouble': return np.longdouble(x)
    if kind == 'np_int64': return np.int64(int(x))
    if kind == 'np_int32': return np.int32(int(x))
    if kind == 'arr0_float': return np.array(float(x))
    if kind == 'arr0_int': return np.array(int(x))
    if kind == 'arr1_float': return np.array([float(x)])
    if kind == 'bool':
        if int(x) not in (0, 1): raise KeyError(kind)
        return bool(int(x))
    if kind == 'np_bool':
        if int(x) not in (0, 1): raise KeyError(kind)
        return np.bool_(int(x))
    raise KeyError(kind)


def grids(p):
    return [p, p + 2, p + 4]


def make_pts(kind, p):
    g3 = grids(p)
    if kind == 'list3': return list(g3)
    if kind == 'tuple3': return tuple(g3)
    if kind == 'np_int64_3': return np.array(g3, dtype=np.int64)
    if kind == 'np_int32_3': return np.array(g3, dtype=np.int32)
    if kind == 'list3_np_int64': return [np.int64(x) for x in g3]
    if kind == 'list3_float': return [float(x) for x in g3]
    if kind == 'np_int64_3_negstride': return negstride(g3, np.int64)
    if kind == 'list3_descending': return list(g3[::-1])
    if kind == 'list2': return list(g3[:2])
    if kind == 'list1': return [p]
    if kind == 'tuple1': return (p,)
    if kind == 'np_int64_1': return np.array([p], dtype=np.int64)
    if kind == 'scalar_int': return int(p)
    if kind == 'scalar_np_int64': return np.int64(p)
    raise KeyError(kind)


# which canonical result a pts kind is to be compared with
PTS_REF = {'list3': 'fd3', 'tuple3': 'fd3', 'np_int64_3': 'fd3', 'np_int32_3': 'fd3', 'list3_np_int64': 'fd3', 'list3_float': 'fd3',
           'np_int64_3_negstride': 'fd3', 'list3_descending': 'fd3', 'list2': 'fd2', 'list1': 'fd1', 'tuple1': 'fd1',
           'np_int64_1': 'fd1', 'scalar_int': 'fd1', 'scalar_np_int64': 'fd1'}

CANON = {'sampled': 'list', 'ns': 'list', 'times': 'list_float', 'Ne': 'float', 'theta': 'float', 'pts': 'list3', 'p': 'int',
         'log_extrap': 'bool', 'misid': 'bool', 'g': 'graph', 't': 'float', 'Nref': 'float', 'gen_time': 'float'}


def build_args(c, kinds, g):
    k = dict(CANON); k.update(kinds or {})
    a = {}
    if k['g'] == 'graph':
        a['g'] = g
    elif k['g'] == 'graph_fresh':
        a['g'] = load_graph(c)
    elif k['g'] in ('yaml_path', 'yaml_path_np_str'):
        fd, path = tempfile.mkstemp(suffix='.yaml', prefix='c16types_'); os.close(fd)
        demes.dump(g, path)
        a['g'] = path if k['g'] == 'yaml_path' else np.str_(path)
        a['_tmp'] = path
    else:
        raise KeyError(k['g'])
    a['sampled'] = make_sampled(k['sampled'], c['sampled'])
    a['ns'] = make_ns(k['ns'], c['ns'])
    tk = k['times']
    if c.get('times') is None and tk == 'list_float':
        tk = 'none'
    a['times'] = make_times(tk, c.get('times')); a['times_omitted'] = tk == 'omitted'
    nk = k['Ne']
    if c.get('Ne') is None and nk == 'float':
        nk = 'none'
    a['Ne'] = make_scalar(nk, c.get('Ne')); a['Ne_omitted'] = nk == 'omitted'
    a['theta'] = make_scalar(k['theta'], 1.0)
    a['pts'] = make_pts(k['pts'], c['pts'])
    a['p'] = make_scalar(k['p'], c['pts'])
    a['log_extrap'] = make_scalar(k['log_extrap'], 0)
    a['misid'] = make_scalar(k['misid'], 0)
    return a


# ------------------------------------------------------------------------------------------------------------------
# snapshots of the caller's objects

def root_of(o):
    b = o
    while isinstance(getattr(b, 'base', None), np.ndarray):
        b = b.base
    return b


def arr_bytes(a):
    a = np.asarray(a)
    if a.dtype == object:
        return repr(a.tolist())
    return a.tobytes().hex()


def plain(o):
    """a graph dict with every number a Python number (numpy scalars -> .item(); longdouble / float32 -> float)"""
    if isinstance(o, dict):
        return {str(k): plain(v) for k, v in o.items()}
    if isinstance(o, (list, tuple)):
        return [plain(x) for x in o]
    if isinstance(o, np.ndarray):
        return plain(o.tolist())
    if isinstance(o, np.generic):
        return plain(o.item()) if not isinstance(o, np.longdouble) else float(o)
    if isinstance(o, float) and o == float('inf'):
        return 'inf'
    return o


def snap(o):
    if o is None or isinstance(o, (bool, int, float, str)) and not isinstance(o, np.generic):
        return ['py', type(o).__name__, repr(o)]
    if isinstance(o, np.ma.MaskedArray):
        return ['ma', str(o.dtype), list(o.shape), arr_bytes(o.data), arr_bytes(np.ma.getmaskarray(o)), repr(o.fill_value)]
    if isinstance(o, np.ndarray):
        r = root_of(o)
        return ['nd', str(o.dtype), list(o.shape), list(o.strides), arr_bytes(o), bool(o.flags.writeable),
                None if r is o else [str(r.dtype), list(r.shape), arr_bytes(r)]]
    if isinstance(o, np.generic):
        return ['np', type(o).__name__, repr(o)]
    if isinstance(o, (list, tuple)):
        return [type(o).__name__, [snap(x) for x in o], [id(x) for x in o]]
    if isinstance(o, demes.Graph):
        return ['graph', json.dumps(o.asdict(), sort_keys=True, default=str)]
    return ['other', type(o).__name__, repr(o)]


def short(s):
    t = json.dumps(s)
    return t if len(t) < 400 else t[:400] + '...'


class Watchdog(Exception):
    pass


def _alarm(signum, frame):
    raise Watchdog('the call did not end within the wall-time limit')


def guarded(f):
    signal.signal(signal.SIGALRM, _alarm)
    signal.setitimer(signal.ITIMER_REAL, 120.0)
    try:
        return f()
    finally:
        signal.setitimer(signal.ITIMER_REAL, 0)


def sfs_call(a, p):
    kw = {}
    if not a['times_omitted']:
        kw['sample_times'] = a['times']
    if not a['Ne_omitted']:
        kw['Ne'] = a['Ne']
    if a.get('theta_given'):
        kw['theta'] = a['theta']
    return dadi.Demes.SFS(a['g'], a['sampled'], a['ns'], p, **kw)


def fd_call(a, pts, flags):
    kw = {}
    if not a['times_omitted']:
        kw['sample_times'] = a['times']
    if not a['Ne_omitted']:
        kw['Ne'] = a['Ne']
    if 'log_extrap' in flags:
        kw['log_extrap'] = a['log_extrap']
    if 'misid' in flags:
        kw['ancestral_misid'] = a['misid']
    return dadi.Spectrum.from_demes(a['g'], a['sampled'], a['ns'], pts, **kw)


WATCHED = ('g', 'sampled', 'ns', 'times', 'Ne', 'theta', 'pts', 'p', 'log_extrap', 'misid', 't', 'Nref', 'gen_time')


def run_calls(a, calls):
    """calls = [(label, thunk)]; the argument objects in `a` are snapshotted before the first call and compared after each"""
    before = {k: snap(a[k]) for k in WATCHED if k in a}
    out = []; mutated = []; seen = set()
    for label, th in calls:
        rec = {'what': label}
        try:
            r = guarded(th)
            if isinstance(r, demes.Graph):
                rec['graph'] = json.dumps(plain(r.asdict()), sort_keys=True, default=str)
            else:
                rec['fs'] = fs_out(r)
        except Exception as e:
            rec['error'] = type(e).__name__ + ': ' + str(e)[:200]
            rec['etype'] = type(e).__name__
            rec['tb'] = traceback.format_exc()[-600:]
        out.append(rec)
        for k in before:
            if k in seen:
                continue
            now = snap(a[k])
            if now != before[k]:
                seen.add(k)
                mutated.append({'arg': k, 'after': label, 'before': short(before[k]), 'now': short(now)})
    return out, mutated


def native_for_output():
    xx = dadi.Numerics.default_grid(12)
    phi = dadi.PhiManip.phi_1D(xx)
    phi = dadi.Integration.one_pop(phi, xx, 0.25, nu=2.0)
    phi = dadi.PhiManip.phi_1D_to_2D(xx, phi)
    phi = dadi.Integration.two_pops(phi, xx, 0.5, nu1=1.5, nu2=lambda t: 1.0 * (3.0 / 1.0) ** (t / 0.5), m12=0.25, m21=0.5)
    return dadi.Spectrum.from_phi(phi, [3, 2], (xx, xx))


def run_variant(c, v, g):
    kinds = v.get('kinds') or {}
    entry = v['entry']
    rec = {'vid': v['vid']}
    a = None
    try:
        if entry in ('SFS', 'from_demes'):
            a = build_args(c, kinds, g)
            a['theta_given'] = 'theta' in kinds
            if entry == 'SFS':
                calls = [('SFS#1', lambda: sfs_call(a, a['p'])), ('SFS#2', lambda: sfs_call(a, a['p']))]
            else:
                flags = [f for f in ('log_extrap', 'misid') if f in kinds]
                calls = [('from_demes', lambda: fd_call(a, a['pts'], flags))]
                if not isinstance(a['g'], str):       # Demes.SFS takes a graph only
                    calls.append(('SFS-after', lambda: sfs_call(a, c['pts'])))
            rec['calls'], rec['mutated'] = run_calls(a, calls)
        elif entry == 'slice':
            a = {'g': g, 't': make_scalar(kinds.get('t', 'float'), c['t'])}
            calls = [('slice#1', lambda: DemesUtil.slice(a['g'], a['t'])), ('slice#2', lambda: DemesUtil.slice(a['g'], a['t']))]
            rec['calls'], rec['mutated'] = run_calls(a, calls)
        elif entry == 'output':
            a = {'Nref': make_scalar(kinds.get('Nref', 'float'), c['Nref']), 'gen_time': make_scalar(kinds.get('gen_time', 'float'), c['gen_time'])}
            def th():
                native_for_output()
                return dadi.Demes.output(Nref=a['Nref'], generation_time=a['gen_time'])
            rec['calls'], rec['mutated'] = run_calls(a, [('output#1', th), ('output#2', th)])
        else:
            raise ValueError(entry)
    except KeyError as e:
        rec['inapplicable'] = str(e)
    finally:
        if a and a.get('_tmp'):
            try: os.unlink(a['_tmp'])
            except OSError: pass
    return rec


def fresh3(c):
    """from_demes with three grid sizes when every evaluation gets its own argument objects"""
    def f(dummy, pts):
        g = load_graph(c)
        kw = {}
        if c.get('times') is not None:
            kw['sample_times'] = [float(x) for x in c['times']]
        if c.get('Ne') is not None:
            kw['Ne'] = float(c['Ne'])
        return dadi.Demes.SFS(g, list(c['sampled']), list(c['ns']), pts, **kw)
    return dadi.Numerics.make_extrap_func(f)(0, grids(c['pts']))


def main():
    payload = json.load(sys.stdin)
    out = []
    for c in payload['cases']:
        rec = {'id': c['id'], 'variants': []}
        try:
            g = load_graph(c) if c.get('graph') is not None else None
            if g is not None:
                g0 = snap(g)
            for v in c['variants']:
                rec['variants'].append(run_variant(c, v, g))
            if g is not None and snap(g) != g0:
                rec['graph_changed'] = True
            if c.get('fresh3'):
                try:
                    rec['fresh3'] = fs_out(guarded(lambda: fresh3(c)))
                except Exception as e:
                    rec['fresh3_error'] = type(e).__name__ + ': ' + str(e)[:200]
        except Exception as e:
            rec['error'] = type(e).__name__ + ': ' + str(e)[:300]
            rec['tb'] = traceback.format_exc()[-1200:]
        out.append(rec)
    print(json.dumps(out))


main()
