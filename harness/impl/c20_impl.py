"""C20 driver: runs the REAL dadi (overlay on PYTHONPATH) on JSON call specifications.

stdin: {'mode': ..., ...}; stdout (last line): JSON.

  mode 'eval'    {'calls': [spec...], 'instrument': bool, 'full': bool}
                 the calls are evaluated IN ORDER IN THIS PROCESS (a history; a one-element list is a reference
                 evaluation in a fresh interpreter).  Per call: digest of the result (sha256 of a canonical form with
                 float.hex), argument freezing report (arguments snapshotted before, compared after),
                 np.shares_memory(result, array argument), the keys found in the module-level caches afterwards and,
                 with 'instrument', the log of every entry into a memoised function
                 (cache, key, digest of a cache-free evaluation, digest of what was returned).
  mode 'layout'  {'calls': [spec...]}   every call is evaluated with C-contiguous arguments and then once per
                 (array argument, layout variant in F / T / sliced / neg / offset); numeric difference reported.
  mode 'diagnose' {'calls': [...], 'index': k}  the history is run up to k-1, then call k is evaluated (a) as is,
                 (b) after emptying every cache, (c) after emptying one cache at a time (on a restored state).

  mode 'mutate'  {'calls': [spec...]}   the mutate-the-result stream: per call R = f(A...) three forks of THIS (pristine) process:
                 (P_A) build A, follow-up values g(A); (P_R) build A, R = f(A), digest of R, follow-up values g(R);
                 (M) for each edit kind in mask / data / list: build A afresh, R = f(A), snapshot A (raw bytes of every data and
                 mask buffer, lists), apply the standard in-place edit to every buffer of that kind of R, report which buffers of A
                 changed, g(A), f(A) again; and the mirror: edit A, report which buffers of R changed, g(R).

A call specification is a JSON object {'op': ..., ...}; see BUILDERS.
"""
import sys, json, warnings, logging, hashlib, copy, os, io, math, gc
warnings.filterwarnings('ignore')
import numpy as np
import dadi
from dadi import Numerics, PhiManip, Integration, Inference, Misc, Godambe, Spectrum
import dadi.Spectrum_mod as Spectrum_mod
from dadi.LowPass import LowPass as LP
for _n in ('Numerics', 'Inference', 'Spectrum_mod', 'Integration', 'Misc'):
    logging.getLogger(_n).setLevel(logging.CRITICAL)
np.seterr(all='ignore')

REPO = os.environ.get('DADI_REPO', '/repo')
_OV = os.environ.get('DADI_OVERLAY')
if _OV and not os.path.realpath(dadi.__file__).startswith(os.path.realpath(_OV) + os.sep):
    # dadi is also installed in /venv (pointing at /repo): never silently run that one
    print(json.dumps({'crash': 'dadi was imported from %s, not from the rebuilt overlay %s' % (dadi.__file__, _OV)}))
    sys.exit(0)
try:
    STAMP = open(os.path.join(_OV, '.stamp')).read().strip() if _OV else None
except OSError:
    STAMP = None

# ------------------------------------------------------------------------------------------------------------------
# canonical forms

def fhex(x):
    x = float(x)
    if x != x:
        return 'nan'
    return x.hex()

def canon(x, depth=0):
    if depth > 12:
        return ['deep']
    if isinstance(x, np.ma.MaskedArray):
        data = np.asarray(np.ma.getdata(x))
        mask = np.ma.getmaskarray(x)
        tag = 'S' if isinstance(x, Spectrum) else 'M'
        if data.dtype.kind == 'f':
            vals = [('0x0.0p+0' if m else fhex(v)) for v, m in zip(data.ravel().tolist(), mask.ravel().tolist())]
        else:
            vals = [(0 if m else v) for v, m in zip(data.ravel().tolist(), mask.ravel().tolist())]
        out = [tag, data.dtype.kind, list(data.shape), vals, ''.join('1' if m else '0' for m in mask.ravel().tolist())]
        if tag == 'S':
            ex = getattr(x, 'extrap_x', None)
            out += [getattr(x, 'folded', None), canon(getattr(x, 'pop_ids', None), depth + 1),
                    None if ex is None else fhex(ex)]
        return out
    if isinstance(x, np.ndarray):
        if x.dtype.kind == 'f':
            return ['A', 'f', list(x.shape), [fhex(v) for v in x.ravel().tolist()]]
        if x.dtype.kind in 'iub':
            return ['A', x.dtype.kind, list(x.shape), [int(v) for v in x.ravel().tolist()]]
        if x.dtype.kind == 'c':
            return ['A', 'c', list(x.shape), [[fhex(v.real), fhex(v.imag)] for v in x.ravel().tolist()]]
        return ['A', x.dtype.kind, list(x.shape), [canon(v, depth + 1) for v in x.ravel().tolist()]]
    if isinstance(x, (np.floating, float)):
        return ['f', fhex(x)]
    if isinstance(x, (bool, np.bool_)):
        return bool(x)
    if isinstance(x, (np.integer, int)):
        return int(x)
    if x is None or isinstance(x, str):
        return x
    if isinstance(x, (list, tuple)):
        return ['L' if isinstance(x, list) else 'T'] + [canon(v, depth + 1) for v in x]
    if isinstance(x, dict):
        items = [(json.dumps(canon(k, depth + 1), sort_keys=True), canon(v, depth + 1)) for k, v in x.items()]
        return ['D'] + [[k, v] for k, v in sorted(items, key=lambda t: t[0])]
    if isinstance(x, (set, frozenset)):
        return ['Z'] + sorted(json.dumps(canon(v, depth + 1), sort_keys=True) for v in x)
    if callable(x):
        return ['callable']
    return ['obj', type(x).__name__]

def digest(c):
    return hashlib.sha256(json.dumps(c, sort_keys=True).encode()).hexdigest()[:24]

def numdiff(a, b):
    """(structurally equal?, max abs difference over float leaves, max abs value of a's float leaves, #float leaves,
    #float leaves bitwise equal)"""
    st = {'ok': True, 'd': 0.0, 's': 0.0, 'n': 0, 'eq': 0, 'nan': 0}
    def fl(s):
        return float('nan') if s == 'nan' else float.fromhex(s)
    def rec(u, v):
        if isinstance(u, str) and isinstance(v, str) and (u.startswith('0x') or u.startswith('-0x') or u in ('nan', 'inf', '-inf')) \
                and (v.startswith('0x') or v.startswith('-0x') or v in ('nan', 'inf', '-inf')):
            x, y = fl(u), fl(v)
            st['n'] += 1
            if u == v:
                st['eq'] += 1
            if x != x or y != y:
                if not (x != x and y != y):
                    st['nan'] += 1
                return
            if math.isinf(x) or math.isinf(y):
                if x != y:
                    st['nan'] += 1
                return
            st['d'] = max(st['d'], abs(x - y)); st['s'] = max(st['s'], abs(x))
            return
        if isinstance(u, list) and isinstance(v, list):
            if len(u) != len(v):
                st['ok'] = False
                return
            for p, q_ in zip(u, v):
                rec(p, q_)
            return
        if u != v:
            st['ok'] = False
    rec(a, b)
    return st

# ------------------------------------------------------------------------------------------------------------------
# buffers and aliasing: an array-like is a bundle of buffers - the data, the mask (when it is an array), label lists

def buffers(x, name, out=None, depth=0):
    """[(label, buffer)] for every buffer reachable in x: ndarray buffers (data, mask) and list objects (identity)"""
    if out is None:
        out = []
    if depth > 6:
        return out
    if isinstance(x, np.ma.MaskedArray):
        out.append((name + '.data', np.ma.getdata(x)))
        m = np.ma.getmask(x)
        if m is not np.ma.nomask and isinstance(m, np.ndarray):
            out.append((name + '.mask', m))
        for attr in ('pop_ids', 'extrap_x'):
            v = getattr(x, attr, None)
            if isinstance(v, list):
                out.append((name + '.' + attr, v))
            elif isinstance(v, np.ndarray):
                out.append((name + '.' + attr, v))
    elif isinstance(x, np.ndarray):
        out.append((name + '.data', x))
    elif isinstance(x, (list, tuple)):
        if isinstance(x, list):
            out.append((name, x))
        for i, v in enumerate(x):
            if isinstance(v, (np.ndarray, list, tuple, dict)):
                buffers(v, '%s[%d]' % (name, i), out, depth + 1)
    elif isinstance(x, dict):
        out.append((name, x))
        for k, v in x.items():
            if isinstance(v, (np.ndarray, list, tuple, dict)):
                buffers(v, '%s{%s}' % (name, str(k)[:20]), out, depth + 1)
    return out

def shares(a, b):
    if isinstance(a, np.ndarray) and isinstance(b, np.ndarray):
        if a.size == 0 or b.size == 0:
            return False
        return bool(np.may_share_memory(a, b)) and bool(np.shares_memory(a, b))
    if isinstance(a, np.ndarray) or isinstance(b, np.ndarray):
        return False
    return a is b

import re as _re
def norm_label(l):
    return _re.sub(r'\{[^}]*\}', '{*}', _re.sub(r'\[\d+\]', '[*]', l))

def global_buffers():
    """every array / list / dictionary held at module level of an imported dadi module (caches and whatever they store included)"""
    out, seen = [], set()
    for mname, m in sorted(sys.modules.items()):
        if m is None or not (mname == 'dadi' or mname.startswith('dadi.')):
            continue
        for attr, val in list(vars(m).items()):
            if attr.startswith('__') or not isinstance(val, (np.ndarray, list, tuple, dict)) or id(val) in seen:
                continue
            seen.add(id(val))
            buffers(val, 'global:%s.%s' % (mname.replace('dadi.', '', 1) if mname != 'dadi' else 'dadi', attr), out, depth=3)
    return out

def alias_pairs(res, frozen):
    """(result buffer, argument / module-level buffer) pairs that share memory (lists, dictionaries: are the same object)"""
    rb = buffers(res, 'R')
    if not rb:
        return [], False
    ab = []
    for n, o in frozen.items():
        buffers(o, n, ab)
    ab += global_buffers()
    pairs = set()
    for rl, r in rb:
        for al, a in ab:
            if shares(r, a):
                pairs.add((norm_label(rl), norm_label(al)))
    # two DIFFERENT array-likes inside one result (elements of a returned list / tuple) sharing a buffer alias each other the same way
    def owner(l):
        return _re.sub(r'\.(data|mask|pop_ids|extrap_x)$', '', l)
    for i in range(len(rb)):
        for j in range(i + 1, len(rb)):
            (li, bi), (lj, bj) = rb[i], rb[j]
            oi, oj = owner(li), owner(lj)
            if oi == oj or oi.startswith(oj + '[') or oj.startswith(oi + '[') or isinstance(bi, (list, dict)) != isinstance(bj, (list, dict)):
                continue
            if shares(bi, bj):
                pairs.add((norm_label(li), 'result:' + norm_label(lj)))
    return [list(p) for p in sorted(pairs)], True

def raw_snapshot(objs):
    """label -> sha1 of the raw bytes (dtype, shape, every byte of the buffer as laid out logically; masked entries included)"""
    out = {}
    for n, o in objs.items():
        for lab, bf in buffers(o, n):
            if isinstance(bf, np.ndarray):
                if bf.dtype.kind == 'O':
                    out[lab] = digest(canon(bf))
                else:
                    out[lab] = hashlib.sha1(repr((bf.dtype.str, bf.shape)).encode() + np.ascontiguousarray(bf).tobytes()).hexdigest()[:20]
            elif isinstance(bf, dict):
                out[lab] = digest(canon(bf))
            else:
                out[lab] = digest(canon(bf))
    return out

# ------------------------------------------------------------------------------------------------------------------
# argument construction (with optional re-layout of one named array argument)

CONTAINER_KINDS = ('list', 'tuple', 'f64', 'int', 'view', 'neg', 'npscalars')

def _plain_numbers(x):
    """flat sequence of real numbers (no None, no nesting)?"""
    if isinstance(x, np.ndarray):
        return x.ndim == 1 and x.dtype.kind in 'fiu' and x.size > 0
    return isinstance(x, (list, tuple)) and len(x) > 0 and all(isinstance(v, (int, float, np.integer, np.floating)) and not isinstance(v, (bool, np.bool_)) for v in x)

def container_kinds(x):
    """the container / dtype variants of an array-like argument that carry the SAME values (cross stream): a flat sequence of numbers as list, tuple,
    float64 ndarray (what the optimisers return), integer ndarray (only when every value is integral), non-contiguous and negatively strided float64 views,
    list of numpy scalars; any other list (None entries, nested) as tuple / list"""
    if isinstance(x, np.ma.MaskedArray):
        return []
    if isinstance(x, (int, float)) and not isinstance(x, bool):
        return ['0d', '1el', 'npfloat']
    if _plain_numbers(x):
        vals = [float(v) for v in (x.tolist() if isinstance(x, np.ndarray) else x)]
        ks = ['list', 'tuple', 'f64', 'view', 'neg', 'npscalars']
        if all(v == int(v) and abs(v) < 2 ** 52 for v in vals):
            ks.append('int')
        return ks
    if isinstance(x, (list, tuple)):
        return ['list', 'tuple']
    return []

def to_container(x, kind):
    """same values, another container; the integer-ness of Python ints is kept in list / tuple form"""
    if kind in ('list', 'tuple') and not _plain_numbers(x):
        return list(x) if kind == 'list' else tuple(x)
    src = x.tolist() if isinstance(x, np.ndarray) else list(x)
    n = len(src)
    if kind == 'list':
        return list(src)
    if kind == 'tuple':
        return tuple(src)
    if kind == 'npscalars':
        return [np.int64(v) if isinstance(v, int) else np.float64(v) for v in src]
    if kind == 'f64':
        return np.array(src, dtype=np.float64)
    if kind == 'int':
        return np.array([int(v) for v in src], dtype=np.int64)
    if kind == 'view':
        big = np.full(2 * n + 1, 7.25); v = big[1::2]; v[...] = src
        return v
    if kind == 'neg':
        big = np.full(3 * n + 3, 7.25); seg = big[n:2 * n]; seg[...] = src[::-1]
        return seg[::-1]
    raise ValueError(kind)


class Args:
    def __init__(self, layout=None, rng_seed=0, cont=None):
        self.layout = layout or {}
        self.cont = cont or {}      # name -> container kind (cross stream): the argument is handed over in that container, same values
        self.names = {}             # name -> ndim
        self.frozen = {}            # name -> object to freeze
        self.alias_check = []       # names of array arguments the result must not share memory with
        self.rs = np.random.RandomState(12345 + rng_seed)

    def arr(self, name, a, alias=False):
        a = np.ascontiguousarray(np.asarray(a, dtype=float))
        self.names[name] = a.ndim
        v = self.layout.get(name)
        if v:
            a = relayout(a, v, self.rs)
        if name in self.cont:
            a = to_container(a, self.cont[name])
        self.frozen[name] = a
        if alias:
            self.alias_check.append(name)
        return a

    def scalar(self, name, v):
        """a SCALAR argument (cross stream only): handed over as a 0-d float64 ndarray / 1-element array / numpy float64 - objects a callee can modify in place
        (`T -= dt` re-binds a Python float, but writes into a 0-d ndarray)"""
        if not self.cont or callable(v) or isinstance(v, bool):
            return v
        k = self.cont.get(name)
        if k == '0d':
            v = np.array(float(v))
        elif k == '1el':
            v = np.array([float(v)])
        elif k == 'npfloat':
            v = np.float64(v)
        self.frozen[name] = v
        return v

    def keep(self, name, obj):
        if name in self.cont and obj is not None:
            obj = to_container(obj, self.cont[name])
        self.frozen[name] = obj
        return obj


def relayout(a, variant, rs):
    """same logical content, different memory layout; every buffer is padded so that code which wrongly treats the
    data pointer as the start of prod(shape) contiguous doubles stays inside the allocation"""
    shape = a.shape; N = a.size
    if variant == 'F':
        out = np.asfortranarray(a)
        if a.ndim == 1:
            variant = 'offset'
        else:
            return out
    if variant == 'T':
        if a.ndim == 1:
            variant = 'sliced'
        else:
            perm = list(range(a.ndim))
            while perm == list(range(a.ndim)):
                perm = list(rs.permutation(a.ndim))
            inv = np.argsort(perm)
            return np.ascontiguousarray(a.transpose(perm)).transpose(inv)
    if variant == 'sliced':
        big = np.full([2 * n for n in shape], 7.25)
        v = big[tuple(slice(None, None, 2) for _ in shape)]
        v[...] = a
        return v
    if variant == 'neg':
        buf = np.full(3 * N + 3, 7.25)
        seg = buf[N:2 * N].reshape(shape)
        rev = tuple(slice(None, None, -1) for _ in shape)
        seg[...] = a[rev]
        return seg[rev]
    if variant == 'offset':
        big = np.full([n + 2 for n in shape], 7.25)
        v = big[tuple(slice(1, -1) for _ in shape)]
        v[...] = a
        return v
    raise ValueError(variant)

def variants_for(ndim):
    return ['F', 'T', 'sliced', 'neg', 'offset'] if ndim >= 2 else ['sliced', 'neg', 'offset']


def mk_phi(r, pts, d):
    """phi recipe -> positive d-dimensional array:  outer(vecs) + c * outer(vecs2)"""
    vecs = [np.array(v, dtype=float) for v in r['vecs']]
    vecs2 = [np.array(v, dtype=float) for v in r['vecs2']]
    def outer(vs):
        o = vs[0]
        for v in vs[1:]:
            o = np.multiply.outer(o, v)
        return o
    phi = outer(vecs) + r.get('c', 0.5) * outer(vecs2)
    assert phi.shape == tuple([pts] * d), (phi.shape, pts, d)
    return phi

def mk_fs(A, name, r, copy=True):
    shape = r['shape']
    data = np.array(r['vals'], dtype=float).reshape(shape)
    mask = np.zeros(shape, dtype=bool)
    for i in r.get('mask', []):
        mask.flat[i] = True
    data = A.arr(name, data)
    lay = A.layout.get(name)
    fs = Spectrum(data, mask=mask, mask_corners=r.get('mask_corners', True), pop_ids=r.get('pop_ids'), copy=not bool(lay))
    if r.get('fold'):
        fs = fs.fold()
    A.frozen[name] = fs
    return fs

# ------------------------------------------------------------------------------------------------------------------
# model functions (module level: their identity is stable over a run)

def _grid(pts, kind=None):
    """kind: None default_grid | 'lin' uniform | 'sq' quadratically spaced | 'bump<k>' default grid with interior point k moved
    half way to its right neighbour (same length, same end points, still increasing)"""
    if kind == 'lin':
        return np.linspace(0, 1, pts)
    if kind == 'sq':
        return np.linspace(0, 1, pts) ** 2
    if kind and kind.startswith('bump'):
        xx = np.array(Numerics.default_grid(pts), dtype=float)
        k = 1 + (int(kind[4:] or 1) - 1) % (pts - 2)
        xx[k] = 0.5 * (xx[k] + xx[k + 1])
        return xx
    return Numerics.default_grid(pts)

def model_m3(params, ns, pts):
    nu1, nu2, nu3, T1, T2, m = params
    xx = _grid(pts)
    phi = PhiManip.phi_1D(xx)
    phi = PhiManip.phi_1D_to_2D(xx, phi)
    phi = Integration.two_pops(phi, xx, T1, nu1=nu1, nu2=nu2, m12=m, m21=m)
    phi = PhiManip.phi_2D_to_3D_split_2(xx, phi)
    phi = Integration.three_pops(phi, xx, T2, nu1=nu1, nu2=nu2, nu3=nu3, m12=m, m21=m, m23=m, m32=m)
    return Spectrum.from_phi(phi, ns, (xx, xx, xx))

def model_m4(params, ns, pts):
    nu1, nu2, nu3, nu4, T, m = params
    xx = _grid(pts)
    phi = PhiManip.phi_1D(xx)
    phi = PhiManip.phi_1D_to_2D(xx, phi)
    phi = PhiManip.phi_2D_to_3D_split_1(xx, phi)
    phi = PhiManip.phi_3D_to_4D(phi, 0, 1, xx, xx, xx, xx)
    phi = Integration.four_pops(phi, xx, T, nu1=nu1, nu2=nu2, nu3=nu3, nu4=nu4, m12=m, m21=m, m34=m)
    return Spectrum.from_phi(phi, ns, (xx, xx, xx, xx))

def model_m5(params, ns, pts):
    nu1, nu2, nu3, nu4, nu5, T, m = params
    xx = _grid(pts)
    phi = PhiManip.phi_1D(xx)
    phi = PhiManip.phi_1D_to_2D(xx, phi)
    phi = PhiManip.phi_2D_to_3D_split_1(xx, phi)
    phi = PhiManip.phi_3D_to_4D(phi, 0, 1, xx, xx, xx, xx)
    phi = PhiManip.phi_4D_to_5D(phi, 0, 0, 1, xx, xx, xx, xx, xx)
    phi = Integration.five_pops(phi, xx, T, nu1=nu1, nu2=nu2, nu3=nu3, nu4=nu4, nu5=nu5, m12=m, m45=m)
    return Spectrum.from_phi(phi, ns, (xx, xx, xx, xx, xx))

def model_two_epoch_theta(params, ns, pts):
    return params[2] * dadi.Demographics1D.two_epoch(params[:2], ns, pts)

def model_two_epoch_g(params, ns, pts):
    """two epochs with selection: (nu, T, gamma) - gamma = 0 is a meaningful ZERO-valued parameter (the nested value of the neutral model)"""
    nu, T, gamma = params
    xx = _grid(pts)
    phi = PhiManip.phi_1D(xx, gamma=gamma)
    phi = Integration.one_pop(phi, xx, T, nu, gamma=gamma)
    return Spectrum.from_phi(phi, ns, (xx,))

def model_two_epoch_g_theta(params, ns, pts):
    """the same with theta as an explicit LAST parameter (multinom=False)"""
    return params[3] * model_two_epoch_g(params[:3], ns, pts)

def model_split_mig_sw(params, ns, pts):
    """a second two-population model with the parameter list of split_mig (population sizes exchanged)"""
    nu1, nu2, T, m = params
    return dadi.Demographics2D.split_mig([nu2, nu1, T, m], ns, pts)

MODELS = {
    'split_mig_sw': model_split_mig_sw,
    'snm_1d': dadi.Demographics1D.snm_1d, 'two_epoch': dadi.Demographics1D.two_epoch, 'growth': dadi.Demographics1D.growth,
    'bottlegrowth_1d': dadi.Demographics1D.bottlegrowth_1d, 'three_epoch': dadi.Demographics1D.three_epoch,
    'snm_2d': dadi.Demographics2D.snm_2d, 'split_mig': dadi.Demographics2D.split_mig, 'IM': dadi.Demographics2D.IM,
    'bottlegrowth_2d': dadi.Demographics2D.bottlegrowth_2d,
    'm3': model_m3, 'm4': model_m4, 'm5': model_m5, 'two_epoch_theta': model_two_epoch_theta,
    'two_epoch_g': model_two_epoch_g, 'two_epoch_g_theta': model_two_epoch_g_theta,
}

MODELS_EX = {k: Numerics.make_extrap_func(v) for k, v in MODELS.items()}      # made once, like func_ex in a user script

def demes_graph(kind):
    import demes
    if kind == 'reorder4':
        # P splits into (c0, c1) while X, Y exist: the front end reorders [c0, X, Y, c1] -> [X, Y, c0, c1] by transposition
        # and hands the transposed view to four_pops
        b = demes.Builder(time_units='generations')
        b.add_deme('anc', epochs=[dict(start_size=1000, end_time=400)])
        b.add_deme('P', ancestors=['anc'], epochs=[dict(start_size=1000, end_time=200)])
        b.add_deme('X', ancestors=['anc'], epochs=[dict(start_size=2000, end_time=0)])
        b.add_deme('Y', ancestors=['X'], start_time=300, epochs=[dict(start_size=500, end_time=0)])
        b.add_deme('c0', ancestors=['P'], epochs=[dict(start_size=3000, end_time=0)])
        b.add_deme('c1', ancestors=['P'], epochs=[dict(start_size=300, end_time=0)])
        b.add_migration(source='X', dest='c0', rate=1e-3)
        return b.resolve()
    if kind.startswith('split2:'):
        # anc splits into A and B; the size of B is the parameter (two graphs that differ in one number, same deme names)
        size_b = float(kind.split(':')[1])
        b = demes.Builder(time_units='generations')
        b.add_deme('anc', epochs=[dict(start_size=1000, end_time=300)])
        b.add_deme('A', ancestors=['anc'], epochs=[dict(start_size=2000, end_time=0)])
        b.add_deme('B', ancestors=['anc'], epochs=[dict(start_size=size_b, end_time=0)])
        b.add_migration(source='A', dest='B', rate=1e-3)
        return b.resolve()
    raise ValueError(kind)

# ------------------------------------------------------------------------------------------------------------------
# builders: spec -> (thunk, integrator?)      thunk() performs THE call

def b_sp(A, s):
    fs = mk_fs(A, 'self', s['fs'])
    m = s['m']; a = copy.deepcopy(s.get('a', []))
    if A.cont:
        # cross stream: the list arguments of the method one by one (arg0, arg1 ...), each in the container asked for
        a = [A.keep('arg%d' % i, v) if isinstance(v, (list, tuple)) else v for i, v in enumerate(a)]
    A.keep('args', a)
    if m in ('add', 'sub', 'mul', 'div'):
        other = mk_fs(A, 'other', s['fs2'])
        import operator
        f = {'add': operator.add, 'sub': operator.sub, 'mul': operator.mul, 'div': operator.truediv}[m]
        return lambda: f(fs, other)
    if m in ('to_file', 'tofile', 'array_to_file'):
        # the result is the TEXT written (the layout differential hands the exporter a spectrum over non-contiguous data)
        def thunk():
            x = fs
            if s.get('plain'):
                x = np.ma.getdata(fs) if s['plain'] == 'ndarray' else np.ma.masked_array(np.ma.getdata(fs), mask=np.ma.getmaskarray(fs))
            return _export_text(m, x, s.get('precision', 16), ['C20'], s.get('foldmaskinfo', True))
        return thunk
    if m == 'sum':
        return lambda: fs.sum()
    if m in ('sample', 'fixed_size_sample'):
        # draw from numpy's global generator (a random SOURCE): fixed by the driver before the call
        def thunk_s():
            np.random.seed(s.get('seed', 11))
            return getattr(fs, m)(*a)
        return thunk_s
    return lambda: getattr(fs, m)(*a)

_OPS = ('add', 'sub', 'mul', 'truediv', 'floordiv', 'pow')

def mk_other(A, o, shape, folded=False):
    """the other operand of an arithmetic operator"""
    k = o['k']
    if k == 'float':
        return A.keep('other', float(o['v']))
    if k == 'int':
        return A.keep('other', int(o['v']))
    if k == 'npfloat':
        return A.keep('other', np.float64(o['v']))
    if k == 'np0d':
        x = np.array(float(o['v'])); A.frozen['other'] = x
        return x
    vals = np.array(o['vals'], dtype=float).reshape(shape)
    if k == 'ndarray':
        return A.arr('other', vals)
    if k in ('ma_nomask', 'ma_mask'):
        if k == 'ma_nomask':
            x = np.ma.masked_array(vals)
        else:
            mk = np.zeros(shape, dtype=bool); mk.flat[o.get('mask_at', 2) % mk.size] = True
            x = np.ma.masked_array(vals, mask=mk)
        A.frozen['other'] = x
        return x
    if k in ('spectrum', 'spectrum_nomc'):
        r = {'shape': list(shape), 'vals': o['vals'], 'mask_corners': k == 'spectrum', 'pop_ids': o.get('pop_ids'), 'fold': folded}
        if o.get('mask'):
            r['mask'] = o['mask']
        return mk_fs(A, 'other', r)
    raise ValueError(k)

def b_ar(A, s):
    """Spectrum arithmetic: fs <op> other (side 'l'), other <op> fs ('r': the reflected method), fs <op>= other ('i')"""
    import operator
    fs = mk_fs(A, 'self', s['fs'])
    other = mk_other(A, s['other'], fs.shape, folded=bool(s['fs'].get('fold')))
    o, side = s['o'], s['side']
    assert o in _OPS
    if side == 'l':
        f = getattr(operator, o)
        return lambda: f(fs, other)
    if side == 'r':
        f = getattr(operator, o)
        return lambda: f(other, fs)
    f = getattr(operator, 'i' + o)
    return lambda: f(fs, other)

def b_nx(A, s):
    """numpy-level operations on a Spectrum (unary operators, ufuncs, views, copies, the constructor) and the array helpers of
    Numerics / Misc / Inference that return arrays"""
    k = s['k']
    if k == 'intersect_masks':
        m1 = mk_fs(A, 'm1', s['fs']); m2 = mk_fs(A, 'm2', s['fs2'])
        if s.get('plain2'):
            m2 = np.array(np.ma.getdata(m2)); A.frozen['m2'] = m2
        return lambda: Numerics.intersect_masks(m1, m2)
    if k == 'trapz':
        yy = A.arr('yy', np.array(s['yy']['vals'], dtype=float).reshape(s['yy']['shape']))
        ax = s.get('axis', -1)
        if s.get('dx') is not None:
            dx = A.arr('dx', [s['dx']] * (yy.shape[ax] - 1))      # dadi's trapz takes the array of spacings (len(dx) + 1 == yy.shape[axis])
            return lambda: Numerics.trapz(yy, dx=dx, axis=ax)
        xx = A.arr('xx', _grid(yy.shape[ax], s.get('grid')))
        return lambda: Numerics.trapz(yy, xx, axis=ax)
    if k == 'reverse_ndarray':
        arr = A.arr('arr', np.array(s['fs']['vals'], dtype=float).reshape(s['fs']['shape']))
        return lambda: Numerics.reverse_array(arr)
    fs = mk_fs(A, 'self', s['fs'])
    if k == 'misc_combine_pops':
        idx = A.keep('idx', list(s['idx']))
        return lambda: Misc.combine_pops(fs, idx)
    if k == 'anc_misid':
        return lambda: Numerics.apply_anc_state_misid(fs, s.get('p', 0.125))
    if k == 'slice':
        return lambda: fs[tuple(slice(1, None) for _ in fs.shape)]
    if k == 'row':
        return lambda: fs[1]
    if k == 'swapaxes':
        return lambda: fs.swapaxes(0, fs.ndim - 1)
    if k == 'construct':
        return lambda: Spectrum(fs)
    if k == 'construct_parts':
        # Spectrum(data, mask=mask, pop_ids=pop_ids): the constructor documented to make a new object from arrays
        data = A.arr('data', np.ma.getdata(fs)); mask = np.array(np.ma.getmaskarray(fs)); A.frozen['mask'] = mask
        ids = A.keep('pop_ids', list(fs.pop_ids) if fs.pop_ids else None)
        return lambda: Spectrum(data, mask=mask, pop_ids=ids, mask_corners=s.get('mask_corners', True))
    f = {'neg': lambda x: -x, 'pos': lambda x: +x, 'abs': abs, 'ma_exp': np.ma.exp, 'ma_log': np.ma.log, 'ma_sqrt': np.ma.sqrt, 'np_sqrt': np.sqrt,
         'np_exp': np.exp, 'np_negative': np.negative, 'np_multiply': lambda x: np.multiply(x, 2.0), 'ellipsis': lambda x: x[...],
         'transpose': lambda x: x.transpose(), 'copy': lambda x: x.copy(), 'view': lambda x: x.view(), 'filled': lambda x: x.filled(0.0),
         'ravel': lambda x: x.ravel(), 'flatten': lambda x: x.flatten(), 'cumsum': lambda x: x.cumsum(axis=0), 'sum_axis': lambda x: x.sum(axis=0),
         'astype': lambda x: x.astype(float), 'reverse_array': Numerics.reverse_array, 'getdata': np.ma.getdata, 'getmaskarray': np.ma.getmaskarray,
         'deepcopy': copy.deepcopy, 'pickle': lambda x: __import__('pickle').loads(__import__('pickle').dumps(x))}[k]
    return lambda: f(fs)

def b_dd(A, s):
    dd = {}
    for sid, seg, calls, og in s['snps']:
        dd[sid] = {'segregating': tuple(seg), 'calls': {p: tuple(c) for p, c in calls.items()}, 'outgroup_allele': og,
                   'context': '-' + seg[0] + '-', 'outgroup_context': '-' + og + '-'}
    A.keep('dd', dd); pop_ids = A.keep('pop_ids', list(s['pop_ids'])); proj = A.keep('proj', list(s['proj']))
    return lambda: Spectrum.from_data_dict(dd, pop_ids, proj, mask_corners=s.get('mask_corners', True), polarized=s.get('polarized', True))

def b_from_phi(A, s):
    d, pts = s['d'], s['pts']
    kinds = s.get('grids') or [s.get('grid')] * d
    phi = A.arr('phi', mk_phi(s['phi'], pts, d))
    xxs = [A.arr('xx%d' % i, _grid(pts, kinds[i])) for i in range(d)]
    A.keep('xxs', xxs)
    ns = A.keep('ns', list(s['ns']))
    admix = A.keep('admix_props', copy.deepcopy(s.get('admix'))) if s.get('admix') else None
    if s.get('inb'):
        Fs = A.keep('Fs', list(s['Fs'])); pl = A.keep('ploidys', list(s['ploidys']))
        kw = {}
        if 'force' in s:
            kw['force_direct'] = s['force']
        return lambda: Spectrum.from_phi_inbreeding(phi, ns, xxs, Fs, pl, mask_corners=s.get('mask_corners', True), pop_ids=s.get('pop_ids'),
                                                    admix_props=admix, het_ascertained=s.get('het'), **kw)
    return lambda: Spectrum.from_phi(phi, ns, xxs, mask_corners=s.get('mask_corners', True), pop_ids=s.get('pop_ids'),
                                     admix_props=admix, force_direct=s.get('force', False), het_ascertained=s.get('het'))

INTEG = {1: 'one_pop', 2: 'two_pops', 3: 'three_pops', 4: 'four_pops', 5: 'five_pops'}

def b_integ(A, s):
    d, pts = s['d'], s['pts']
    phi = A.arr('phi', mk_phi(s['phi'], pts, d), alias=True)
    xx = A.arr('xx', _grid(pts, s.get('grid')))
    kw = {}
    nonconst = s.get('nonconst', False)
    def par(v, k):
        if nonconst and k == 0:
            return lambda t, v=v: v * (1 + 0.5 * t)
        return v
    if d == 1:
        kw['nu'] = A.scalar('nu', par(s['nu'][0], 0)); kw['gamma'] = A.scalar('gamma', s['gamma'][0]); kw['h'] = A.scalar('h', s['h'][0])
        if s.get('frozen'):
            kw['frozen'] = bool(s['frozen'][0])
    else:
        for i in range(d):
            kw['nu%d' % (i + 1)] = A.scalar('nu%d' % (i + 1), par(s['nu'][i], i))
            kw['gamma%d' % (i + 1)] = A.scalar('gamma%d' % (i + 1), s['gamma'][i])
            kw['h%d' % (i + 1)] = A.scalar('h%d' % (i + 1), s['h'][i])
            if s.get('frozen'):
                kw['frozen%d' % (i + 1)] = bool(s['frozen'][i])
        if s.get('m'):
            for i in range(d):
                for j in range(d):
                    if i != j:
                        kw['m%d%d' % (i + 1, j + 1)] = A.scalar('m%d%d' % (i + 1, j + 1), s['m'][i][j])
    kw['theta0'] = A.scalar('theta0', s.get('theta0', 1.0))
    kw['initial_t'] = A.scalar('initial_t', s.get('initial_t', 0))
    f = getattr(Integration, INTEG[d])
    if s.get('X'):
        # the X-chromosome integrator (one population): same time-step machinery, two more parameters
        assert d == 1
        f = Integration.one_pop_X
        kw['beta'] = A.scalar('beta', s.get('beta', 1.5)); kw['alpha'] = A.scalar('alpha', s.get('alpha', 2.0))
    T = A.scalar('T', s['T'])
    return lambda: f(phi, xx, T, **kw)

def b_pm(A, s):
    d, pts, k = s['d'], s['pts'], s['k']
    phi = A.arr('phi', mk_phi(s['phi'], pts, d))
    xx = A.arr('xx', _grid(pts))
    if k == 'to2D':
        return lambda: PhiManip.phi_1D_to_2D(xx, phi)
    if k == 'split31':
        return lambda: PhiManip.phi_2D_to_3D_split_1(xx, phi)
    if k == 'split32':
        return lambda: PhiManip.phi_2D_to_3D_split_2(xx, phi)
    if k == '2to3admix':
        return lambda: PhiManip.phi_2D_to_3D_admix(phi, s['f'], xx, xx, xx)
    if k == '3to4':
        return lambda: PhiManip.phi_3D_to_4D(phi, s['f'][0], s['f'][1], xx, xx, xx, xx)
    if k == '4to5':
        return lambda: PhiManip.phi_4D_to_5D(phi, s['f'][0], s['f'][1], s['f'][2], xx, xx, xx, xx, xx)
    if k == 'remove':
        return lambda: PhiManip.remove_pop(phi, xx, s['pop'])
    if k == 'reorder':
        order = A.keep('neworder', list(s['order']))
        return lambda: PhiManip.reorder_pops(phi, order)
    if k == 'reorder_then_integrate':
        # a user model: reorder the populations, then integrate (the array handed to the integrator is the transposed view)
        order = A.keep('neworder', list(s['order']))
        f = getattr(Integration, INTEG[d])
        kw = {'nu%d' % (i + 1): s['nu'][i] for i in range(d)} if d > 1 else {'nu': s['nu'][0]}
        if d > 1:
            kw['m12'] = s.get('m12', 0)
        return lambda: f(PhiManip.reorder_pops(phi, order), xx, s['T'], **kw)
    if k == 'phi_1D':
        sc = {n: A.scalar(n, s.get(n, dflt)) for n, dflt in (('nu', 1.0), ('theta0', 1.0), ('gamma', 0), ('h', 0.5))}
        return lambda: PhiManip.phi_1D(xx, nu=sc['nu'], theta0=sc['theta0'], gamma=sc['gamma'], h=sc['h'])
    if k == 'phi_1D_genic':
        return lambda: PhiManip.phi_1D_genic(xx, nu=s.get('nu', 1.0), theta0=s.get('theta0', 1.0), gamma=s.get('gamma', 0))
    if k == 'phi_1D_snm':
        return lambda: PhiManip.phi_1D_snm(xx, nu=s.get('nu', 1.0), theta0=s.get('theta0', 1.0))
    if k == 'phi_1D_X':
        return lambda: PhiManip.phi_1D_X(xx, nu=s.get('nu', 1.0), theta0=s.get('theta0', 1.0), gamma=s.get('gamma', 0))
    if k == 'filter':
        keep = A.keep('tokeep', list(s['tokeep']))
        return lambda: PhiManip.filter_pops(phi, xx, keep)
    if k == 'admix_inplace':
        # documented "Alters phi in place and returns the new version"
        f = s['f']
        if d == 2:
            g = getattr(PhiManip, s.get('fn', 'phi_2D_admix_1_into_2'))
            return lambda: g(phi, f[0], xx, xx)
        if d == 3:
            g = getattr(PhiManip, s.get('fn', 'phi_3D_admix_1_and_2_into_3'))
            return lambda: g(phi, f[0], f[1], xx, xx, xx)
        raise ValueError(d)
    raise ValueError(k)

def b_model(A, s):
    f = MODELS[s['kind']]
    p = A.keep('params', list(s['p'])); ns = A.keep('ns', list(s['ns']))
    pts = s['pts']
    if isinstance(pts, list):
        pts = A.keep('pts', list(pts))
        if s.get('shared_ex'):
            fe = MODELS_EX[s['kind']]       # the extrapolating function made ONCE per process (as in a user script): whatever it closes over is shared by all its calls
        else:
            fe = Numerics.make_extrap_func(f) if not s.get('log') else Numerics.make_extrap_log_func(f)
        return lambda: fe(p, ns, pts)
    return lambda: f(p, ns, pts)

def _lp_seed(seed):
    """the simulated low-pass entries draw from LowPass.rng (a module-level numpy Generator seeded from the OS at import) and
    from numpy's global generator: both are random SOURCES, not memoised state - the driver fixes them before the call"""
    np.random.seed(seed)
    if hasattr(LP, 'rng'):
        LP.rng = np.random.default_rng(seed)

def mkcov(probs):
    return np.array([np.arange(len(probs)), np.array(probs, dtype=float)])

def b_lp(A, s):
    f = s['f']
    if f == 'partprob':
        return lambda: LP.partitions_and_probabilities(s['n'], s['type'], s.get('Fx', 0), s.get('af'))
    if f == 'projmat':
        return lambda: LP.projection_matrix(s['nseq'], s['nsub'], s.get('F', 0))
    cov = A.arr('cov', mkcov(s['cov'])) if 'cov' in s else None
    if f == 'nocall':
        return lambda: LP.probability_of_no_call_1D_GATK_multisample(cov, s['n'], s.get('Fx', 0))
    if f == 'cem':
        return lambda: LP.calling_error_matrix(cov, s['nsub'], s.get('Fx', 0))
    if f == 'enough':
        return lambda: LP.probability_enough_individuals_covered(cov, s['nseq'], s['nsub'])
    if f == 'func':
        pops = s['pops']
        names = s.get('names') or ['p%d' % i for i in range(len(pops))]        # keys of the cov_dist dictionary
        ids = A.keep('pop_ids', list(s.get('pop_ids') or names))              # the pop_ids argument
        covd = {i: A.arr('cov_' + i, mkcov(p['cov'])) for i, p in zip(names, pops)}
        A.keep('cov_dist', covd)
        nseq = A.keep('nseq', [p['nseq'] for p in pops]); nsub = A.keep('nsub', [p['nsub'] for p in pops])
        Fx = A.keep('Fx', [p['F'] for p in pops]) if not s.get('Fx_none') else None
        model = MODELS[s['kind']]
        thr = s.get('sim_threshold', 1); nsim = s.get('nsim', 1000)
        if 'evals' in s:
            # ONE generated function evaluated for several (params, ns, pts) in a row: the closure-level cache is shared
            evals = A.keep('evals', copy.deepcopy(s['evals']))
            def thunk_multi():
                _lp_seed(s.get('seed', 7))
                lf = LP.make_low_pass_func_GATK_multisample(model, covd, ids, nseq, nsub, sim_threshold=thr, Fx=Fx, nsim=nsim)
                return [lf(e[0], e[1], e[2]) for e in evals]
            return thunk_multi
        p = A.keep('params', list(s['p']))
        pts = s['pts']
        ns = A.keep('ns', list(s['ns'])) if 'ns' in s else nsub
        def thunk():
            _lp_seed(s.get('seed', 7))
            lf = LP.make_low_pass_func_GATK_multisample(model, covd, ids, nseq, nsub, sim_threshold=thr, Fx=Fx, nsim=nsim)
            r1 = lf(p, ns, pts)
            r2 = lf(p, ns, pts)       # second evaluation is answered from the closure's precalc_cache
            return [r1, r2]
        return thunk
    raise ValueError(f)

def b_num(A, s):
    f = s['f']; a = A.keep('a', copy.deepcopy(s['a']))
    if f == 'bbconv':
        return lambda: Numerics.BetaBinomConvolution(*a)
    if f == 'cached_dbeta':
        xx = A.arr('xx', _grid(a[1]['pts'], a[1].get('kind')))
        return lambda: Spectrum_mod.cached_dbeta(a[0], xx)
    if f == 'bbconv_all':
        n, pl, al, be = a
        return lambda: [Numerics.BetaBinomConvolution(i, float(n), al, be, ploidy=pl) for i in range(n * pl + 1)]
    return lambda: getattr(Numerics, f)(*a)

def b_ll(A, s):
    model = mk_fs(A, 'model', s['model']); data = mk_fs(A, 'data', s['data'])
    f = s['f']
    return lambda: getattr(Inference, f)(model, data)

def b_opt(A, s):
    f = s['f']
    if f == 'perturb':
        params = A.arr('params', s['params']) if s.get('as_array', True) else A.keep('params', list(s['params']))
        lb = A.keep('lower_bound', copy.deepcopy(s.get('lower'))); ub = A.keep('upper_bound', copy.deepcopy(s.get('upper')))
        def thunk():
            np.random.seed(s['seed'])
            return Misc.perturb_params(params, fold=s.get('fold', 1), lower_bound=lb, upper_bound=ub)
        return thunk
    if f in ('proj_down', 'proj_up'):
        pin = A.keep('pin', list(s['pin'])); fixed = A.keep('fixed_params', copy.deepcopy(s['fixed']))
        g = Inference._project_params_down if f == 'proj_down' else Inference._project_params_up
        return lambda: g(pin, fixed)
    if f == 'object_func':
        params = A.keep('params', list(s['params']))
        data = mk_fs(A, 'data', s['data'])
        lb = A.keep('lower_bound', copy.deepcopy(s.get('lower'))); ub = A.keep('upper_bound', copy.deepcopy(s.get('upper')))
        fixed = A.keep('fixed_params', copy.deepcopy(s.get('fixed')))
        fe = MODELS_EX[s['kind']]
        pts = A.keep('pts', list(s['pts']))
        okw = {'verbose': 0}
        okw.update(s.get('kw', {}))
        return lambda: Inference._object_func(params, data, fe, pts, lower_bound=lb, upper_bound=ub,
                                              multinom=s.get('multinom', True), fixed_params=fixed,
                                              output_stream=io.StringIO(), **okw)
    if f == 'optimize_log':
        p0 = A.keep('p0', list(s['params']))
        data = mk_fs(A, 'data', s['data'])
        lb = A.keep('lower_bound', copy.deepcopy(s.get('lower'))); ub = A.keep('upper_bound', copy.deepcopy(s.get('upper')))
        fixed = A.keep('fixed_params', copy.deepcopy(s.get('fixed')))
        model = MODELS[s['kind']]
        fe = Numerics.make_extrap_func(model)
        pts = A.keep('pts', list(s['pts']))
        return lambda: Inference.optimize_log(p0, data, fe, pts, lower_bound=lb, upper_bound=ub, verbose=0, maxiter=s.get('maxiter', 2),
                                              multinom=s.get('multinom', True), fixed_params=fixed, output_file=os.devnull)
    raise ValueError(f)

def b_gim(A, s):
    fe = MODELS_EX[s['kind']]
    p0 = A.keep('p0', list(s['p0']))
    data = mk_fs(A, 'data', s['data'])
    boots = [mk_fs(A, 'boot%d' % i, b) for i, b in enumerate(s.get('boots', []))]
    boots = A.keep('all_boot', boots)
    pts = A.keep('pts', list(s['pts']))
    f = s['f']
    kw = {'multinom': s.get('multinom', True), 'eps': s.get('eps', 0.01)}
    if s.get('seq'):
        # a user script: the same analysis for a list of parameter vectors, one call after the other
        p0s = A.keep('p0_list', copy.deepcopy(s['p0_list']))
        nested = A.keep('nested_indices', list(s['nested']))
        def run(p0):
            return Godambe.LRT_adjust(fe, pts, boots, p0, data, nested, **kw)
        return lambda: [run(p0) for p0 in p0s]
    bta = A.keep('boot_theta_adjusts', list(s['boot_theta_adjusts'])) if s.get('boot_theta_adjusts') else None
    if s.get('fseq') or s.get('_repeat') or f in ('Wald', 'score', 'godambe', 'hess', 'grad', 'chi2'):
        # cross stream: every public function of Godambe.py, all on the SAME argument objects, in the order of `fseq`
        nested = A.keep('nested_indices', list(s['nested'])) if s.get('nested') is not None else None
        full = A.keep('full_params', list(s['full_params'])) if s.get('full_params') is not None else None
        log = s.get('log', False)
        eps = kw['eps']
        def ll_func(params, d):
            return Inference.ll(fe(params, d.sample_sizes, pts), d)
        def one(g):
            if g == 'FIM':
                return Godambe.FIM_uncert(fe, pts, p0, data, log=log, return_FIM=s.get('return_mat', True), **kw)
            if g == 'GIM':
                return Godambe.GIM_uncert(fe, pts, boots, p0, data, log=log, return_GIM=s.get('return_mat', True), boot_theta_adjusts=bta, **kw)
            if g == 'LRT':
                return Godambe.LRT_adjust(fe, pts, boots, p0, data, nested, boot_theta_adjusts=bta, **kw)
            if g == 'Wald':
                return Godambe.Wald_stat(fe, pts, boots, p0, data, nested, full, adj_and_org=s.get('adj_and_org', True), **kw)
            if g == 'score':
                return Godambe.score_stat(fe, pts, boots, p0, data, nested, adj_and_org=s.get('adj_and_org', True), **kw)
            if g == 'godambe':
                return Godambe.get_godambe(fe, pts, boots, p0, data, eps, log=log, just_hess=s.get('just_hess', False), **({'boot_theta_adjusts': bta} if bta else {}))
            if g == 'chi2':
                return Godambe.sum_chi2_ppf(p0, weights=full if full is not None else (0, 1))
            if g == 'hess':
                return Godambe.get_hess(ll_func, p0, eps, args=[data])
            if g == 'grad':
                return Godambe.get_grad(ll_func, p0, eps, args=[data])
            raise ValueError(g)
        if s.get('fseq'):
            return lambda: [one(g) for g in s['fseq']]
        return lambda: one(f)
    if f == 'FIM':
        return lambda: Godambe.FIM_uncert(fe, pts, p0, data, log=s.get('log', False), return_FIM=s.get('return_mat', False), **kw)
    if f == 'GIM':
        return lambda: Godambe.GIM_uncert(fe, pts, boots, p0, data, log=s.get('log', False), return_GIM=s.get('return_mat', False),
                                          boot_theta_adjusts=bta, **kw)
    if f == 'LRT':
        nested = A.keep('nested_indices', list(s['nested']))
        return lambda: Godambe.LRT_adjust(fe, pts, boots, p0, data, nested, boot_theta_adjusts=bta, **kw)
    raise ValueError(f)

PATCHED = []

def b_demes(A, s):
    sd = A.keep('sampled_demes', list(s['sampled'])); sz = A.keep('sample_sizes', list(s['sizes'])); pts = A.keep('pts', list(s['pts']))
    if 'yaml' in s:
        g = os.path.join(REPO, 'tests', 'demes', s['yaml'])
    else:
        g = demes_graph(s['builder'])
    if not s.get('contig_patch'):
        kw = {}
        if 'log_extrap' in s:
            kw['log_extrap'] = s['log_extrap']
        if 'Ne' in s:
            kw['Ne'] = s['Ne']
        kw.update(s.get('kw', {}))
        return lambda: Spectrum.from_demes(g, sampled_demes=sd, sample_sizes=sz, pts=pts, **kw)
    def thunk():
        # attribution only: the same call with every non-contiguous phi made contiguous before it reaches an integrator
        saved = {}
        def mk(name, orig):
            def w(phi, *a, **k):
                if not phi.flags['C_CONTIGUOUS']:
                    PATCHED.append(name)
                    phi = np.ascontiguousarray(phi)
                return orig(phi, *a, **k)
            return w
        for name in INTEG.values():
            saved[name] = getattr(Integration, name)
            setattr(Integration, name, mk(name, saved[name]))
        try:
            return Spectrum.from_demes(g, sampled_demes=sd, sample_sizes=sz, pts=pts)
        finally:
            for name, f in saved.items():
                setattr(Integration, name, f)
    return thunk

def _export_text(how, x, precision, comments, foldmaskinfo=True):
    """the TEXT an exporter writes for x"""
    import tempfile
    if how in ('to_file', 'tofile'):
        fd, path = tempfile.mkstemp(suffix='.fs', prefix='c20_')
        os.close(fd)
        try:
            getattr(x, how)(path, precision=precision, comment_lines=comments, foldmaskinfo=foldmaskinfo)
            with open(path) as f:
                return f.read()
        finally:
            os.unlink(path)
    if how == 'array_to_file':
        # an open file object (ndarray.tofile needs a real file descriptor)
        fd, path = tempfile.mkstemp(suffix='.txt', prefix='c20_')
        os.close(fd)
        try:
            with open(path, 'w') as f:
                Numerics.array_to_file(x, f, precision=precision, comment_lines=comments)
            with open(path) as f:
                return f.read()
        finally:
            os.unlink(path)
    if how == 'array_to_file_path':
        fd, path = tempfile.mkstemp(suffix='.txt', prefix='c20_')
        os.close(fd)
        try:
            Numerics.array_to_file(x, path, precision=precision, comment_lines=comments)
            with open(path) as f:
                return f.read()
        finally:
            os.unlink(path)
    raise ValueError(how)

def _contig_twin(x):
    """same logical content in a freshly allocated C-contiguous buffer (Spectrum attributes kept)"""
    if isinstance(x, Spectrum):
        y = Spectrum(np.array(np.ma.getdata(x), dtype=float, order='C', copy=True), mask=np.array(np.ma.getmaskarray(x), order='C', copy=True),
                     mask_corners=False, data_folded=x.folded, check_folding=False, pop_ids=None if x.pop_ids is None else list(x.pop_ids))
        y.extrap_x = getattr(x, 'extrap_x', None)
        return y
    if isinstance(x, np.ma.MaskedArray):
        return np.ma.masked_array(np.array(np.ma.getdata(x), order='C', copy=True), mask=np.array(np.ma.getmaskarray(x), order='C', copy=True))
    return np.array(x, order='C', copy=True)

def b_export(A, s):
    """write a spectrum / array that reaches the exporter as a NON-contiguous view; the result is the pair
    (text written for the view, text written for its C-contiguous copy) - the property wants them equal"""
    fs = mk_fs(A, 'self', s['fs'])
    pre = s.get('pre')
    how = s['how']
    prec = s.get('precision', 16); comments = A.keep('comment_lines', list(s.get('comments', [])))
    def view():
        x = fs
        if pre is None:
            return x
        if pre[0] == 'reorder_pops':
            return x.reorder_pops(list(pre[1]))
        if pre[0] == 'transpose':
            return x.transpose()
        if pre[0] == 'swapaxes':
            return x.swapaxes(pre[1], pre[2])
        if pre[0] == 'flip':
            return x[tuple(slice(None, None, -1) for _ in x.shape)]
        if pre[0] == 'step':
            return x[tuple(slice(None, None, 2) for _ in x.shape)]
        if pre[0] == 'fortran':
            return Spectrum(np.asfortranarray(np.ma.getdata(x)), mask=np.asfortranarray(np.ma.getmaskarray(x)), mask_corners=False,
                            data_folded=x.folded, check_folding=False, pop_ids=x.pop_ids, copy=False) if isinstance(x, Spectrum) else np.asfortranarray(x)
        raise ValueError(pre)
    def thunk():
        x = view()
        if how.startswith('array_to_file') and s.get('plain'):
            x = np.ma.getdata(x) if s['plain'] == 'ndarray' else np.ma.masked_array(np.ma.getdata(x), mask=np.ma.getmaskarray(x))
        t_view = _export_text(how, x, prec, comments, s.get('foldmaskinfo', True))
        t_twin = _export_text(how, _contig_twin(x), prec, comments, s.get('foldmaskinfo', True))
        data = np.ma.getdata(x)
        return {'text': t_view, 'text_contiguous_copy': t_twin, 'c_contiguous': bool(data.flags['C_CONTIGUOUS']),
                'f_contiguous': bool(data.flags['F_CONTIGUOUS']), 'strides': [int(v) for v in data.strides]}
    return thunk

BUILDERS = {'export': b_export, 'ar': b_ar, 'nx': b_nx, 'sp': b_sp, 'dd': b_dd, 'from_phi': b_from_phi, 'integ': b_integ, 'pm': b_pm, 'model': b_model, 'lp': b_lp,
            'num': b_num, 'll': b_ll, 'opt': b_opt, 'gim': b_gim, 'demes': b_demes}

# ------------------------------------------------------------------------------------------------------------------
# caches

def cache_table():
    return {'Numerics._multinomln_cache': Numerics._multinomln_cache,
            'Numerics._BetaBinomln_cache': Numerics._BetaBinomln_cache,
            'Numerics._part_cache': Numerics._part_cache,
            'Numerics._part_precalc_cache': Numerics._part_precalc_cache,
            'Numerics._projection_cache': Numerics._projection_cache,
            'Spectrum_mod._dbeta_cache': Spectrum_mod._dbeta_cache,
            'Godambe.cache': Godambe.cache}

def discovered_dicts():
    """every dictionary found at module level of an imported dadi module that is not in the table above (a cache added to
    the source shows up here); used by the diagnosis only"""
    known = set(id(d) for d in cache_table().values())
    out = {}
    for mname, m in sorted(sys.modules.items()):
        if m is None or not (mname == 'dadi' or mname.startswith('dadi.')):
            continue
        for attr, val in sorted(vars(m).items()):
            if isinstance(val, dict) and id(val) not in known and not (attr.startswith('__') and attr.endswith('__')) and attr not in _NONEMPTY_AT_IMPORT.get(mname, ()):
                known.add(id(val))
                out[mname.replace('dadi.', '', 1) + '.' + attr] = val
    return out

_NONEMPTY_AT_IMPORT = {}
for _mn, _m in list(sys.modules.items()):
    if _m is not None and (_mn == 'dadi' or _mn.startswith('dadi.')):
        _NONEMPTY_AT_IMPORT[_mn] = set(a for a, v in vars(_m).items() if isinstance(v, dict) and len(v) > 0)

MEMO = [  # (cache name, module, function name, key function of the positional/keyword arguments)
    ('Numerics._multinomln_cache', Numerics, 'multinomln', lambda N: tuple(N)),
    ('Numerics._BetaBinomln_cache', Numerics, 'BetaBinomln', lambda i, n, a, b: (i, n, a, b)),
    ('Numerics._part_cache', Numerics, 'cached_part', lambda x, n, minval=0, maxval=2: (x, n, minval, maxval)),
    ('Numerics._part_precalc_cache', Numerics, 'cached_part_precalc', lambda x, n, minval=0, maxval=2: (x, n, minval, maxval)),
    ('Numerics._projection_cache', Numerics, '_cached_projection', lambda proj_to, proj_from, hits: (proj_to, proj_from, hits)),
    ('Spectrum_mod._dbeta_cache', Spectrum_mod, 'cached_dbeta', lambda nx, xx: (nx, tuple(xx))),
]

def key_repr(k):
    """canonical text of a dictionary key up to Python equality (1 == 1.0 == np.int64(1) hash alike)"""
    def c(v):
        if isinstance(v, tuple):
            return '(' + ','.join(c(t) for t in v) + ')'
        if isinstance(v, (bool, np.bool_)):
            return repr(int(v))
        if isinstance(v, (int, np.integer)):
            return repr(int(v))
        if isinstance(v, (float, np.floating)):
            f = float(v)
            return repr(int(f)) if f == int(f) and abs(f) < 2 ** 53 else f.hex()
        return repr(v)
    return c(k)

def godambe_key_repr(k):
    # the first component is an address (or the function object): not comparable between processes
    return 'ID,' + key_repr(tuple(k[1:]))

def cache_keys_now():
    out = {}
    for name, dct in cache_table().items():
        if name == 'Godambe.cache':
            out[name] = sorted(godambe_key_repr(k) for k in dct)
        else:
            out[name] = sorted(key_repr(k) for k in dct)
    return out

class Instrument:
    """wraps the six memoised functions: every entry is logged with the value a cache-free evaluation gives"""
    def __init__(self):
        self.log = []
        self.depth = 0          # > 0 while a reference (cache-free) evaluation is running
        self.model = {}         # the memo machine run in Python beside the real dictionaries: (cache, key) -> digest
        self.model_bad = []
        self.orig = {}
        numeric = [(n, d) for n, d in cache_table().items() if n != 'Godambe.cache']
        self.numeric = numeric
        for name, dct in numeric:
            for k, v in dct.items():
                self.model[(name, key_repr(k))] = digest(canon(v))
        self.init = [[n, k, d] for (n, k), d in self.model.items()]
        for cname, mod, fname, keyf in MEMO:
            orig = getattr(mod, fname)
            self.orig[(cname, fname)] = orig
            w = self.wrap(cname, orig, keyf)
            for m in list(sys.modules.values()):
                if m is None or not getattr(m, '__name__', '').startswith('dadi'):
                    continue
                try:
                    if getattr(m, fname, None) is orig:
                        setattr(m, fname, w)
                except Exception:
                    pass

    def wrap(self, cname, orig, keyf):
        def w(*a, **k):
            if self.depth:
                return orig(*a, **k)
            key = key_repr(keyf(*a, **k))
            # cache-free evaluation f(call): all dictionaries emptied, restored afterwards
            saved = [(d, dict(d)) for _, d in self.numeric]
            self.depth += 1
            try:
                for d, _ in saved:
                    d.clear()
                fresh = digest(canon(orig(*a, **k)))
            finally:
                for d, s in saved:
                    d.clear(); d.update(s)
                self.depth -= 1
            r = orig(*a, **k)
            got = digest(canon(r))
            self.log.append([cname, key, fresh, got])
            # the Python twin of Memo.step
            mk = (cname, key)
            if mk in self.model:
                want = self.model[mk]
            else:
                self.model[mk] = fresh
                want = fresh
            if want != got:
                self.model_bad.append([cname, key, 'returned value differs from the memo model'])
            return r
        w.__name__ = getattr(orig, '__name__', 'w')
        return w

    def compare(self):
        """key sets and stored values of the real dictionaries against the model"""
        bad = []
        real = {}
        for name, dct in self.numeric:
            for k, v in dct.items():
                real[(name, key_repr(k))] = v
        for mk in real:
            if mk not in self.model:
                bad.append([mk[0], mk[1], 'key in the real dictionary, not in the model'])
        for mk, dg in self.model.items():
            if mk not in real:
                bad.append([mk[0], mk[1], 'key in the model, not in the real dictionary'])
            elif digest(canon(real[mk])) != dg:
                bad.append([mk[0], mk[1], 'stored value changed / differs from f(key)'])
        return bad

# ------------------------------------------------------------------------------------------------------------------

def _resolve_setting(name):
    """'Integration.timescale_factor' -> (module dadi.Integration, 'timescale_factor'); 'Demes.Inference._counter'; 'numpy.random.seed'"""
    import importlib
    modpath, attr = name.rsplit('.', 1)
    for cand in ('dadi.' + modpath, modpath):
        try:
            return importlib.import_module(cand), attr
        except ImportError:
            continue
    raise ValueError('no module for setting %r' % name)


def apply_settings(spec):
    """module-level SETTINGS are arguments of the call: spec['settings'] = [{'name': 'Integration.timescale_factor', 'how': 'assign', 'value': v} |
    {'name': 'Integration.set_timescale_factor', 'how': 'call', 'args': [...]}] is carried out, in order, before the call - exactly what a user script
    does (`dadi.Integration.timescale_factor = v`, or the setter).  The assignment is PLAIN attribute assignment and stays in force afterwards:
    it is part of the history of the process."""
    done = []
    for st in spec.get('settings') or []:
        mod, attr = _resolve_setting(st['name'])
        if st['how'] == 'assign':
            if not hasattr(mod, attr):
                raise AttributeError('%s has no module-level setting %s' % (mod.__name__, attr))
            setattr(mod, attr, st['value'])
        elif st['how'] == 'call':
            getattr(mod, attr)(*st.get('args', []))
        else:
            raise ValueError(st['how'])
        done.append(st['name'])
    return done


def type_picture(o, depth=0):
    """container type / dtype / shape / strides of an argument (canon sees values only)"""
    if isinstance(o, np.ndarray):
        return [type(o).__name__, o.dtype.str, list(o.shape), list(o.strides)]
    if isinstance(o, (list, tuple)) and depth < 3:
        return [type(o).__name__] + [type_picture(v, depth + 1) for v in o]
    return type(o).__name__

def evaluate(spec, layout=None, full=False):
    A = Args(layout, cont=spec.get('_cont'))
    rec = {}
    try:
        apply_settings(spec)
        thunk = BUILDERS[spec['op']](A, spec)
    except Exception as e:
        return {'build_error': type(e).__name__ + ': ' + str(e)[:300]}, None, A
    repeat = bool(spec.get('_repeat'))
    def picture():
        p = {n: canon(o) for n, o in A.frozen.items()}
        if repeat:
            # cross stream: bit-for-bit - the container types / dtypes / strides and the raw bytes of every buffer as well
            p = {n: [v, type_picture(A.frozen[n])] for n, v in p.items()}
            raw = raw_snapshot(A.frozen)
            for n in p:
                p[n].append(sorted((l, h) for l, h in raw.items() if l == n or l.startswith(n + '.') or l.startswith(n + '[')))
        return p
    before = picture()
    try:
        res = thunk()
        c = canon(res)
        rec['digest'] = digest(c)
    except Exception as e:
        res = None
        c = ['error', type(e).__name__, str(e)[:200]]
        rec['digest'] = digest(c)
        rec['error'] = type(e).__name__ + ': ' + str(e)[:200]
    after = picture()
    rec['mutated'] = sorted(n for n in before if before[n] != after[n])
    if rec['mutated']:
        rec['mutated_detail'] = {n: {'before': before[n], 'after': after[n]} for n in rec['mutated'] if len(json.dumps(before[n])) < 2000}
    if repeat:
        # the SAME call again, at once, on the very same argument objects
        rec['containers'] = {n: container_kinds(o) for n, o in A.frozen.items()}
        rec['value'] = json.dumps(c)[:300]
        try:
            res2 = thunk()
            c2 = canon(res2)
        except Exception as e:
            res2 = None
            c2 = ['error', type(e).__name__, str(e)[:200]]
        rec['repeat_digest'] = digest(c2)
        rec['repeat_value'] = json.dumps(c2)[:300]
        if ('fseq' in spec) and isinstance(res2, list):
            rec['repeat_elements'] = [digest(canon(x)) for x in res2]
        after2 = picture()
        rec['mutated_by_repeat'] = sorted(n for n in before if before[n] != after2[n])
        if rec['mutated_by_repeat'] and not rec['mutated']:
            rec['mutated_detail'] = {n: {'before': before[n], 'after': after2[n]} for n in rec['mutated_by_repeat'] if len(json.dumps(before[n])) < 2000}
    al = []
    if res is not None:
        for n in A.alias_check:
            r = np.asarray(np.ma.getdata(res)) if isinstance(res, np.ndarray) else None
            if r is not None and isinstance(A.frozen[n], np.ndarray) and np.shares_memory(r, A.frozen[n]):
                al.append(n)
    rec['aliased'] = al
    rec['result_is_arg'] = [n for n in A.alias_check if res is A.frozen[n]]
    if res is not None:
        # EVERY buffer of the result (data, mask, label lists) against every buffer of every argument and of every module-level object
        rec['alias_pairs'], rec['array_like'] = alias_pairs(res, A.frozen)
    if (spec.get('seq') or 'evals' in spec or 'fseq' in spec) and isinstance(res, list):
        rec['elements'] = [digest(canon(x)) for x in res]
    if spec['op'] == 'export' and isinstance(res, dict):
        rec['export'] = {'same_text': res['text'] == res['text_contiguous_copy'], 'c_contiguous': res['c_contiguous'], 'f_contiguous': res['f_contiguous'],
                         'strides': res['strides'], 'text': res['text'][:600], 'text_contiguous_copy': res['text_contiguous_copy'][:600]}
    if spec.get('contig_patch'):
        rec['patched'] = sorted(set(PATCHED)); del PATCHED[:]
    if full:
        rec['canon'] = c
    return rec, c, A


def mode_eval(p):
    ins = Instrument() if p.get('instrument') else None
    out = []
    init_keys = cache_keys_now()
    for spec in p['calls']:
        n0 = len(ins.log) if ins else 0
        rec, c, A = evaluate(spec, full=p.get('full', False))
        rec['cache_keys'] = {k: len(v) for k, v in cache_keys_now().items()}
        if ins:
            rec['memo_calls'] = len(ins.log) - n0
            bad = ins.compare() + ins.model_bad
            ins.model_bad = []
            rec['memo_model_mismatch'] = bad[:5]
        out.append(rec)
    res = {'calls': out, 'init_keys': {k: len(v) for k, v in init_keys.items()}, 'hashseed': os.environ.get('PYTHONHASHSEED')}
    if ins:
        res['memo_log'] = ins.log
        res['memo_init'] = ins.init
        res['final_keys'] = {k: v for k, v in cache_keys_now().items() if k != 'Godambe.cache'}
    res['godambe_keys'] = cache_keys_now()['Godambe.cache'][:50]
    return res


def mode_layout(p):
    out = []
    for spec in p['calls']:
        base, cb, A0 = evaluate(spec)
        rec = {'base': {k: base.get(k) for k in ('digest', 'error', 'mutated', 'aliased', 'build_error')}, 'variants': []}
        if cb is None:
            out.append(rec); continue
        names = dict(A0.names)
        only = spec.get('_layout_args')
        for name, nd in sorted(names.items()):
            if only and name not in only:
                continue
            for v in variants_for(nd):
                r, c, A = evaluate(spec, layout={name: v})
                if c is None:
                    rec['variants'].append({'arg': name, 'variant': v, 'build_error': r.get('build_error')}); continue
                st = numdiff(cb, c)
                rec['variants'].append({'arg': name, 'variant': v, 'struct_ok': st['ok'], 'maxdiff': st['d'], 'scale': st['s'],
                                        'nfloat': st['n'], 'nbitwise': st['eq'], 'nan_mismatch': st['nan'],
                                        'error': r.get('error'), 'mutated': r['mutated'], 'aliased': r['aliased']})
        out.append(rec)
    return {'calls': out}


def discovered_memo_wrappers():
    """every object with cache_clear() (functools.lru_cache / functools.cache wrappers) reachable as a module-level attribute of an imported dadi
    module or as an attribute of a class defined there: they hold their entries out of reach of `vars(module)`"""
    out = {}
    for mname, m in sorted(sys.modules.items()):
        if m is None or not (mname == 'dadi' or mname.startswith('dadi.')):
            continue
        for attr, val in sorted(vars(m).items()):
            objs = [(attr, val)]
            if isinstance(val, type) and getattr(val, '__module__', None) == mname:
                objs += [(attr + '.' + a, v) for a, v in sorted(vars(val).items())]
            for a, v in objs:
                if callable(getattr(v, 'cache_clear', None)) and not isinstance(v, type):
                    out.setdefault(id(v), (mname.replace('dadi.', '', 1) + '.' + a + ' (memoising decorator)', v))
    return dict(out.values())


def mode_diagnose(p):
    calls = p['calls']; k = p['index']
    for spec in calls[:k]:
        evaluate(spec)
    tab = cache_table()
    tab.update(discovered_dicts())
    wrappers = discovered_memo_wrappers()
    wres = {}
    if wrappers:
        # a memoising wrapper cannot be restored once cleared: each probe runs in its own fork of the state reached after calls[:k]
        def probe(names):
            def run():
                if names is None:
                    for d in tab.values():
                        d.clear()
                for n, w in wrappers.items():
                    if names is None or n in names:
                        w.cache_clear()
                return {'digest': evaluate(calls[k])[0]['digest']}
            return run
        wres['all'] = in_fork(probe(None)).get('digest')
        for n in wrappers:
            wres[n] = in_fork(probe([n])).get('digest')
    saved = {n: dict(d) for n, d in tab.items()}
    def restore():
        for n, d in tab.items():
            d.clear(); d.update(saved[n])
    res = {}
    res['sizes_before'] = {n: len(d) for n, d in tab.items() if len(d)}
    r, c, _ = evaluate(calls[k]); res['as_is'] = r['digest']
    restore()
    for d in tab.values():
        d.clear()
    r, c, _ = evaluate(calls[k]); res['all_cleared'] = r['digest']
    res['one_cleared'] = {}
    for n in tab:
        restore(); tab[n].clear()
        r, c, _ = evaluate(calls[k]); res['one_cleared'][n] = r['digest']
    if wrappers:
        res['all_cleared'] = wres['all']              # dictionaries AND memoising wrappers emptied
        for n in wrappers:
            res['one_cleared'][n] = wres[n]
        try:
            res['wrapper_sizes'] = {n: w.cache_info().currsize for n, w in wrappers.items()}
        except Exception:
            pass
    return res


# ------------------------------------------------------------------------------------------------------------------
# the mutate-the-result stream

EDIT_KINDS = ('mask', 'data', 'list')

def _edit_array_data(d, lab, done):
    try:
        if d.size == 0:
            return
        if d.dtype.kind == 'f' or d.dtype.kind == 'c':
            d *= 2.0; d += 1.0
        elif d.dtype.kind in 'iu':
            d += 1
        elif d.dtype.kind == 'b':
            np.logical_not(d, out=d)
        else:
            return
        done.append(lab + '.data: scaled in place (x*2+1)')
    except (ValueError, TypeError) as e:
        done.append(lab + '.data: not writable (%s)' % type(e).__name__)

def edit_obj(x, name, kind, done, depth=0):
    """the standard in-place edit of one kind on every buffer of that kind reachable in x"""
    if depth > 6:
        return
    if isinstance(x, np.ma.MaskedArray):
        if kind == 'mask':
            m = np.ma.getmask(x)
            if m is not np.ma.nomask and isinstance(m, np.ndarray) and m.size:
                mr = m.ravel(); dr = np.ma.getdata(x).ravel()
                cand = [int(i) for i in np.flatnonzero(~mr) if 0 < i < m.size - 1] or [int(i) for i in np.flatnonzero(~mr)]
                good = [i for i in cand if dr.dtype.kind == 'f' and np.isfinite(dr[i]) and dr[i] != 0]
                try:
                    if cand:
                        i = (good or cand)[0]
                        m.flat[i] = True
                        done.append('%s.mask.flat[%d] = True' % (name, i))
                    else:
                        i = m.size // 2
                        m.flat[i] = False
                        done.append('%s.mask.flat[%d] = False' % (name, i))
                except (ValueError, TypeError) as e:
                    done.append('%s.mask: not writable (%s)' % (name, type(e).__name__))
        elif kind == 'data':
            _edit_array_data(np.ma.getdata(x), name, done)
        elif kind == 'list':
            for attr in ('pop_ids', 'extrap_x'):
                v = getattr(x, attr, None)
                if isinstance(v, list):
                    v.append('edited'); done.append('%s.%s.append(...)' % (name, attr))
    elif isinstance(x, np.ndarray):
        if kind == 'data':
            _edit_array_data(x, name, done)
    elif isinstance(x, (list, tuple)):
        for i, v in enumerate(list(x)):
            if isinstance(v, (np.ndarray, list, tuple, dict)):
                edit_obj(v, '%s[%d]' % (name, i), kind, done, depth + 1)
        if kind == 'list' and isinstance(x, list):
            x.append(None); done.append('%s.append(None)' % name)
    elif isinstance(x, dict):
        for k, v in list(x.items()):
            if isinstance(v, (np.ndarray, list, tuple, dict)):
                edit_obj(v, '%s{%s}' % (name, str(k)[:20]), kind, done, depth + 1)

def _val(f):
    try:
        v = f()
        if isinstance(v, (float, np.floating, int, np.integer)) or (isinstance(v, np.ndarray) and v.ndim == 0) or v is np.ma.masked:
            return 'masked' if v is np.ma.masked else fhex(v)
        return digest(canon(v))
    except Exception as e:
        return 'error:' + type(e).__name__

def _ll_data(x):
    n = int(np.prod(x.shape))
    d = Spectrum((np.floor(5 + 3 * np.arange(n)) % 17 + 1.0).reshape(x.shape))
    return d.fold() if getattr(x, 'folded', False) else d

def followups(objs, spec):
    """label -> {name of the follow-up call: value}: the later computations whose values must not depend on what was done to OTHER objects"""
    out = {}
    def one(x, lab, depth=0):
        if len(out) >= 8 or depth > 3:
            return
        if isinstance(x, Spectrum) and x.ndim >= 1:
            out[lab] = {'sum': _val(lambda: x.sum()), 'S': _val(lambda: x.S()), 'll': _val(lambda: Inference.ll(x, _ll_data(x))),
                        'll_multinom': _val(lambda: Inference.ll_multinom(x, _ll_data(x))), 'value': digest(canon(x))}
        elif isinstance(x, np.ma.MaskedArray):
            out[lab] = {'sum': _val(lambda: x.sum()), 'count': _val(lambda: x.count()), 'value': digest(canon(x))}
        elif isinstance(x, np.ndarray):
            out[lab] = {'value': digest(canon(x))}
            pts = spec.get('pts')
            if spec['op'] in ('integ', 'pm', 'from_phi') and isinstance(pts, int) and 1 <= x.ndim <= 5 and all(n == pts for n in x.shape) \
                    and x.dtype.kind == 'f' and not lab.startswith('xx'):
                xx = _grid(pts, spec.get('grid'))
                out[lab]['from_phi'] = _val(lambda: Spectrum.from_phi(x, [2] * x.ndim, [xx] * x.ndim))
        elif isinstance(x, (list, tuple)):
            if isinstance(x, list):
                out[lab] = {'value': digest(canon(x))}
            for i, v in enumerate(x):
                if isinstance(v, (np.ndarray, list, tuple, dict)):
                    one(v, '%s[%d]' % (lab, i), depth + 1)
        elif isinstance(x, dict):
            for k, v in x.items():
                if isinstance(v, (np.ndarray, list, tuple, dict)):
                    one(v, '%s{%s}' % (lab, str(k)[:20]), depth + 1)
    for n, o in objs.items():
        one(o, n)
    return out

def _build(spec):
    A = Args()
    return A, BUILDERS[spec['op']](A, copy.deepcopy(spec))      # Spectrum keeps the pop_ids list it is given BY REFERENCE: never hand it the specification's own

def _diff(s1, s2):
    return sorted(set(l for l in s1 if s1[l] != s2.get(l)) | set(l for l in s2 if l not in s1))

def mut_pristine_args(spec):
    A, thunk = _build(spec)
    return {'followups': followups(A.frozen, spec)}

def mut_pristine_result(spec):
    A, thunk = _build(spec)
    try:
        R = thunk()
    except Exception as e:
        return {'error': type(e).__name__ + ': ' + str(e)[:200]}
    pairs, al = alias_pairs(R, A.frozen)
    return {'digest': digest(canon(R)), 'followups': followups({'R': R}, spec), 'array_like': al, 'alias_pairs': pairs,
            'result_type': type(R).__name__}

def mut_edit_result(spec, kind):
    """R = f(A); edit R in place; which buffers of A changed, g(A), f(A) again"""
    A, thunk = _build(spec)
    s0 = raw_snapshot(A.frozen)
    try:
        R = thunk()
    except Exception as e:
        return {'error': type(e).__name__ + ': ' + str(e)[:200]}
    s1 = raw_snapshot(A.frozen)
    if any(p[1].startswith('global:') for p in alias_pairs(R, A.frozen)[0]):
        # the result IS (part of) a module-level object: the ALIAS obligation decides on the pair; editing it would corrupt the process for the next phase
        return {'skipped': True, 'why': 'the result shares memory with a module-level object'}
    done = []
    edit_obj(R, 'R', kind, done)
    if not done:
        return {'skipped': True}
    s2 = raw_snapshot(A.frozen)
    out = {'edits': done, 'changed_by_call': _diff(s0, s1), 'changed': _diff(s1, s2), 'followups': followups(A.frozen, spec)}
    try:
        out['again'] = digest(canon(thunk()))
    except Exception as e:
        out['again'] = 'error:' + type(e).__name__
    return out

def mut_edit_args(spec, kind):
    """R = f(A); edit A in place; which buffers of R changed, g(R)"""
    A, thunk = _build(spec)
    try:
        R = thunk()
    except Exception as e:
        return {'error': type(e).__name__ + ': ' + str(e)[:200]}
    r1 = raw_snapshot({'R': R})
    if not r1:
        return {'skipped': True}
    done = []
    for n, o in list(A.frozen.items()):
        edit_obj(o, n, kind, done)
    if not done:
        return {'skipped': True}
    r2 = raw_snapshot({'R': R})
    return {'edits': done[:12], 'changed': _diff(r1, r2), 'followups': followups({'R': R}, spec)}

def in_fork(fn):
    r, w = os.pipe()
    sys.stdout.flush()
    pid = os.fork()
    if pid == 0:
        os.close(r)
        try:
            data = json.dumps(fn()).encode()
        except BaseException:
            import traceback
            data = json.dumps({'crash': traceback.format_exc()[-1200:]}).encode()
        try:
            with os.fdopen(w, 'wb') as f:
                f.write(data)
        finally:
            os._exit(0)
    os.close(w)
    chunks = []
    with os.fdopen(r, 'rb') as f:
        while True:
            c = f.read(1 << 20)
            if not c:
                break
            chunks.append(c)
    _, status = os.waitpid(pid, 0)
    if not chunks:
        return {'crash': 'child died without output (wait status %d)' % status}
    return json.loads(b''.join(chunks))

def mode_mutate(p):
    """THIS process has only imported dadi and never evaluates a call itself: every phase runs in its own fork of it"""
    out = []
    kinds = p.get('kinds') or EDIT_KINDS
    for spec in p['calls']:
        rec = {'P_A': in_fork(lambda: mut_pristine_args(spec)), 'P_R': in_fork(lambda: mut_pristine_result(spec))}
        rec['M'] = in_fork(lambda: {k: {'R': mut_edit_result(spec, k), 'A': mut_edit_args(spec, k)} for k in kinds})
        out.append(rec)
    return {'calls': out}


def mode_crossnames(p):
    """cross stream: the arguments of each call (names under which the builder freezes them) and the container variants each one admits - nothing is called"""
    out = []
    for spec in p['calls']:
        A = Args(cont={'?': 'list'})          # (a non-empty table: the builders then register every list argument under its own name)
        try:
            BUILDERS[spec['op']](A, spec)
            out.append({'containers': {n: container_kinds(o) for n, o in A.frozen.items()},
                        'types': {n: type_picture(o) if not isinstance(o, np.ma.MaskedArray) else type(o).__name__ for n, o in A.frozen.items()}})
        except Exception as e:
            out.append({'build_error': type(e).__name__ + ': ' + str(e)[:300]})
    return {'calls': out}


def dispatch(p):
    mode = p.get('mode', 'eval')
    return {'eval': mode_eval, 'layout': mode_layout, 'diagnose': mode_diagnose, 'mutate': mode_mutate, 'crossnames': mode_crossnames}[mode](p)


def mode_batch(p):
    """every job in its own fork of THIS process, which has imported dadi and done nothing else: each child starts from
    the state of a freshly started interpreter (empty caches, untouched module globals); `par` children at a time"""
    import select
    jobs = p['jobs']; par = max(1, int(p.get('par', 4)))
    results = [None] * len(jobs)
    running = {}
    nxt = 0
    sys.stdout.flush()
    while nxt < len(jobs) or running:
        while nxt < len(jobs) and len(running) < par:
            r, w = os.pipe()
            pid = os.fork()
            if pid == 0:
                os.close(r)
                try:
                    import time as _t
                    _t0 = _t.time()
                    _res = dispatch(jobs[nxt])
                    _res['secs'] = round(_t.time() - _t0, 3)
                    data = json.dumps(_res).encode()
                except BaseException as e:
                    import traceback
                    data = json.dumps({'crash': traceback.format_exc()[-1500:]}).encode()
                try:
                    with os.fdopen(w, 'wb') as f:
                        f.write(data)
                finally:
                    os._exit(0)
            os.close(w)
            running[r] = (nxt, pid, [])
            nxt += 1
        ready, _, _ = select.select(list(running), [], [], 120)
        for fd in ready:
            chunk = os.read(fd, 1 << 20)
            if chunk:
                running[fd][2].append(chunk)
            else:
                idx, pid, chunks = running.pop(fd)
                os.close(fd)
                _, status = os.waitpid(pid, 0)
                if chunks:
                    results[idx] = json.loads(b''.join(chunks))
                else:
                    results[idx] = {'crash': 'child process died without output (wait status %d)' % status}
    return {'results': results, 'stamp': STAMP, 'dadi_file': dadi.__file__}


def main():
    p = json.load(sys.stdin)
    if p.get('mode') == 'batch':
        res = mode_batch(p)
    else:
        res = dispatch(p)
        res['stamp'] = STAMP
    print(json.dumps(res))

main()
