"""Runs the REAL dadi.Inference likelihood / scaling / residual functions on the generated cases (overlay build).

Input: JSON list of cases (see harness/props/c11.py gen_cases).  Output: one record per case with everything the
real code returned; values under a mask are reported as 0 (numpy leaves garbage there), masks separately; an
unmasked non-finite value is reported as the string 'NF'."""
import sys, json, math, warnings, logging
warnings.filterwarnings('ignore')
import numpy as np
import dadi
from dadi import Inference
for nm in ('Inference', 'Spectrum_mod', 'Numerics'):
    logging.getLogger(nm).setLevel(logging.CRITICAL)
np.seterr(all='ignore')

def mk_spectrum(vals, mask, shape, folded):
    arr = np.array(vals, dtype=float).reshape(shape)
    mk = np.array(mask, dtype=bool).reshape(shape)
    return dadi.Spectrum(arr, mask=mk, mask_corners=False, data_folded=bool(folded), check_folding=False)

def arr_out(a):
    """masked array -> (values with 0 under the mask / 'NF' where non-finite and unmasked, mask)"""
    mk = np.ma.getmaskarray(a).ravel()
    dat = np.asarray(np.ma.getdata(a), dtype=float).ravel()
    vals = []
    for v, b in zip(dat, mk):
        if b:
            vals.append(0.0)
        elif not math.isfinite(v):
            vals.append('NF')
        else:
            vals.append(float(v))
    return vals, [bool(b) for b in mk]

def scalar_out(x):
    if x is np.ma.masked:
        return 'masked'
    x = float(x)
    return x if math.isfinite(x) else 'NF'

def guarded(rec, key, f):
    try:
        rec[key] = f()
    except Exception as e:
        rec[key] = {'error': type(e).__name__ + ': ' + str(e)[:200]}

def main():
    cases = json.load(sys.stdin)
    out = []
    for c in cases:
        rec = {'id': c['id']}
        try:
            shape = c['shape']
            # ---- data
            if c.get('d_project_from'):
                big = dadi.Spectrum(np.array(c['d_big'], dtype=float).reshape(c['d_project_from']))
                data = big.project([s - 1 for s in shape])
                if c.get('d_unmask_corners'):
                    data.mask.flat[0] = data.mask.flat[-1] = False
                extra = np.array(c['d_mask'], dtype=bool).reshape(shape)
                data.mask[extra] = True
                if c['d_folded']:
                    data = data.fold()                      # the real fold makes the folded data
            else:
                data = mk_spectrum(c['d_vals'], c['d_mask'], shape, c['d_folded'])
            model = mk_spectrum(c['m_vals'], c['m_mask'], shape, c['m_folded'])
            dv, dm = arr_out(data); mv, mm = arr_out(model)
            # under-mask values are irrelevant but must be what the model sees: report raw data there
            rec['d_vals'] = [float(x) for x in np.asarray(data.data).ravel()]; rec['d_mask'] = dm
            rec['m_vals'] = [float(x) for x in np.asarray(model.data).ravel()]; rec['m_mask'] = mm
            rec['d_folded'] = bool(data.folded); rec['m_folded'] = bool(model.folded)
            cut = c.get('cut')
            snap = (np.array(model.data, copy=True), np.array(np.ma.getmaskarray(model), copy=True),
                    np.array(data.data, copy=True), np.array(np.ma.getmaskarray(data), copy=True), model.folded, data.folded)
            guarded(rec, 'll', lambda: scalar_out(Inference.ll(model, data)))
            guarded(rec, 'llpb', lambda: arr_out(Inference.ll_per_bin(model, data)))
            guarded(rec, 'scal', lambda: scalar_out(Inference.optimal_sfs_scaling(model, data)))
            guarded(rec, 'llm', lambda: scalar_out(Inference.ll_multinom(model, data)))
            guarded(rec, 'llmpb', lambda: arr_out(Inference.ll_multinom_per_bin(model, data)))
            def oss():
                r = Inference.optimally_scaled_sfs(model, data)
                return arr_out(r) + (bool(r.folded),)
            guarded(rec, 'oss', oss)
            guarded(rec, 'lin', lambda: arr_out(Inference.linear_Poisson_residual(model, data, mask=cut)))
            guarded(rec, 'ans', lambda: arr_out(Inference.Anscombe_Poisson_residual(model, data, mask=cut)))
            guarded(rec, 'minus_ll', lambda: scalar_out(Inference.minus_ll(model, data)))
            guarded(rec, 'minus_llm', lambda: scalar_out(Inference.minus_ll_multinom(model, data)))
            # the model as the likelihood functions use it (real fold; used by the predicates only)
            if data.folded and not model.folded:
                guarded(rec, 'm_used', lambda: arr_out(model.fold()))
            # inputs must not have been modified
            rec['inputs_unchanged'] = bool(
                np.array_equal(snap[0], model.data, equal_nan=True) and np.array_equal(snap[1], np.ma.getmaskarray(model))
                and np.array_equal(snap[2], data.data, equal_nan=True) and np.array_equal(snap[3], np.ma.getmaskarray(data))
                and snap[4] == model.folded and snap[5] == data.folded)
            # ---- property predicates that need further calls of the real code
            if isinstance(rec.get('scal'), float):
                s0 = rec['scal']
                guarded(rec, 'scan', lambda: [[x, scalar_out(Inference.ll(float(x * s0) * model, data))] for x in c.get('scan', [])])
            guarded(rec, 'rescaled', lambda: [[k, scalar_out(Inference.ll_multinom(k * model, data)),
                                               scalar_out(Inference.optimal_sfs_scaling(k * model, data))] for k in c.get('rescale', [])])
            if c.get('perturb') is not None:
                def pert():
                    res = {}
                    dd = np.asarray(data.data)
                    ref = dadi.Spectrum(c['perturb']['c'] * dd, mask=np.ma.getmaskarray(data).copy(), mask_corners=False,
                                        data_folded=bool(data.folded), check_folding=False)
                    res['ref'] = scalar_out(Inference.ll_multinom(ref, data))
                    res['alts'] = []
                    for fac, zero_fill in zip(c['perturb']['factors'], c['perturb']['zero_fill']):
                        f = np.array(fac, dtype=float).reshape(shape)
                        z = np.array(zero_fill, dtype=float).reshape(shape)
                        alt_vals = np.where(dd > 0, c['perturb']['c'] * dd * f, z)
                        alt = dadi.Spectrum(alt_vals, mask=np.ma.getmaskarray(data).copy(), mask_corners=False,
                                            data_folded=bool(data.folded), check_folding=False)
                        res['alts'].append(scalar_out(Inference.ll_multinom(alt, data)))
                    return res
                guarded(rec, 'perturb', pert)
        except Exception as e:
            rec['error'] = type(e).__name__ + ': ' + str(e)[:300]
        out.append(rec)
    print(json.dumps(out))

main()
