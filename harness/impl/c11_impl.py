"""Runs the REAL dadi.Inference likelihood / scaling / residual functions on the generated cases (overlay build).

Input: JSON list of cases (see harness/props/c11.py gen_cases).  Output: one record per case with everything the
real code returned; values under a mask are reported as 0 (numpy leaves garbage there), masks separately; an
unmasked non-finite value is reported as the string 'NF'.

Cases of the stream 'containers' carry a list 'variants' (harness/props/c11_types.py): the same numbers and masks built
as another container type (build_container) and / or with given raw values stored under the masked entries; every
entry point is called on every variant (eval_calls) and on the canonical float64 C-ordered dadi.Spectrum pair
(reference_record; masks dropped on a side whose container carries no mask)."""
import sys, json, math, warnings, logging
warnings.filterwarnings('ignore')
import numpy as np
import dadi
from dadi import Inference
for nm in ('Inference', 'Spectrum_mod', 'Numerics'):
    logging.getLogger(nm).setLevel(logging.CRITICAL)
np.seterr(all='ignore')

def mk_spectrum(vals, mask, shape, folded):
    arr = np.array(vals, dtype=float).reshape(shape)
    mk = np.array(mask, dtype=bool).reshape(shape)
    return dadi.Spectrum(arr, mask=mk, mask_corners=False, data_folded=bool(folded), check_folding=False)

def arr_out(a):
    """masked array -> (values with 0 under the mask / 'NF' where non-finite and unmasked, mask)"""
    mk = np.ma.getmaskarray(a).ravel()
    dat = np.asarray(np.ma.getdata(a), dtype=float).ravel()
    vals = []
    for v, b in zip(dat, mk):
        if b:
            vals.append(0.0)
        elif not math.isfinite(v):
            vals.append('NF')
        else:
            vals.append(float(v))
    return vals, [bool(b) for b in mk]

def scalar_out(x):
    if x is np.ma.masked:
        return 'masked'
    x = float(x)
    return x if math.isfinite(x) else 'NF'

def guarded(rec, key, f):
    try:
        rec[key] = f()
    except Exception as e:
        rec[key] = {'error': type(e).__name__ + ': ' + str(e)[:200]}

# ------------------------------------------------------------------------------------------------
# argument types and hidden content (stream 'containers'): the same (model, data) handed over in every container the
# API accepts, with arbitrary raw content stored under masked entries

SPECIAL = {'nan': float('nan'), 'inf': float('inf'), '-inf': float('-inf')}

def _num(x):
    return SPECIAL[x] if isinstance(x, str) else x

def _strided(arr, fill):
    """a non-contiguous view holding arr: every second entry along every axis of a larger array"""
    big = np.full(tuple(2 * s for s in arr.shape), fill, dtype=arr.dtype)
    sl = tuple(slice(None, None, 2) for _ in arr.shape)
    big[sl] = arr
    return big, sl

def build_container(kind, vals, mask, hidden, shape, folded):
    """kind: container name; vals/mask: flat lists; hidden: None (keep vals) or flat list of raw values to store
    under the masked entries; returns the object handed to the likelihood functions."""
    raw = [(_num(h) if (mk and hidden is not None) else v) for v, mk, h in zip(vals, mask, hidden if hidden is not None else vals)]
    isint = kind.endswith('_int') or kind.endswith('_int32')
    if isint:
        base = np.array([int(x) for x in raw], dtype=np.int32 if kind.endswith('_int32') else np.int64).reshape(shape)
    elif kind.endswith('_f32'):
        base = np.array(raw, dtype=np.float32).reshape(shape)
    else:
        base = np.array(raw, dtype=float).reshape(shape)
    mk = np.array(mask, dtype=bool).reshape(shape)
    fam = kind.split('_')[0]
    layout = 'F' if '_F' in kind else 'view' if '_view' in kind else 'C'
    if fam == 'spectrum':
        kw = dict(mask_corners=False, data_folded=bool(folded), check_folding=False)
        if isint or kind.endswith('_f32'):
            kw['dtype'] = base.dtype                       # Spectrum(...) converts to float64 unless told otherwise
        if layout == 'F':
            return dadi.Spectrum(np.asfortranarray(base), mask=np.asfortranarray(mk), **kw)
        if layout == 'view':
            big, sl = _strided(base, 0); bm, _ = _strided(mk, True)
            return dadi.Spectrum(big, mask=bm, **kw)[sl]
        return dadi.Spectrum(base, mask=mk, **kw)
    if fam == 'ma':
        if kind == 'ma_of_spectrum':
            return dadi.Spectrum(base, mask=mk, mask_corners=False).view(np.ma.MaskedArray)
        if kind == 'ma_nomask':
            return np.ma.masked_array(base)                # mask is numpy.ma.nomask: nothing is masked
        if kind == 'ma_hard':
            return np.ma.masked_array(base, mask=mk, hard_mask=True)
        if layout == 'F':
            return np.ma.masked_array(np.asfortranarray(base), mask=np.asfortranarray(mk))
        if layout == 'view':
            big, sl = _strided(base, 0); bm, _ = _strided(mk, True)
            return np.ma.masked_array(big, mask=bm)[sl]
        return np.ma.masked_array(base, mask=mk)
    if fam == 'ndarray':
        if layout == 'F':
            return np.asfortranarray(base)
        if layout == 'view':
            big, sl = _strided(base, 0)
            return big[sl]
        return base
    if fam == 'list':
        return base.tolist()
    raise ValueError('unknown container ' + kind)

def _snapshot(x):
    if isinstance(x, list):
        return ('list', json.dumps(x))
    return (type(x).__name__, np.array(np.ma.getdata(x), copy=True), np.array(np.ma.getmaskarray(x), copy=True),
            getattr(x, 'folded', None), str(np.ma.getdata(x).dtype))

def _unchanged(snap, x):
    if snap[0] == 'list':
        return isinstance(x, list) and json.dumps(x) == snap[1]
    return bool(type(x).__name__ == snap[0] and np.array_equal(snap[1], np.ma.getdata(x), equal_nan=True)
                and np.array_equal(snap[2], np.ma.getmaskarray(x)) and getattr(x, 'folded', None) == snap[3]
                and str(np.ma.getdata(x).dtype) == snap[4])

def eval_calls(model, data, cut, scan, rescale, m_folded_in):
    """every entry point C11 covers on one (model, data) pair; every call guarded"""
    rec = {}
    snaps = (_snapshot(model), _snapshot(data))
    guarded(rec, 'll', lambda: scalar_out(Inference.ll(model, data)))
    guarded(rec, 'llpb', lambda: arr_out(Inference.ll_per_bin(model, data)))
    guarded(rec, 'scal', lambda: scalar_out(Inference.optimal_sfs_scaling(model, data)))
    guarded(rec, 'llm', lambda: scalar_out(Inference.ll_multinom(model, data)))
    guarded(rec, 'llmpb', lambda: arr_out(Inference.ll_multinom_per_bin(model, data)))
    def oss():
        r = Inference.optimally_scaled_sfs(model, data)
        return arr_out(r) + (bool(getattr(r, 'folded', m_folded_in)),)
    guarded(rec, 'oss', oss)
    guarded(rec, 'lin', lambda: arr_out(Inference.linear_Poisson_residual(model, data, mask=cut)))
    guarded(rec, 'ans', lambda: arr_out(Inference.Anscombe_Poisson_residual(model, data, mask=cut)))
    guarded(rec, 'lin_nocut', lambda: arr_out(Inference.linear_Poisson_residual(model, data)))
    guarded(rec, 'ans_nocut', lambda: arr_out(Inference.Anscombe_Poisson_residual(model, data)))
    guarded(rec, 'minus_ll', lambda: scalar_out(Inference.minus_ll(model, data)))
    guarded(rec, 'minus_llm', lambda: scalar_out(Inference.minus_ll_multinom(model, data)))
    rec['inputs_unchanged'] = _unchanged(snaps[0], model) and _unchanged(snaps[1], data)
    if isinstance(rec.get('scal'), float) and not isinstance(model, list):
        s0 = rec['scal']
        guarded(rec, 'scan', lambda: [[x, scalar_out(Inference.ll(float(x * s0) * model, data))] for x in scan])
    if not isinstance(model, list):
        guarded(rec, 'rescaled', lambda: [[k, scalar_out(Inference.ll_multinom(k * model, data)),
                                           scalar_out(Inference.optimal_sfs_scaling(k * model, data))] for k in rescale])
    return rec

def reference_record(c, drop_m, drop_d):
    """the canonical call: float64 C-ordered dadi.Spectrum objects (mask all False on a side whose container has no mask)"""
    shape = c['shape']; n = len(c['m_vals'])
    mm = [False] * n if drop_m else c['m_mask']
    dm = [False] * n if drop_d else c['d_mask']
    model = mk_spectrum(c['m_vals'], mm, shape, c['m_folded'])
    data = mk_spectrum(c['d_vals'], dm, shape, c['d_folded'])
    rec = {'d_vals': [float(x) for x in np.asarray(data.data).ravel()], 'd_mask': [bool(x) for x in dm],
           'm_vals': [float(x) for x in np.asarray(model.data).ravel()], 'm_mask': [bool(x) for x in mm],
           'd_folded': bool(data.folded), 'm_folded': bool(model.folded)}
    rec.update(eval_calls(model, data, c.get('cut'), c.get('scan', []), c.get('rescale', []), bool(model.folded)))
    if data.folded and not model.folded:
        guarded(rec, 'm_used', lambda: arr_out(model.fold()))
    return rec

def run_variants(c, rec):
    refs = {}
    out = []
    for v in c['variants']:
        vr = {'vid': v['vid']}
        try:
            key = ('m' if v.get('drop_m') else '') + ('d' if v.get('drop_d') else '') or 'base'
            if key not in refs:
                refs[key] = reference_record(c, bool(v.get('drop_m')), bool(v.get('drop_d')))
            vr['ref'] = key
            model = build_container(v['mc'], c['m_vals'], c['m_mask'], v.get('hm'), c['shape'], c['m_folded'])
            data = build_container(v['dc'], c['d_vals'], c['d_mask'], v.get('hd'), c['shape'], c['d_folded'])
            vr['types'] = [type(model).__name__ + ':' + str(getattr(np.ma.getdata(model), 'dtype', '')) if not isinstance(model, list) else 'list',
                           type(data).__name__ + ':' + str(getattr(np.ma.getdata(data), 'dtype', '')) if not isinstance(data, list) else 'list']
            vr.update(eval_calls(model, data, c.get('cut'), c.get('scan', []), c.get('rescale', []), bool(c['m_folded'])))
        except Exception as e:
            vr['error'] = type(e).__name__ + ': ' + str(e)[:300]
        out.append(vr)
    rec['refs'] = refs
    rec['variants'] = out

def main():
    cases = json.load(sys.stdin)
    out = []
    for c in cases:
        rec = {'id': c['id']}
        try:
            shape = c['shape']
            # ---- data
            if c.get('d_project_from'):
                big = dadi.Spectrum(np.array(c['d_big'], dtype=float).reshape(c['d_project_from']))
                data = big.project([s - 1 for s in shape])
                if c.get('d_unmask_corners'):
                    data.mask.flat[0] = data.mask.flat[-1] = False
                extra = np.array(c['d_mask'], dtype=bool).reshape(shape)
                data.mask[extra] = True
                if c['d_folded']:
                    data = data.fold()                      # the real fold makes the folded data
            else:
                data = mk_spectrum(c['d_vals'], c['d_mask'], shape, c['d_folded'])
            model = mk_spectrum(c['m_vals'], c['m_mask'], shape, c['m_folded'])
            dv, dm = arr_out(data); mv, mm = arr_out(model)
            # under-mask values are irrelevant but must be what the model sees: report raw data there
            rec['d_vals'] = [float(x) for x in np.asarray(data.data).ravel()]; rec['d_mask'] = dm
            rec['m_vals'] = [float(x) for x in np.asarray(model.data).ravel()]; rec['m_mask'] = mm
            rec['d_folded'] = bool(data.folded); rec['m_folded'] = bool(model.folded)
            cut = c.get('cut')
            snap = (np.array(model.data, copy=True), np.array(np.ma.getmaskarray(model), copy=True),
                    np.array(data.data, copy=True), np.array(np.ma.getmaskarray(data), copy=True), model.folded, data.folded)
            guarded(rec, 'll', lambda: scalar_out(Inference.ll(model, data)))
            guarded(rec, 'llpb', lambda: arr_out(Inference.ll_per_bin(model, data)))
            guarded(rec, 'scal', lambda: scalar_out(Inference.optimal_sfs_scaling(model, data)))
            guarded(rec, 'llm', lambda: scalar_out(Inference.ll_multinom(model, data)))
            guarded(rec, 'llmpb', lambda: arr_out(Inference.ll_multinom_per_bin(model, data)))
            def oss():
                r = Inference.optimally_scaled_sfs(model, data)
                return arr_out(r) + (bool(r.folded),)
            guarded(rec, 'oss', oss)
            guarded(rec, 'lin', lambda: arr_out(Inference.linear_Poisson_residual(model, data, mask=cut)))
            guarded(rec, 'ans', lambda: arr_out(Inference.Anscombe_Poisson_residual(model, data, mask=cut)))
            guarded(rec, 'minus_ll', lambda: scalar_out(Inference.minus_ll(model, data)))
            guarded(rec, 'minus_llm', lambda: scalar_out(Inference.minus_ll_multinom(model, data)))
            # the model as the likelihood functions use it (real fold; used by the predicates only)
            if data.folded and not model.folded:
                guarded(rec, 'm_used', lambda: arr_out(model.fold()))
            # inputs must not have been modified
            rec['inputs_unchanged'] = bool(
                np.array_equal(snap[0], model.data, equal_nan=True) and np.array_equal(snap[1], np.ma.getmaskarray(model))
                and np.array_equal(snap[2], data.data, equal_nan=True) and np.array_equal(snap[3], np.ma.getmaskarray(data))
                and snap[4] == model.folded and snap[5] == data.folded)
            # ---- property predicates that need further calls of the real code
            if isinstance(rec.get('scal'), float):
                s0 = rec['scal']
                guarded(rec, 'scan', lambda: [[x, scalar_out(Inference.ll(float(x * s0) * model, data))] for x in c.get('scan', [])])
            guarded(rec, 'rescaled', lambda: [[k, scalar_out(Inference.ll_multinom(k * model, data)),
                                               scalar_out(Inference.optimal_sfs_scaling(k * model, data))] for k in c.get('rescale', [])])
            if c.get('perturb') is not None:
                def pert():
                    res = {}
                    dd = np.asarray(data.data)
                    ref = dadi.Spectrum(c['perturb']['c'] * dd, mask=np.ma.getmaskarray(data).copy(), mask_corners=False,
                                        data_folded=bool(data.folded), check_folding=False)
                    res['ref'] = scalar_out(Inference.ll_multinom(ref, data))
                    res['alts'] = []
                    for fac, zero_fill in zip(c['perturb']['factors'], c['perturb']['zero_fill']):
                        f = np.array(fac, dtype=float).reshape(shape)
                        z = np.array(zero_fill, dtype=float).reshape(shape)
                        alt_vals = np.where(dd > 0, c['perturb']['c'] * dd * f, z)
                        alt = dadi.Spectrum(alt_vals, mask=np.ma.getmaskarray(data).copy(), mask_corners=False,
                                            data_folded=bool(data.folded), check_folding=False)
                        res['alts'].append(scalar_out(Inference.ll_multinom(alt, data)))
                    return res
                guarded(rec, 'perturb', pert)
            if c.get('variants'):
                run_variants(c, rec)
        except Exception as e:
            rec['error'] = type(e).__name__ + ': ' + str(e)[:300]
        out.append(rec)
    print(json.dumps(out))

main()
