"""Runs the REAL simulation path of dadi.LowPass.LowPass (overlay) with RECORDING wrappers around its random
number sources, so that the run can be replayed through the Coq model (Model/LowPassSim.v) and so that the
hypothesis of the expectation theorems (every locus chooses its individuals independently and uniformly) is
observable.

Recording (nothing is replaced: every draw is made by the real generator, from the real state):
  * LowPass.ss        -> proxy of scipy.stats: rv_discrete(...).rvs and binom.rvs results are noted;
  * LowPass.rng       -> proxy of the module's numpy Generator: every method call that reorders an array is
                         executed by the real method, and a second time from the SAME bit-generator state on an
                         array of cell labels, which shows for every output cell the input cell it came from
                         (checked: same state afterwards, and result == input[labels]);
  * LowPass.simulate_reads / subsample_genotypes_1D -> thin wrappers that only note call boundaries.

kinds:
  simrep  : simulate_GATK_multisample_calling(cov, af, nseq, nsub, nsim, Fx) -> all draws + the returned array
  subs    : subsample_genotypes_1D(genotype_calls, nsub) on a constructed call matrix -> choices + result
  simdist : simulate_GATK_multisample_calling for every allele-count (combination) at the given coverage ->
            rows, projection_matrix rows, per class of identical sorted rows the statistics of the chosen
            position sets
numpy's global RNG (scipy's rvs) and LowPass.rng are seeded per case from the harness seed.
"""
import sys, json, warnings, itertools
warnings.filterwarnings('ignore')
import numpy as np
import dadi
from dadi.LowPass import LowPass as LP
np.seterr(all='ignore')

REAL_SS = LP.ss
REAL_SIMREADS = LP.simulate_reads
REAL_SUB1D = LP.subsample_genotypes_1D

def mkcov(probs):
    return np.array([np.arange(len(probs)), np.array(probs, dtype=float)])

def fl(a):
    return [float(t) for t in np.asarray(a, dtype=float).ravel()]

class Rec:
    """what the random sources delivered, in call order"""
    def __init__(self):
        self.parts = []          # one dict per simulate_reads call
        self.cur = None
        self.sub = None          # the running subsample_genotypes_1D call
        self.problems = []       # reasons why the choices could not be observed / are not what the model assumes
        self.rng_methods = {}

REC = Rec()

class RvProxy:
    def __init__(self, rv):
        self._rv = rv
    def rvs(self, *a, **kw):
        out = self._rv.rvs(*a, **kw)
        if REC.cur is not None:
            REC.cur['cov'].append(np.array(out))
        return out
    def __getattr__(self, n):
        return getattr(self._rv, n)

class BinomProxy:
    def rvs(self, n, p, *a, **kw):
        out = REAL_SS.binom.rvs(n, p, *a, **kw)
        if REC.cur is not None:
            REC.cur['binom'].append((np.array(n), float(p), np.array(out)))
        return out
    def __getattr__(self, n):
        return getattr(REAL_SS.binom, n)

class SsProxy:
    binom = BinomProxy()
    def rv_discrete(self, *a, **kw):
        return RvProxy(REAL_SS.rv_discrete(*a, **kw))
    def __getattr__(self, n):
        if n.startswith('__'):
            raise AttributeError(n)
        REC.problems.append('scipy.stats.%s used by the simulation is not recorded' % n)
        return getattr(REAL_SS, n)

class RngProxy:
    def __init__(self, gen):
        self._gen = gen
    def __getattr__(self, name):
        real = getattr(self._gen, name)
        if not callable(real):
            return real
        def call(*a, **kw):
            REC.rng_methods[name] = REC.rng_methods.get(name, 0) + 1
            x = a[0] if a else None
            if name not in ('permuted', 'permutation') or not isinstance(x, np.ndarray) or x.ndim != 2 or REC.sub is None:
                REC.problems.append('rng.%s%s is not a recorded reordering of a locus matrix' % (name, '' if REC.sub is not None else ' outside subsample_genotypes_1D'))
                return real(*a, **kw)
            st0 = self._gen.bit_generator.state
            out = real(*a, **kw)
            st1 = self._gen.bit_generator.state
            self._gen.bit_generator.state = st0
            labels = np.arange(x.size).reshape(x.shape)
            lab = real(labels, *a[1:], **kw)
            st2 = self._gen.bit_generator.state
            self._gen.bit_generator.state = st1
            ok = (st1 == st2) and lab.shape == out.shape and np.array_equal(x.ravel()[lab], out)
            if not ok:
                REC.problems.append('rng.%s: the reordering depends on the content of the array (not observable with labels)' % name)
                return out
            src_row, src_col = np.divmod(lab, x.shape[1])
            if not np.array_equal(src_row, np.arange(x.shape[0])[:, None] * np.ones((1, x.shape[1]), int)):
                REC.problems.append('rng.%s(axis=%r) moves genotypes between loci' % (name, kw.get('axis')))
                return out
            REC.sub['calls'].append({'method': name, 'axis': kw.get('axis', None), 'input': np.array(x), 'pos': src_col})
            return out
        return call

def simreads_wrapper(coverage_distribution, flattened_partition, pop_n_sequenced, number_simulations):
    REC.cur = {'part': [int(g) for g in flattened_partition], 'npop': list(pop_n_sequenced), 'nsims': int(number_simulations),
               'cov': [], 'binom': [], 'subs': []}
    REC.parts.append(REC.cur)
    n_ref, n_alt = REAL_SIMREADS(coverage_distribution, flattened_partition, pop_n_sequenced, number_simulations)
    REC.cur['n_ref'] = np.array(n_ref); REC.cur['n_alt'] = np.array(n_alt)
    return n_ref, n_alt

def sub1d_wrapper(genotype_calls, n_subsampling):
    REC.sub = {'nsub': int(n_subsampling), 'rows': np.array(genotype_calls), 'calls': []}
    if REC.cur is not None:
        REC.cur['subs'].append(REC.sub)
    try:
        out = REAL_SUB1D(genotype_calls, n_subsampling)
        REC.sub['out'] = np.array(out)
    finally:
        REC.sub = None
    return out

def install(seed):
    global REC
    REC = Rec()
    np.random.seed(seed)
    LP.rng = RngProxy(np.random.default_rng(seed))
    LP.ss = SsProxy()
    LP.simulate_reads = simreads_wrapper
    LP.subsample_genotypes_1D = sub1d_wrapper

def uninstall():
    LP.ss = REAL_SS
    LP.simulate_reads = REAL_SIMREADS
    LP.subsample_genotypes_1D = REAL_SUB1D

def sel_of_sub(sub):
    """chosen positions per locus, in the order the loci leave subsample_genotypes_1D"""
    k = sub['nsub'] // 2
    sel = []
    for c in sub['calls']:
        for row in c['pos']:
            sel.append([int(t) for t in row[:k]])
    return sel

def draws_of_part(P, nseq):
    """per locus, per population, per individual (depth, alt reads of a heterozygote) from the recorded rvs results"""
    part = np.array(P['part']); npop = P['npop']; n = P['nsims']
    if len(P['cov']) != len(npop):
        REC.problems.append('simulate_reads drew %d coverage matrices for %d populations' % (len(P['cov']), len(npop)))
        return None
    depth = np.concatenate([np.asarray(c).reshape(n, m) for c, m in zip(P['cov'], npop)], axis=1)
    alt = np.zeros_like(depth)
    het = part == 1
    if len(P['binom']) != 1:
        REC.problems.append('simulate_reads made %d binomial draws' % len(P['binom']))
        return None
    bn, bp, bo = P['binom'][0]
    if bp != 0.5 or not np.array_equal(np.asarray(bn).reshape(n, het.sum()), depth[:, het]):
        REC.problems.append('heterozygote reads are not Binomial(depth, 1/2) draws')
        return None
    alt[:, het] = np.asarray(bo).reshape(n, het.sum())
    splits = np.cumsum(npop)[:-1]
    out = []
    for i in range(n):
        d = np.split(depth[i], splits); a = np.split(alt[i], splits)
        out.append([[[int(x), int(y)] for x, y in zip(dd, aa)] for dd, aa in zip(d, a)])
    return out

def class_stats(sub):
    """for every class of loci with the same sorted row inside one rng call: how the chosen position sets are spread"""
    k = sub['nsub'] // 2
    out = []
    for c in sub['calls']:
        x = c['input']; pos = c['pos']
        if x.shape[0] == 0:
            continue
        calls = x.shape[1]
        keys = {}
        for i in range(x.shape[0]):
            keys.setdefault(tuple(int(t) for t in np.sort(x[i])), []).append(i)
        for key, idx in keys.items():
            sets = {}
            for i in idx:
                s = tuple(sorted(int(t) for t in pos[i][:k]))
                sets[s] = sets.get(s, 0) + 1
            inj = all(len(set(int(t) for t in pos[i])) == calls and set(int(t) for t in pos[i]) == set(range(calls)) for i in idx)
            out.append({'m': len(idx), 'calls': int(calls), 'k': int(k), 'distinct': len(sets), 'maxcount': max(sets.values()),
                        'mincount': min(sets.values()), 'row': list(key), 'perm_ok': bool(inj), 'method': c['method'], 'axis': c['axis'],
                        'example': [[int(t) for t in pos[i][:k]] for i in idx[:4]]})
    return out

def popdict(pops):
    ids = ['p%d' % i for i in range(len(pops))]
    return ids, {i: mkcov(p['cov']) for i, p in zip(ids, pops)}

def simrep(c):
    pops = c['pops']
    ids, cov = popdict(pops)
    nseq = [p['nseq'] for p in pops]; nsub = [p['nsub'] for p in pops]; Fx = [p['F'] for p in pops]
    install(c['seed'])
    try:
        out = LP.simulate_GATK_multisample_calling(cov, list(c['af']), nseq, nsub, c['nsim'], Fx)
    finally:
        uninstall()
    rec = {'out': fl(out), 'shape': list(np.shape(out)), 'draws': [], 'problems': []}
    subsampled = [i for i, (a, b) in enumerate(zip(nsub, nseq)) if a != b]
    # the partition probabilities the code multiplies with nsim (for the locus-count check)
    pp = [LP.partitions_and_probabilities(n, 'allele_frequency', F, af) for af, n, F in zip(c['af'], nseq, Fx)]
    probs = LP.flatten_nested_list([x[1] for x in pp], '*')
    rec['probs'] = [float(t) for t in probs]
    for P in REC.parts:
        d = draws_of_part(P, nseq)
        if d is None:
            break
        if len(P['subs']) != len(subsampled):
            REC.problems.append('subsample_genotypes_1D called %d times for %d subsampled populations' % (len(P['subs']), len(subsampled)))
            break
        splits = np.cumsum(P['npop'])[:-1]
        part = [[int(g) for g in x] for x in np.split(np.array(P['part'], dtype=int), splits)]
        sel = [[] for _ in pops]
        for pi, sub in zip(subsampled, P['subs']):
            if sub['nsub'] != nsub[pi]:
                REC.problems.append('subsample_genotypes_1D called with n_subsampling %d for population %d' % (sub['nsub'], pi))
            nrec = sum(len(cc['pos']) for cc in sub['calls'])
            if nrec != len(sub['rows']) and len(sub['rows']) > 0:
                REC.problems.append('subsample_genotypes_1D reordered %d of its %d loci through the recorded generator' % (nrec, len(sub['rows'])))
            sel[pi] = sel_of_sub(sub)
        rec['draws'].append({'part': part, 'loci': d, 'sel': sel})
    rec['problems'] = list(dict.fromkeys(REC.problems))
    rec['rng_methods'] = REC.rng_methods
    rec['classes'] = [cs for P in REC.parts for sub in P['subs'] for cs in class_stats(sub)]
    return rec

def subs_recorded(c):
    """subsample_genotypes_1D on a constructed matrix; returns result, choices and class statistics"""
    rows = np.array(c['rows'], dtype=int).reshape(len(c['rows']), -1)
    install(c['seed'])
    try:
        REC.cur = {'subs': []}
        out = LP.subsample_genotypes_1D(rows, c['nsub'])
        sub = REC.cur['subs'][0]
    finally:
        uninstall()
    return {'out': [[int(t) for t in r] for r in np.asarray(out)], 'sel': sel_of_sub(sub),
            'classes': class_stats(sub), 'problems': list(dict.fromkeys(REC.problems)), 'rng_methods': REC.rng_methods}

def simdist(c):
    pops = c['pops']
    ids, cov = popdict(pops)
    nseq = [p['nseq'] for p in pops]; nsub = [p['nsub'] for p in pops]; Fx = [p['F'] for p in pops]
    mats = [LP.projection_matrix(a, b, F) for a, b, F in zip(nseq, nsub, Fx)]
    rows = []
    classes = []
    problems = []
    methods = {}
    for af in c['afs']:
        install(c['seed'] + 7919 * sum(x * 31 ** i for i, x in enumerate(af)))
        try:
            out = LP.simulate_GATK_multisample_calling(cov, list(af), nseq, nsub, c['nsim'], Fx)
        finally:
            uninstall()
        expect = np.ones(())
        for m, a in zip(mats, af):
            expect = np.multiply.outer(expect, m[a])
        nloci = sum(P['nsims'] for P in REC.parts)
        # the exact expectation with the locus numbers int(nsim * prob) the run used: sum over partitions of
        # (loci of the partition / loci) * prod_pop projection_inbreeding(partition_pop, nsub_pop)
        ex2 = np.zeros([b + 1 for b in nsub])
        for P in REC.parts:
            splits = np.cumsum(P['npop'])[:-1]
            e = np.ones(())
            for pt, b in zip(np.split(np.array(P['part'], dtype=int), splits), nsub):
                e = np.multiply.outer(e, LP.projection_inbreeding([int(g) for g in pt], b))
            ex2 += P['nsims'] * e
        ex2 = ex2 / max(nloci, 1)
        rows.append({'af': list(af), 'out': fl(out), 'proj': fl(expect), 'proj_counts': fl(ex2), 'nloci': int(nloci), 'nparts': len(REC.parts)})
        for P in REC.parts:
            for sub in P['subs']:
                for cs in class_stats(sub):
                    cs['af'] = list(af)
                    classes.append(cs)
        problems += REC.problems
        for k, v in REC.rng_methods.items():
            methods[k] = methods.get(k, 0) + v
    return {'rows': rows, 'classes': classes, 'problems': list(dict.fromkeys(problems)), 'rng_methods': methods}

def main():
    cases = json.load(sys.stdin)
    out = []
    for c in cases:
        rec = {'id': c['id']}
        try:
            rec.update({'simrep': simrep, 'subs': subs_recorded, 'simdist': simdist}[c['kind']](c))
        except Exception as e:
            import traceback
            uninstall()
            rec['error'] = type(e).__name__ + ': ' + str(e)[:300] + ' @ ' + traceback.format_exc()[-600:]
        out.append(rec)
    print(json.dumps(out))
main()
