"""C13, stream 'types': runs the REAL dadi code on data dictionaries BUILT IN MEMORY from a genotype-count table, in every
spelling (allele coding, spelling of a missing outgroup, containers of segregating / calls / dictionary / pop_ids /
projections, flag / chunk_size / Nboot types, population keys, dadi's own SLiM reader) the harness enumerates.

Per variant, ONE set of argument objects is built and handed to every entry point C13 covers (so every object is re-used across
calls): Misc.count_data_dict, Spectrum.from_data_dict (polarised / folded x mask_corners False / True, requested and full size),
Misc.fragment_data_dict, Misc.bootstraps_from_dd_chunks, the statistics.  A type-tagged snapshot of the caller's objects is taken
before and after."""
import sys, json, os, math, io, warnings, logging, random, collections, types, copy
warnings.filterwarnings('ignore')
import numpy as np
import dadi
import dadi.Misc
logging.getLogger('Spectrum_mod').setLevel(logging.ERROR)
np.seterr(all='ignore')

PICKS = []
_real_choices = random.choices
def _rec_choices(population, weights=None, *, cum_weights=None, k=1):
    idx = _real_choices(range(len(population)), weights, cum_weights=cum_weights, k=k)
    PICKS.append([int(i) for i in idx])
    return [population[i] for i in idx]
random.choices = _rec_choices

def fin(x):
    x = float(x)
    return x if math.isfinite(x) else None

class Collision(Exception):
    pass

def err(e):
    return {'error': type(e).__name__ + ': ' + str(e)[:160]}

# ---- spellings ----------------------------------------------------------------------------------------------------------
def allele_codes(kind, letters):
    """(code of allele index 0, code of allele index 1, wrapper applied to the outgroup allele)"""
    ident = lambda x: x
    a, b = letters
    t = {
        'letters': (a, b, ident),
        'lower': (a.lower(), b.lower(), ident),
        'npstr': (np.str_(a), np.str_(b), ident),
        'bytes': (a.encode(), b.encode(), ident),
        'multichar': (a + b, a, ident),
        'empty_first': ('', b, ident),
        'empty_second': (a, '', ident),
        'str01': ('0', '1', ident),
        'int01': (0, 1, ident),
        'int10': (1, 0, ident),
        'int12': (1, 2, ident),
        'int_neg': (-1, 0, ident),
        'int02': (0, 2, ident),
        'bool': (False, True, ident),
        'bool10': (True, False, ident),
        'npbool': (np.bool_(False), np.bool_(True), ident),
        'float01': (0.0, 1.0, ident),
        'float10': (1.0, 0.0, ident),
        'negzero': (-0.0, 1.0, ident),
        'npint64': (np.int64(0), np.int64(1), ident),
        'npint64_10': (np.int64(1), np.int64(0), ident),
        'npint8': (np.int8(0), np.int8(1), ident),
        'npuint8': (np.uint8(0), np.uint8(1), ident),
        'npint32': (np.int32(0), np.int32(1), ident),
        'npfloat32': (np.float32(0), np.float32(1), ident),
        'npfloat64': (np.float64(0), np.float64(1), ident),
        'int_out_np': (0, 1, lambda x: np.int64(x)),            # python int alleles, numpy integer outgroup
        'np_out_int': (np.int64(0), np.int64(1), lambda x: int(x)),
        'int_out_float': (0, 1, lambda x: float(x)),
        'int_out_bool': (0, 1, lambda x: bool(x)),
        'int_out_0d': (0, 1, lambda x: np.array(x)),             # 0-d integer array as outgroup
        'letters_out_npstr': (a, b, lambda x: np.str_(x)),
        'letters_out_0d': (a, b, lambda x: np.array(x)),
    }
    return t[kind]

def missing_value(kind, letters):
    other = [x for x in 'ACGT' if x not in letters][0]
    return {'dash': '-', 'none': None, 'N': 'N', 'dot': '.', 'other_letter': other, 'other_lower': other.lower(), 'empty': '',
            'int2': 2, 'int_neg1': -1, 'int7': 7, 'nan': float('nan'), 'str_zero': '0', 'float_half': 0.5,
            'npint9': np.int64(9), 'bytes_dash': b'-', 'np_dash': np.str_('-')}[kind]

def seg_container(kind, a, b):
    if kind == 'tuple': return (a, b)
    if kind == 'list': return [a, b]
    if kind == 'ndarray': return np.array([a, b])
    if kind == 'ndarray_obj': return np.array([a, b], dtype=object)
    if kind == 'ndarray_view':
        return np.array([a, a, b, b])[::2]
    if kind == 'ndarray_neg':
        return np.array([b, a])[::-1]
    raise KeyError(kind)

def calls_table(kind, snps, npop):
    """per SNP, per population the (allele1, allele2) pair in the requested container"""
    n = len(snps)
    raw = np.array([[[s['a1'][p], s['a2'][p]] for p in range(npop)] for s in snps], dtype=np.int64).reshape(n, npop, 2)
    def rows(arr):
        return [[arr[i, p] for p in range(npop)] for i in range(n)]
    if kind == 'tuple': return [[(int(x[0]), int(x[1])) for x in r] for r in rows(raw)]
    if kind == 'list': return [[[int(x[0]), int(x[1])] for x in r] for r in rows(raw)]
    if kind == 'npint_tuple': return [[(np.int64(x[0]), np.int64(x[1])) for x in r] for r in rows(raw)]
    if kind == 'npint32_tuple': return [[(np.int32(x[0]), np.int32(x[1])) for x in r] for r in rows(raw)]
    if kind == 'npuint8_tuple': return [[(np.uint8(x[0]), np.uint8(x[1])) for x in r] for r in rows(raw)]
    if kind == 'float_tuple': return [[(float(x[0]), float(x[1])) for x in r] for r in rows(raw)]
    if kind == 'npfloat32_tuple': return [[(np.float32(x[0]), np.float32(x[1])) for x in r] for r in rows(raw)]
    if kind == 'ndarray': return [[np.array(x) for x in r] for r in rows(raw)]
    if kind == 'ndarray_int32': return rows(raw.astype(np.int32))
    if kind == 'ndarray_int16': return rows(raw.astype(np.int16))
    if kind == 'ndarray_float': return rows(raw.astype(float))
    if kind == 'ndarray_view': return rows(raw)                                  # rows of one C-ordered table
    if kind == 'ndarray_F': return rows(np.asfortranarray(raw))                  # strided rows of a Fortran-ordered table
    if kind == 'ndarray_T': return rows(np.ascontiguousarray(raw.transpose(2, 1, 0)).transpose(2, 1, 0))
    if kind == 'ndarray_neg': return rows(np.ascontiguousarray(raw[:, :, ::-1])[:, :, ::-1])    # negatively strided pairs
    if kind == 'ndarray_strided':
        big = np.zeros((n, npop, 6), dtype=np.int64) - 7
        big[:, :, 1::3] = raw
        return rows(big[:, :, 1::3])
    if kind == 'ma': return [[np.ma.array(x) for x in r] for r in rows(raw)]
    if kind == 'ma_masked_false': return [[np.ma.array(x, mask=[False, False]) for x in r] for r in rows(raw)]
    if kind == 'zerod': return [[(np.array(int(x[0])), np.array(int(x[1]))) for x in r] for r in rows(raw)]
    if kind == 'bool_when_01':      # a single chromosome coded True / False where the counts are 0 / 1
        return [[tuple((bool(v) if v in (0, 1) else int(v)) for v in x) for x in r] for r in rows(raw)]
    raise KeyError(kind)

def seq_container(kind, vals, what):
    """pop_ids / projections"""
    if kind == 'list': return list(vals)
    if kind == 'tuple': return tuple(vals)
    if kind == 'ndarray': return np.array(vals)
    if kind == 'ndarray_obj': return np.array(vals, dtype=object)
    if kind == 'ndarray_view': return np.array([x for v in vals for x in (v, v)])[::2]
    if kind == 'ndarray_neg': return np.array(list(vals)[::-1])[::-1]
    if kind == 'npint_list': return [np.int64(v) for v in vals]
    if kind == 'npint32_list': return [np.int32(v) for v in vals]
    if kind == 'ndarray_int32': return np.array(vals, dtype=np.int32)
    if kind == 'ndarray_uint8': return np.array(vals, dtype=np.uint8)
    if kind == 'float_list': return [float(v) for v in vals]
    if kind == 'ndarray_float': return np.array(vals, dtype=float)
    if kind == 'npstr_list': return [np.str_(v) for v in vals]
    if kind == 'zerod_list': return [np.array(v) for v in vals]
    if kind == 'dict_keys': return dict((v, None) for v in vals).keys()
    if kind == 'ma': return np.ma.array(vals)
    raise KeyError(kind)

def scalar(kind, v):
    return {'py': lambda: v, 'int': lambda: int(v), 'npbool': lambda: np.bool_(v), 'npint': lambda: np.int64(v), 'npint32': lambda: np.int32(v),
            'float': lambda: float(v), 'npfloat': lambda: np.float64(v), 'zerod': lambda: np.array(v), 'npuint8': lambda: np.uint8(v),
            'str': lambda: ('yes' if v else ''), 'none_or_obj': lambda: (object() if v else None),
            'list': lambda: ([0] if v else [])}[kind]()

def pop_key(kind, i, name):
    return {'str': name, 'int': i, 'npint': np.int64(i), 'npstr': np.str_(name), 'bytes': name.encode(), 'tuple': (name, i), 'float': float(i)}[kind]

def dict_container(kind, items):
    if kind == 'dict': return dict(items)
    if kind == 'ordered': return collections.OrderedDict(items)
    if kind == 'defaultdict':
        d = collections.defaultdict(dict); d.update(items); return d
    if kind == 'proxy': return types.MappingProxyType(dict(items))
    if kind == 'userdict': return collections.UserDict(dict(items))
    if kind == 'chainmap': return collections.ChainMap(dict(items))
    raise KeyError(kind)

# ---- snapshot of the caller's objects ------------------------------------------------------------------------------------
def snap(x):
    if isinstance(x, np.ma.MaskedArray):
        return ('ma', str(x.dtype), x.shape, x.strides, np.asarray(x.data).tobytes() if x.dtype != object else repr(x.data.tolist()), np.ma.getmaskarray(x).tobytes())
    if isinstance(x, np.ndarray):
        return ('nd', str(x.dtype), x.shape, x.strides, x.tobytes() if x.dtype != object else repr(x.tolist()))
    if isinstance(x, (dict, collections.UserDict, collections.ChainMap, types.MappingProxyType)):
        return (type(x).__name__, tuple((snap(k), snap(v)) for k, v in x.items()))
    if isinstance(x, (list, tuple)):
        return (type(x).__name__, tuple(snap(v) for v in x))
    if type(x).__name__ == 'dict_keys':
        return ('dict_keys', tuple(snap(v) for v in x))
    if isinstance(x, float) and x != x:
        return ('float', 'nan')
    return (type(x).__name__, repr(x))

# ---- building one variant ---------------------------------------------------------------------------------------------
def slim_files(base):
    npop = len(base['pops'])
    files = []
    for p in range(npop):
        n = base['slim_ns'][p]
        muts = [(s, s['a2'][p]) for s in base['snps'] if s['a2'][p] > 0]
        lines = ['#OUT: 10 SS p%d %d' % (p + 1, n), 'Mutations:']
        for lid, (s, cnt) in enumerate(muts):
            lines.append('%d %d m1 %d 0 0.5 p1 1 %d' % (lid, s['gid'], s['pos'], cnt))
        lines.append('Genomes:')
        carriers = [[] for _ in range(n)]
        for lid, (s, cnt) in enumerate(muts):
            for g in s['carriers'][p]:
                carriers[g].append(lid)
        for g in range(n):
            lines.append('p%d:%d A %s' % (p + 1, g, ' '.join(str(x) for x in carriers[g])))
        files.append('\n'.join(lines) + '\n')
    return files

def build(base, v):
    npop = len(base['pops'])
    pk = v.get('pop_key', 'str')
    pops = [pop_key(pk, i, nm) for i, nm in enumerate(base['pops'])]
    if v.get('producer') == 'slim':
        dd, ns = dadi.Misc.dd_from_SLiM_files([io.StringIO(t) for t in slim_files(base)])
        if list(ns) != list(base['slim_ns']):
            raise RuntimeError('dd_from_SLiM_files reports sample sizes %r' % (ns,))
        pops = list(range(npop))
    else:
        table = calls_table(v.get('calls', 'tuple'), base['snps'], npop)
        items = []
        for s, row in zip(base['snps'], table):
            a, b, wrap = allele_codes(v.get('alleles', 'letters'), s['letters'])
            if s.get('nseg', 2) == 2:
                seg = seg_container(v.get('seg', 'tuple'), a, b)
            elif s['nseg'] == 1:
                seg = seg_container(v.get('seg', 'tuple'), a, b)[:1]
            else:
                extra = {'letters': [x for x in 'ACGT' if x not in s['letters']][0]}.get(v.get('alleles', 'letters'), 5)
                seg = [a, b, extra] if v.get('seg', 'tuple') == 'list' else (a, b, extra)
            info = [('segregating', seg)]
            mk = v.get('missing', 'dash')
            if s['anc'] is None:
                if mk != 'absent':
                    mv = missing_value(mk, s['letters'])
                    try:
                        coll = bool(mv == a) or bool(mv == b)
                    except Exception:
                        coll = False
                    if coll:
                        raise Collision('the spelling %r of a missing outgroup equals an allele code of %r' % (mk, v.get('alleles', 'letters')))
                    info.append(('outgroup_allele', mv))
            else:
                info.append(('outgroup_allele', wrap((a, b)[s['anc']])))
            info.append(('calls', dict_container(v.get('calls_dict', 'dict'), [(pops[p], row[p]) for p in range(npop)])))
            if v.get('extra_keys'):
                info += [('context', '-%s-' % s['letters'][0]), ('outgroup_context', '---'), ('coverage', {})]
                info = info[::-1]
            items.append((s['key'], dict_container(v.get('snp_dict', 'dict'), info)))
        dd = dict_container(v.get('dd', 'dict'), items)
    sel = [base['pops'].index(nm) for nm in base['pop_ids']]
    pc = v.get('pop_ids', 'list')
    pop_ids = seq_container(pc, [pops[i] for i in sel], 'pop_ids')
    projs = seq_container(v.get('projs', 'list'), base['projections'], 'projs')
    full = seq_container(v.get('projs', 'list'), base['full'], 'projs')
    return dd, pop_ids, projs, full

def fs_out(fs):
    return {'data': [float(t) for t in np.asarray(fs.data).ravel()], 'mask': [bool(t) for t in np.ma.getmaskarray(fs).ravel()],
            'folded': bool(fs.folded), 'shape': [int(x) for x in fs.shape], 'pop_ids': None if fs.pop_ids is None else [str(x) for x in fs.pop_ids],
            'dtype': str(np.asarray(fs.data).dtype), 'type': type(fs).__name__}

def num(x):
    x = np.asarray(x)
    if x.shape != ():
        raise ValueError('not a scalar')
    f = float(x)
    return int(f) if f == int(f) else f

def run_variant(base, v):
    rec = {'vid': v['vid']}
    try:
        dd, pop_ids, projs, full = build(base, v)
    except Exception as e:
        rec['build'] = err(e)
        return rec
    mcT, mcF = scalar(v.get('flag', 'py'), True), scalar(v.get('flag', 'py'), False)
    polT, polF = scalar(v.get('flag', 'py'), True), scalar(v.get('flag', 'py'), False)
    cs = scalar(v.get('cs', 'py'), base['chunk_size'])
    nboot = scalar(v.get('nboot', 'py'), base['nboot'])
    args = (dd, pop_ids, projs, full, cs, nboot)
    before = snap(args)
    def tryf(name, f):
        try:
            rec[name] = f()
        except Exception as e:
            rec[name] = err(e)
    def cd_out():
        cd = dadi.Misc.count_data_dict(dd, pop_ids)
        return [[[num(x) for x in k[0]], [num(x) for x in k[1]], bool(k[2]), int(c)] for k, c in cd.items()]
    tryf('cd', cd_out)
    for nm, pr in (('proj', projs), ('full', full)):
        for mtag, mc in (('F', mcF), ('T', mcT)):
            for ptag, pol in (('pol', polT), ('fold', polF)):
                tryf('fs_%s_%s_%s' % (nm, mtag, ptag), lambda: fs_out(dadi.Spectrum.from_data_dict(dd, pop_ids, pr, mask_corners=mc, polarized=pol)))
    # positional call (the bootstrap code calls it that way) and a second call on the very same objects
    tryf('fs_again', lambda: fs_out(dadi.Spectrum.from_data_dict(dd, pop_ids, projs, mcF, polT)))
    # statistics on the full-size spectra
    def stats():
        out = {}
        for ptag, pol in (('pol', polT), ('fold', polF)):
            fs = dadi.Spectrum.from_data_dict(dd, pop_ids, full, mask_corners=mcT, polarized=pol)
            names = ['S', 'pi', 'Watterson_theta', 'theta_L', 'Tajima_D', 'Zengs_E'] if fs.ndim == 1 else ['S', 'Fst']
            for n_ in names:
                try:
                    out[ptag + ':' + n_] = fin(getattr(fs, n_)())
                except Exception as e:
                    out[ptag + ':' + n_] = err(e)
        return out
    tryf('stats', stats)
    frags = None
    def frag():
        nonlocal frags
        frags = dadi.Misc.fragment_data_dict(dd, cs)
        return [[str(k) for k in f.keys()] for f in frags]
    tryf('chunks', frag)
    if frags is not None:
        for ptag, pol in (('pol', polT), ('fold', polF)):
            tryf('chunk_fs_' + ptag, lambda: [fs_out(dadi.Spectrum.from_data_dict(f, pop_ids, projs, mask_corners=mcF, polarized=pol)) for f in frags])
            def boots():
                del PICKS[:]
                random.seed(base['boot_seed'])
                bs = dadi.Misc.bootstraps_from_dd_chunks(frags, nboot, pop_ids, projs, mcF, pol)
                return {'fs': [fs_out(b_) for b_ in bs], 'picks': [list(p) for p in PICKS]}
            tryf('boots_' + ptag, boots)
    try:
        rec['inputs_unchanged'] = snap(args) == before
    except Exception as e:
        rec['inputs_unchanged'] = err(e)
    return rec

def main():
    bases = json.load(sys.stdin)
    out = []
    for base in bases:
        res = []
        for v in base['variants']:
            try:
                res.append(run_variant(base, v))
            except Exception as e:
                res.append({'vid': v['vid'], 'driver_error': type(e).__name__ + ': ' + str(e)[:300]})
        out.append({'id': base['id'], 'variants': res})
    print(json.dumps(out))
main()
