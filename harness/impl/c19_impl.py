"""Runs the REAL dadi.Godambe code (overlay) on JSON cases.  One op per case:

  hess     : get_hess / get_grad / hessian_elem on a polynomial test function given by its monomials
  godambe  : get_godambe / GIM_uncert / FIM_uncert / LRT_adjust / Wald_stat / score_stat on a Poisson model that is
             linear in its parameters (func_ex(p, ns, pts) = Spectrum(sum_k p_k B_k)); the inner get_godambe call is
             recorded (arguments it received, matrices it returned)
  chi2     : sum_chi2_ppf
Container types of the arguments (default = what the documentation names): "nested_as", "fp_as", "p0_as", "boots_as",
"adjusts_as", "pts_as" in {list, tuple, array}.  A godambe op that raises still reports the get_godambe calls it made.
Every op clears Godambe.cache first unless it says  "keep_cache": true  (call histories).
"""
import sys, json, warnings, logging, gc
warnings.filterwarnings('ignore')
import numpy as np
import scipy.special
import dadi
from dadi import Godambe
logging.getLogger('Inference').setLevel(logging.ERROR)
np.seterr(all='ignore')
import c19_impl_types as T          # same directory (this file is run as a script)


def fl(x):
    x = float(x)
    return x if np.isfinite(x) else None

def fll(a):
    return [fl(t) for t in np.asarray(a, dtype=float).ravel()]

def fmat(a):
    a = np.asarray(a, dtype=float)
    return [[fl(t) for t in row] for row in a]


def op_hess(c):
    lin = [(float(a), int(k)) for a, k in c['lin']]
    qd = [(float(a), int(k), int(l)) for a, k, l in c['qd']]
    c0 = float(c['c'])
    calls = [0]
    extra = c.get('args', [])
    def func(p, *args):
        calls[0] += 1
        if list(args) != list(extra):
            raise RuntimeError('args not passed through: %r' % (args,))
        v = c0
        for a, k in lin:
            v += a * p[k]
        for a, k, l in qd:
            v += a * p[k] * p[l]
        return v
    p0 = [float(x) for x in c['p']]
    p_in = np.array(p0) if c.get('p_as') == 'array' else list(p0)
    rec = {'id': c['id']}
    d = c.get('direct')
    if d is None:
        H = Godambe.get_hess(func, p_in, c['eps'], args=extra)
        rec['hess'] = fmat(H)
        rec['sym'] = bool(np.array_equal(H, H.T))
        rec['calls_hess'] = calls[0]
        if c.get('want_grad', True):
            g = Godambe.get_grad(func, p_in, c['eps'], args=extra)
            rec['grad'] = fll(g)
            rec['grad_shape'] = list(g.shape)
    else:
        n = len(p0)
        f0 = func(p_in, *extra)
        H = [[None] * n for _ in range(n)]
        for ii in range(n):
            for jj in range(n):
                kw = {}
                if d.get('one_sided') is not None:
                    kw['one_sided'] = list(d['one_sided'])
                H[ii][jj] = fl(Godambe.hessian_elem(func, f0, p_in, ii, jj, list(d['eps']), args=extra, **kw))
        rec['hess'] = H
    rec['p_unchanged'] = [float(x) for x in p_in] == p0
    return rec


def make_func_ex(Bs, shape, B0=None):
    Barr = [np.array(b, dtype=float).reshape(shape) for b in Bs]
    base = 0 if B0 is None else np.array(B0, dtype=float).reshape(shape)
    def func_ex(params, ns, pts):
        tot = base
        for pk, b in zip(params, Barr):
            tot = tot + pk * b
        return dadi.Spectrum(tot)
    return func_ex

_persistent = {}

def as_container(v, kind, dtype=float):
    if kind == 'tuple':
        return tuple(v)
    if kind == 'array':
        return np.array(v, dtype=dtype)
    return list(v)

def op_godambe(c):
    shape = list(c['shape'])
    key = json.dumps([c['Bs'], shape, c.get('B0')])
    if c.get('func_kind', 'closure') == 'persistent':
        if key not in _persistent:
            _persistent[key] = make_func_ex(c['Bs'], shape, c.get('B0'))
        func_ex = _persistent[key]
    elif c.get('func_kind') == 'lambda':
        wrapped = make_func_ex(c['Bs'], shape, c.get('B0'))
        func_ex = lambda p, ns, pts: wrapped(p, ns, pts)
    else:
        func_ex = make_func_ex(c['Bs'], shape, c.get('B0'))
    mk = lambda v: dadi.Spectrum(np.array(v, dtype=float).reshape(shape))
    data = mk(c['data'])
    if c.get('extra_mask'):
        m = np.array(c['extra_mask'], dtype=bool).reshape(shape)
        data.mask = np.logical_or(data.mask, m)
    boots = [mk(b) for b in c.get('boots', [])]
    if c.get('extra_mask'):
        for b in boots:
            b.mask = np.logical_or(b.mask, m)
    if c.get('boots_as_arrays'):
        boots = [np.ma.masked_array(b.data, mask=b.mask) for b in boots]   # get_godambe converts with Spectrum(boot)
    p0_list = [float(x) for x in c['p0']]
    p0 = as_container(p0_list, c.get('p0_as', 'list'))
    if c.get('boots_as') == 'tuple':
        boots = tuple(boots)
    pts = as_container(c.get('pts', [10]), c.get('pts_as', 'list'), dtype=int)
    eps = c['eps']
    # ---- stream T (argument types): the same numbers in other python / numpy types, containers, layouts
    ty = c.get('typed') or {}
    FLAG = (lambda v: T.scalar(ty['flag_kind'], v)) if ty.get('flag_kind') else (lambda v: v)
    if ty.get('data_kind'):
        data = T.build_spectrum(ty['data_kind'], c['data'], shape, c.get('extra_mask'))
    if ty.get('boots_kind'):
        boots = [T.build_spectrum(ty['boots_kind'], b, shape, c.get('extra_mask')) for b in c.get('boots', [])]
        if c.get('boots_as') == 'tuple':
            boots = tuple(boots)
    if ty.get('share') == 'data_is_boot0' and len(boots):
        boots = type(boots)([data] + list(boots[1:]))           # (the case lists the data as its first bootstrap)
    if ty.get('share') == 'boot_twice' and len(boots) >= 2:
        boots = type(boots)([boots[0], boots[0]] + list(boots[2:]))     # (the case lists the first bootstrap twice)
    if ty.get('p0_kind'):
        p0 = T.build(ty['p0_kind'], c['p0'])
    if ty.get('pts_kind'):
        pts = T.build(ty['pts_kind'], c.get('pts', [10]))
    if ty.get('eps_kind'):
        eps = T.build(ty['eps_kind'], c['eps'])
    snaps = lambda: [T.snap(p0), T.snap(pts), T.snap(eps), T.snap(np.ma.getdata(data)), T.snap(np.ma.getmaskarray(data)),
                     [(T.snap(np.ma.getdata(b)), T.snap(np.ma.getmaskarray(b))) for b in boots]]
    snap0 = snaps()
    rec = {'id': c['id']}
    inner = []
    orig = Godambe.get_godambe
    def spy(func_ex_, grid_pts, all_boot, p0_, data_, eps_, log=False, just_hess=False, boot_theta_adjusts=[]):
        r = {'p0': fll(p0_), 'eps': float(eps_), 'log': bool(log), 'just_hess': bool(just_hess),
             'adjusts': None if boot_theta_adjusts is None or len(boot_theta_adjusts) == 0 else fll(boot_theta_adjusts),
             'nboot': len(all_boot)}
        try:
            out = orig(func_ex_, grid_pts, all_boot, p0_, data_, eps_, log, just_hess=just_hess, boot_theta_adjusts=boot_theta_adjusts)
        except Exception as e:
            # the matrices could not be completed (singular J, ...): record the Hessian alone, which get_godambe computes first
            r['raised'] = type(e).__name__ + ': ' + str(e)[:200]
            try:
                r['H'] = fmat(orig(func_ex_, grid_pts, all_boot, p0_, data_, eps_, log, just_hess=True))
            except Exception as e2:
                r['H_raised'] = type(e2).__name__ + ': ' + str(e2)[:200]
            inner.append(r)
            raise
        if just_hess:
            r['H'] = fmat(out)
        else:
            r['G'] = fmat(out[0]); r['H'] = fmat(out[1]); r['J'] = fmat(out[2]); r['cU'] = fll(out[3])
        inner.append(r)
        return out
    Godambe.get_godambe = spy
    try:
        fn = c['fn']
        nested = c.get('nested')
        if nested is not None:
            nested = as_container([int(t) for t in nested], c.get('nested_as', 'list'), dtype=int)
            if ty.get('nested_kind'):
                nested = T.build(ty['nested_kind'], [int(t) for t in c['nested']])
        adj = c.get('adjusts')
        if adj is not None:
            adj = as_container(adj, c.get('adjusts_as', 'list'))
        if adj is not None and ty.get('adjusts_kind'):
            adj = T.build(ty['adjusts_kind'], c['adjusts'])
        fp = as_container(c['full_params'], c.get('fp_as', 'array')) if c.get('full_params') is not None else None
        if fp is not None and ty.get('fp_kind'):
            fp = T.build(ty['fp_kind'], c['full_params'])
        snap1 = [T.snap(nested), T.snap(adj), T.snap(fp)]
        if fn == 'get_godambe':
            kw = {}
            if adj is not None:
                kw['boot_theta_adjusts'] = adj
            out = Godambe.get_godambe(func_ex, pts, boots, p0, data, eps, log=FLAG(c.get('log', False)),
                                      just_hess=FLAG(c.get('just_hess', False)), **kw)
            rec['val'] = None
        elif fn == 'GIM_uncert':
            kw = {}
            if adj is not None:
                kw['boot_theta_adjusts'] = adj
            u, G, H = Godambe.GIM_uncert(func_ex, pts, boots, p0, data, log=FLAG(c.get('log', False)), multinom=FLAG(c['multinom']),
                                         eps=eps, return_GIM=FLAG(True), **kw)
            u2 = Godambe.GIM_uncert(func_ex, pts, boots, p0, data, log=c.get('log', False), multinom=c['multinom'], eps=eps, **kw) \
                if c.get('also_plain') else None
            rec['val'] = fll(u); rec['ret_G'] = fmat(G); rec['ret_H'] = fmat(H)
            if u2 is not None:
                rec['val_plain'] = fll(u2)
        elif fn == 'FIM_uncert':
            u, H = Godambe.FIM_uncert(func_ex, pts, p0, data, log=FLAG(c.get('log', False)), multinom=FLAG(c['multinom']), eps=eps, return_FIM=FLAG(True))
            rec['val'] = fll(u); rec['ret_H'] = fmat(H)
        elif fn == 'LRT_adjust':
            kw = {}
            if adj is not None:
                kw['boot_theta_adjusts'] = adj
            rec['val'] = [fl(Godambe.LRT_adjust(func_ex, pts, boots, p0, data, nested, multinom=FLAG(c['multinom']), eps=eps, **kw))]
        elif fn == 'Wald_stat':
            a, o = Godambe.Wald_stat(func_ex, pts, boots, p0, data, nested, fp,
                                     multinom=FLAG(c['multinom']), eps=eps, adj_and_org=FLAG(True))
            rec['val'] = [fl(a), fl(o)]
            if c.get('also_plain'):
                rec['val_plain'] = [fl(Godambe.Wald_stat(func_ex, pts, boots, p0, data, nested, fp,
                                                         multinom=c['multinom'], eps=eps))]
        elif fn == 'score_stat':
            a, o = Godambe.score_stat(func_ex, pts, boots, p0, data, nested, multinom=FLAG(c['multinom']), eps=eps, adj_and_org=FLAG(True))
            rec['val'] = [fl(a), fl(o)]
            if c.get('also_plain'):
                rec['val_plain'] = [fl(Godambe.score_stat(func_ex, pts, boots, p0, data, nested, multinom=c['multinom'], eps=eps))]
        else:
            raise ValueError('fn ' + fn)
    except Exception as e:
        import traceback
        rec['error'] = type(e).__name__ + ': ' + str(e)[:300]
        rec['tb'] = traceback.format_exc()[-1500:]
    finally:
        Godambe.get_godambe = orig
    rec['inner'] = inner
    if ty:
        try:
            rec['typed_unchanged'] = bool(snaps() == snap0 and [T.snap(nested), T.snap(adj), T.snap(fp)] == snap1)
        except Exception as e:
            rec['typed_unchanged'] = False
        if ty.get('data_kind') or ty.get('boots_kind'):
            # the bookkeeping below wants the canonical objects
            data = mk(c['data'])
            boots = [mk(b) for b in c.get('boots', [])]
            if c.get('extra_mask'):
                data.mask = np.logical_or(data.mask, m)
                for b in boots:
                    b.mask = np.logical_or(b.mask, m)
    rec['args_unchanged'] = bool([float(t) for t in p0] == p0_list and (nested is None or [int(t) for t in nested] == [int(t) for t in c['nested']])
                                 and (fp is None or [float(t) for t in fp] == [float(t) for t in c['full_params']]))
    p0 = p0_list
    # what the log-likelihood sums over, and the constants of ll
    model0 = func_ex(p0, data.sample_sizes, pts)
    lpb = dadi.Inference.ll_per_bin(model0, data)
    mask = np.ma.getmaskarray(lpb).ravel()
    rec['mask'] = [bool(t) for t in mask]
    rec['boot_masks_equal'] = all(np.array_equal(np.ma.getmaskarray(dadi.Inference.ll_per_bin(model0, dadi.Spectrum(b))).ravel(), mask) for b in boots)
    rec['g_data'] = fll(scipy.special.gammaln(np.asarray(data.data).ravel() + 1.))
    rec['g_boots'] = [fll(scipy.special.gammaln(np.asarray(b.data).ravel() + 1.)) for b in boots]
    rec['ns'] = [int(t) for t in data.sample_sizes]
    rec['theta_opt'] = fl(dadi.Inference.optimal_sfs_scaling(model0, data))
    rec['model0'] = fll(np.asarray(model0.data))
    rec['cache_size'] = len(Godambe.cache)
    return rec


def op_chi2(c):
    rec = {'id': c['id']}
    x = c['x']
    w = tuple(c['weights'])
    if c.get('x_as') == 'array':
        x = np.array(x, dtype=float)
    if c.get('default_weights'):
        r = Godambe.sum_chi2_ppf(x)
    else:
        r = Godambe.sum_chi2_ppf(x, w)
    rec['scalar'] = bool(np.isscalar(r))
    rec['val'] = fll(r)
    return rec


def main():
    cases = json.load(sys.stdin)
    out = []
    for c in cases:
        if not c.get('keep_cache'):
            Godambe.cache.clear()
        try:
            rec = {'hess': op_hess, 'godambe': op_godambe, 'chi2': op_chi2, 'chi2t': T.op_chi2t, 'hesst': T.op_hesst}[c['op']](c)
        except Exception as e:
            import traceback
            rec = {'id': c['id'], 'error': type(e).__name__ + ': ' + str(e)[:300], 'tb': traceback.format_exc()[-1500:]}
        out.append(rec)
    print(json.dumps(out))

main()
