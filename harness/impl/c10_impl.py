"""Runs the REAL dadi population-bookkeeping code (Spectrum.marginalize / filter_pops / reorder_pops /
combine_two_pops / combine_pops / scramble_pop_ids, Misc.combine_pops) on the generated cases and evaluates
the property predicates of C10 on the implementation (totals, labels on the right axes, commutation with
project and fold).  JSON on stdin, JSON on the last stdout line."""
import sys, json, math, warnings, logging, itertools
warnings.filterwarnings('ignore')
import numpy as np
import dadi
logging.disable(logging.CRITICAL)
np.seterr(all='ignore')

EXTRAP_X = 0.125

def build(c, masked=True, folded=None, mask_corners=None):
    shape = c['shape']
    data = np.array(c['data'], dtype=float).reshape(shape)
    if masked:
        mask = np.array(c['mask'], dtype=bool).reshape(shape)
        mc = c['mask_corners'] if mask_corners is None else mask_corners
    else:
        mask = np.zeros(shape, dtype=bool)
        mc = False if mask_corners is None else mask_corners
    how = c['folded'] if folded is None else folded
    if how == 'direct':
        fs = dadi.Spectrum(data, mask=mask, mask_corners=mc, data_folded=True, check_folding=False, pop_ids=c['pop_ids'])
    else:
        fs = dadi.Spectrum(data, mask=mask, mask_corners=mc, pop_ids=c['pop_ids'])
        if how == 'fold':
            fs = fs.fold()
    fs.extrap_x = EXTRAP_X
    return fs

def apply(op, args, fs, mc_override=None):
    if op == 'marg':
        mc = args['mc'] if mc_override is None else mc_override
        return fs.marginalize(list(args['over']), mask_corners=mc)
    if op == 'filter':
        return fs.filter_pops(list(args['keep']))
    if op == 'reorder':
        return fs.reorder_pops(list(args['order']))
    if op == 'combine2':
        return fs.combine_two_pops(list(args['pq']))
    if op == 'combine':
        return fs.combine_pops(list(args['tc']))
    if op == 'misc':
        if args.get('idx') is None:
            return dadi.Misc.combine_pops(fs)
        return dadi.Misc.combine_pops(fs, list(args['idx']))
    if op == 'scramble':
        mc = args['mc'] if mc_override is None else mc_override
        return fs.scramble_pop_ids(mask_corners=mc)
    raise KeyError(op)

def describe(fs):
    data = np.asarray(fs.data, dtype=float).ravel()
    nan = [bool(x != x) for x in data]
    return {'shape': [int(s) for s in fs.shape],
            'data': [0.0 if x != x else float(x) for x in data],
            'nan': nan,
            'inf': bool(np.any(np.isinf(data))),
            'mask': [bool(x) for x in np.ma.getmaskarray(fs).ravel()],
            'pop_ids': None if fs.pop_ids is None else [str(x) for x in fs.pop_ids],
            'folded': bool(fs.folded) if isinstance(fs.folded, (bool, np.bool_)) else str(fs.folded),
            'extrap_x': fs.extrap_x, 'is_spectrum': isinstance(fs, dadi.Spectrum)}

# ---- the explicit index arithmetic, written independently of the code under test -------------------------
def image_index(op, args, d, I):
    """where does entry I of the input go (None for scramble: every entry spreads)"""
    if op == 'marg':
        return tuple(I[k] for k in range(d) if k not in args['over'])
    if op == 'filter':
        keep = set(p - 1 for p in args['keep'])
        return tuple(I[k] for k in range(d) if k in keep)
    if op == 'reorder':
        return tuple(I[p - 1] for p in args['order'])
    if op in ('combine2', 'combine'):
        tc = sorted(p - 1 for p in (args['pq'] if op == 'combine2' else args['tc']))
        out = []
        for k in range(d):
            if k == tc[0]:
                out.append(sum(I[t] for t in tc))
            elif k in tc:
                continue
            else:
                out.append(I[k])
        return tuple(out)
    if op == 'misc':
        idx = args.get('idx') or [0, 1]
        if d == 2:
            return (I[0] + I[1],)
        rest = [k for k in range(3) if k not in idx][0]
        return (I[idx[0]] + I[idx[1]], I[rest])
    return None

def source_axes(op, args, d):
    """for every output axis: the list of input axes whose allele counts it carries"""
    if op == 'marg':
        return [[k] for k in range(d) if k not in args['over']]
    if op == 'filter':
        keep = set(p - 1 for p in args['keep'])
        return [[k] for k in range(d) if k in keep]
    if op == 'reorder':
        return [[p - 1] for p in args['order']]
    if op in ('combine2', 'combine'):
        tc = sorted(p - 1 for p in (args['pq'] if op == 'combine2' else args['tc']))
        return [tc if k == tc[0] else [k] for k in range(d) if k == tc[0] or k not in tc]
    return None

def expected_shape(op, args, shape):
    d = len(shape)
    if op == 'scramble':
        return list(shape)
    if op == 'misc':
        srcs = [[0, 1]] if d == 2 else [list(args.get('idx') or [0, 1]), [k for k in range(3) if k not in (args.get('idx') or [0, 1])]]
    else:
        srcs = source_axes(op, args, d)
    return [sum(shape[a] - 1 for a in axes) + 1 for axes in srcs]

def predicates(c):
    """property predicates on the implementation for an UNFOLDED, UNMASKED copy of the input"""
    op, args = c['op'], c['args']
    d = len(c['shape'])
    P = {}
    fs = build(c, masked=False, folded='no')
    indata = np.asarray(fs.data)
    out = apply(op, args, fs)
    want = expected_shape(op, args, c['shape'])
    if list(out.shape) != want:
        return {'shape': {'got': [int(x) for x in out.shape], 'want': want}}
    # large cases (size regimes) name the parts to evaluate here: the entry loops below are replaced by the exact
    # entry-wise reference of harness/props/c10_sizes.py (which includes totals and labels); commutation stays here
    parts = c.get('pred_parts') or ['total', 'project', 'fold']
    # ---- totals -----------------------------------------------------------------------------------------
    omask = np.ma.getmaskarray(out)
    odata = np.where(omask, 0.0, np.asarray(out.data))
    if 'total' not in parts:
        pass
    elif op == 'scramble':
        out2 = apply(op, args, fs, mc_override=False)
        P['total'] = [float(np.asarray(out2.data).sum()), float(indata.sum()), float(np.abs(indata).sum())]
        P['total_masked_entries'] = int(np.ma.getmaskarray(out2).sum())
    else:
        exp = 0.0
        per_axis_exp = [np.zeros(s) for s in out.shape]
        src = source_axes(op, args, d) if op != 'misc' else None
        for I in np.ndindex(*fs.shape):
            J = image_index(op, args, d, I)
            if omask[J]:
                continue
            exp += indata[I]
            if src is not None:
                for i, axes in enumerate(src):
                    per_axis_exp[i][sum(I[a] for a in axes)] += indata[I]
        P['total'] = [float(odata.sum()), float(exp), float(np.abs(indata).sum())]
        # ---- labels on the right axes: the axis carrying label L has population L's marginal spectrum ----
        if c['pop_ids'] is not None and src is not None:
            ids_in = list(c['pop_ids'])
            ids_out = out.pop_ids
            ok = ids_out is not None and len(ids_out) == out.ndim
            worst = 0.0
            detail = None
            if ok:
                for i, lab in enumerate(ids_out):
                    parts = str(lab).split('+')
                    try:
                        axes = [ids_in.index(p) for p in parts]
                    except ValueError:
                        ok = False; detail = 'label %r not made of input labels' % (lab,); break
                    expm = np.zeros(out.shape[i])
                    if sum(c['shape'][a] - 1 for a in axes) + 1 != out.shape[i]:
                        ok = False; detail = 'axis %d labelled %r has %d entries' % (i, lab, out.shape[i]); break
                    for I in np.ndindex(*fs.shape):
                        J = image_index(op, args, d, I)
                        if omask[J]:
                            continue
                        expm[sum(I[a] for a in axes)] += indata[I]
                    got = odata.sum(axis=tuple(k for k in range(out.ndim) if k != i)) if out.ndim > 1 else odata
                    worst = max(worst, float(np.abs(got - expm).max()))
            P['labels'] = {'ok': bool(ok), 'err': worst, 'scale': float(np.abs(indata).sum()), 'detail': detail,
                           'ids_out': None if ids_out is None else list(ids_out)}
    # ---- commutation with projection (axes whose allele counts are not merged) --------------------------------
    if op != 'scramble' and c.get('proj') is not None and 'project' in parts:
        ns_in = list(c['proj'])          # target sample sizes, one per input axis
        srcs = source_axes(op, args, d) if op != 'misc' else \
            ([[0, 1]] if d == 2 else [list(args.get('idx') or [0, 1]), [k for k in range(3) if k not in (args.get('idx') or [0, 1])]])
        ns_out = []
        for axes in srcs:
            ns_out.append(sum(ns_in[a] for a in axes))
        a1 = apply(op, args, fs.project(ns_in))
        a2 = apply(op, args, fs).project(ns_out)
        P['project'] = compare(a1, a2, indata)
    # ---- commutation with folding -------------------------------------------------------------------------
    if op != 'misc' and 'fold' in parts:
        for mc in ((False, True) if c.get('fold_mcs') is None else [bool(x) for x in c['fold_mcs']]):
            g = build(c, masked=False, folded='no', mask_corners=mc)
            b1 = apply(op, args, g.fold())
            b2 = apply(op, args, g).fold()
            P['fold_mc%d' % int(mc)] = compare(b1, b2, indata)
    return P

def compare(x, y, indata):
    mx, my = np.ma.getmaskarray(x), np.ma.getmaskarray(y)
    if x.shape != y.shape:
        return {'shape_ok': False, 'shapes': [list(x.shape), list(y.shape)]}
    both = ~(mx | my)
    dx, dy = np.asarray(x.data), np.asarray(y.data)
    err = float(np.abs(dx[both] - dy[both]).max()) if both.any() else 0.0
    if err != err:
        err = float('inf')
    return {'shape_ok': True, 'err': err, 'scale': float(max(np.abs(dx[both]).max() if both.any() else 0.0, 1e-300)),
            'mask_equal': bool((mx == my).all()), 'n_compared': int(both.sum()),
            'folded': [x.folded if isinstance(x.folded, str) else bool(x.folded), y.folded if isinstance(y.folded, str) else bool(y.folded)],
            'ids': [None if x.pop_ids is None else list(x.pop_ids), None if y.pop_ids is None else list(y.pop_ids)]}

def main():
    cases = json.load(sys.stdin)
    out = []
    for c in cases:
        rec = {'id': c['id']}
        try:
            fs = build(c)
            rec['input'] = describe(fs)
        except BaseException as e:
            rec['build_error'] = type(e).__name__ + ': ' + str(e)[:200]
            out.append(rec); continue
        try:
            res = apply(c['op'], c['args'], fs)
            if not isinstance(res, np.ndarray):
                raise TypeError('result is not an array: %r' % (type(res),))
            rec['output'] = describe(res)
            rec['same_object'] = res is fs
        except BaseException as e:          # Misc.combine_pops calls exit(-1)
            rec['error'] = type(e).__name__ + ': ' + str(e)[:200]
        if c.get('predicates') and 'error' not in rec:
            try:
                rec['pred'] = predicates(c)
            except BaseException as e:
                import traceback
                rec['pred_error'] = type(e).__name__ + ': ' + str(e)[:200] + ' @ ' + traceback.format_exc()[-400:]
        out.append(rec)
    sys.stdout.write('\n' + json.dumps(out) + '\n')
main()
