"""Runs the REAL dadi code (overlay) on synthetic VCF + popinfo text written by the harness:
Misc.make_data_dict_vcf, count_data_dict, Spectrum.from_data_dict, fragment_data_dict, bootstraps_from_dd_chunks,
Spectrum.S/pi/Watterson_theta/theta_L/Tajima_D/Fst, Misc.make_data_dict (SNP-file format).

The two random sources (numpy.random.choice in subsampling, random.choices in the bootstrap) are wrapped by
recorders that call the real generator and log what it returned; the logs are the oracles of the Coq model."""
import sys, json, os, math, warnings, logging, tempfile, gzip, zipfile, random, shutil
warnings.filterwarnings('ignore')
import numpy as np
import dadi
import dadi.Misc
logging.getLogger('Spectrum_mod').setLevel(logging.ERROR)
np.seterr(all='ignore')

CHOICES = []
_real_choice = np.random.choice
def _rec_choice(a, size=None, replace=True, p=None):
    r = _real_choice(a, size, replace=replace, p=p)
    CHOICES.append({'n': len(a), 'k': int(size), 'pool': [int(x) for x in a], 'idx': [int(x) for x in np.atleast_1d(r)]})
    return r
np.random.choice = _rec_choice

PICKS = []
_real_choices = random.choices
def _rec_choices(population, weights=None, *, cum_weights=None, k=1):
    idx = _real_choices(range(len(population)), weights, cum_weights=cum_weights, k=k)
    PICKS.append({'n': len(population), 'k': k, 'idx': [int(i) for i in idx]})
    return [population[i] for i in idx]
random.choices = _rec_choices

def fin(x):
    x = float(x)
    return x if math.isfinite(x) else None

def dd_out(dd):
    out = []
    for k, v in dd.items():
        out.append({'key': k, 'seg': list(v['segregating']), 'context': v.get('context'),
                    'out': v.get('outgroup_allele'), 'out_context': v.get('outgroup_context'),
                    'calls': [[p, int(c[0]), int(c[1])] for p, c in v['calls'].items()]})
    return out

def fs_out(fs):
    return {'data': [float(t) for t in np.asarray(fs.data).ravel()],
            'mask': [bool(t) for t in np.ma.getmaskarray(fs).ravel()],
            'folded': bool(fs.folded), 'shape': list(fs.shape), 'pop_ids': fs.pop_ids}

def write_text(path, text, how):
    if how == 'gz':
        with gzip.open(path + '.gz', 'wb') as f:
            f.write(text.encode())
        return path + '.gz'
    if how == 'zip':
        with zipfile.ZipFile(path + '.zip', 'w') as z:
            z.writestr(os.path.basename(path), text)
        return path + '.zip'
    with open(path, 'w') as f:
        f.write(text)
    return path

def stats_of(fs, npop):
    st = {}
    def tryf(name, f):
        try:
            st[name] = fin(f())
        except Exception as e:
            st[name] = None; st[name + '_error'] = type(e).__name__
    tryf('S', fs.S)
    if npop == 1:
        tryf('pi', fs.pi); tryf('thetaW', fs.Watterson_theta); tryf('thetaL', fs.theta_L); tryf('D', fs.Tajima_D)
    else:
        tryf('Fst', fs.Fst)
    return st

STAT_METHODS = {'S': 'S', 'pi': 'pi', 'thetaW': 'Watterson_theta', 'D': 'Tajima_D', 'thetaL': 'theta_L', 'E': 'Zengs_E', 'Fst': 'Fst'}

def _state(fs):
    return (np.asarray(fs.data).tobytes(), np.ma.getmaskarray(fs).tobytes(), tuple(fs.shape), bool(fs.folded),
            None if fs.pop_ids is None else list(fs.pop_ids))

def _total(fs):
    t = fs.sum()
    return None if t is np.ma.masked else fin(t)

def _call(fs, name):
    try:
        return fin(getattr(fs, STAT_METHODS[name])()), None
    except Exception as e:
        return None, type(e).__name__ + ': ' + str(e)[:120]

def _after(fs, st0, chunk):
    """the spectrum-level clauses re-evaluated on the object a statistic was just computed from"""
    st = _state(fs)
    rec = {'data_same': st[0] == st0[0], 'mask_same': st[1] == st0[1], 'meta_same': st[2:] == st0[2:], 'total': _total(fs),
           'data_total': fin(np.asarray(fs.data).sum())}
    if not rec['mask_same']:
        rec['mask'] = [bool(t) for t in np.ma.getmaskarray(fs).ravel()]
    if not rec['data_same']:
        rec['data'] = [float(t) for t in np.asarray(fs.data).ravel()]
    if chunk is not None:
        cdata, cmask, ctotal = chunk
        sc = max(1.0, float(np.max(np.abs(cdata))) if cdata.size else 1.0)
        rec['chunk_data_dev'] = float(np.max(np.abs(np.asarray(fs.data) - cdata))) / sc if cdata.size else 0.0
        rec['chunk_mask_same'] = bool(np.array_equal(np.ma.getmaskarray(fs), cmask))
        rec['chunk_total'] = ctotal
    return rec

def stat_sequences(c, dd2, frags, pop_ids):
    """for every (projection kind, mask_corners, polarized): build the spectrum and the sum of the chunk spectra, then evaluate the
    statistics in the order the case prescribes on THAT object, re-evaluating the spectrum-level clauses after every call; and every
    statistic alone on a freshly built object"""
    out = []
    for cfg in c.get('stat_seqs') or []:
        projs = c['full'] if cfg['kind'] == 'full' else c['projections']
        mc, pol = cfg['mask_corners'], cfg['polarized']
        rec = {'kind': cfg['kind'], 'mask_corners': mc, 'polarized': pol}
        out.append(rec)
        try:
            build = lambda d: dadi.Spectrum.from_data_dict(d, pop_ids, projs, mask_corners=mc, polarized=pol)
            fs = build(dd2)
            chunk = None
            if frags:
                cfs = [build(f) for f in frags]
                whole = cfs[0]
                for f in cfs[1:]:
                    whole = whole + f
                chunk = (np.asarray(whole.data).copy(), np.ma.getmaskarray(whole).copy(), _total(whole))
            st0 = _state(fs)
            rec['before'] = _after(fs, st0, chunk)
            rec['fs'] = fs_out(fs)
            calls = []
            for name in cfg['calls']:
                v, err = _call(fs, name)
                a = _after(fs, st0, chunk)
                a.update(name=name, value=v, error=err)
                calls.append(a)
            rec['calls'] = calls
            alone = []
            for name in cfg['alone']:
                g = build(dd2)
                sg = _state(g)
                v, err = _call(g, name)
                a = _after(g, sg, chunk)
                a.update(name=name, value=v, error=err, fresh_same_as_first=sg == st0)
                alone.append(a)
            rec['alone'] = alone
        except Exception as e:
            rec['error'] = type(e).__name__ + ': ' + str(e)[:200]
    return out

def run_case(c, tmp):
    rec = {'id': c['id']}
    del CHOICES[:]; del PICKS[:]
    np.random.seed(c.get('np_seed', 0)); random.seed(c.get('boot_seed', 0))
    vcf = write_text(os.path.join(tmp, 'c%d.vcf' % c['id']), c['vcf_text'], c.get('transport', 'plain'))
    pop = write_text(os.path.join(tmp, 'c%d.popinfo.txt' % c['id']), c['popinfo_text'], c.get('pop_transport', 'plain'))
    kw = {'filter': c['filter']}
    if c.get('subsample') is not None:
        kw['subsample'] = dict(c['subsample'])
        if c.get('seed') is not None:
            kw['seed'] = c['seed']
    try:
        dd = dadi.Misc.make_data_dict_vcf(vcf, pop, **kw)
    except Exception as e:
        if c.get('pop_transport', 'plain') == 'plain':
            rec['dd_error'] = type(e).__name__ + ': ' + str(e)[:200]
            return rec
        # compressed popinfo file could not be read: note it, continue with the plain text file
        rec['pop_transport_error'] = type(e).__name__ + ': ' + str(e)[:200]
        del CHOICES[:]
        np.random.seed(c.get('np_seed', 0))
        pop = write_text(os.path.join(tmp, 'c%d.popinfo.txt' % c['id']), c['popinfo_text'], 'plain')
        try:
            dd = dadi.Misc.make_data_dict_vcf(vcf, pop, **kw)
        except Exception as e:
            rec['dd_error'] = type(e).__name__ + ': ' + str(e)[:200]
            return rec
    rec['dd'] = dd_out(dd)
    rec['choices'] = list(CHOICES)
    pop_ids, projs = c['pop_ids'], c['projections']
    mc = c['mask_corners']
    try:
        cd = dadi.Misc.count_data_dict(dd, pop_ids)
        rec['cd'] = [[[int(x) for x in k[0]], [int(x) for x in k[1]], bool(k[2]), int(v)] for k, v in cd.items()]
    except Exception as e:
        rec['cd_error'] = type(e).__name__ + ': ' + str(e)[:200]
        return rec
    try:
        rec['fs_pol'] = fs_out(dadi.Spectrum.from_data_dict(dd, pop_ids, projs, mask_corners=mc, polarized=True))
        rec['fs_fold'] = fs_out(dadi.Spectrum.from_data_dict(dd, pop_ids, projs, mask_corners=mc, polarized=False))
    except Exception as e:
        rec['fs_error'] = type(e).__name__ + ': ' + str(e)[:200]
        return rec
    # chunks (optionally with '.info' suffixes on some keys)
    ren = dict(c.get('rename') or [])
    dd2 = {ren.get(k, k): v for k, v in dd.items()}
    bp = c['boot_polarized']
    try:
        frags = dadi.Misc.fragment_data_dict(dd2, c['chunk_size'])
        rec['chunks'] = [list(f.keys()) for f in frags]
        rec['chunk_fs'] = [fs_out(dadi.Spectrum.from_data_dict(f, pop_ids, projs, mask_corners=mc, polarized=bp)) for f in frags]
        rec['whole_fs'] = fs_out(dadi.Spectrum.from_data_dict(dd2, pop_ids, projs, mask_corners=mc, polarized=bp))
    except Exception as e:
        rec['chunk_error'] = type(e).__name__ + ': ' + str(e)[:200]
        frags = None
    if frags is not None:
        try:
            random.seed(c.get('boot_seed', 0))
            boots = dadi.Misc.bootstraps_from_dd_chunks(frags, c['nboot'], pop_ids, projs, mc, bp)
            rec['boots'] = [fs_out(b) for b in boots]
        except Exception as e:
            rec['boots_error'] = type(e).__name__ + ': ' + str(e)[:200]
        finally:
            rec['picks'] = list(PICKS)
    # the statistics must leave the spectrum they are computed from as it was
    if c.get('stat_seqs'):
        rec['stat_seqs'] = stat_sequences(c, dd2, frags, pop_ids)
    # statistics on the full-size spectrum
    try:
        full = c['full']
        fsu = dadi.Spectrum.from_data_dict(dd, pop_ids, full, mask_corners=True, polarized=True)
        fsf = dadi.Spectrum.from_data_dict(dd, pop_ids, full, mask_corners=True, polarized=False)
        rec['stat_fs'] = fs_out(fsu); rec['stat_fs_fold'] = fs_out(fsf)
        rec['stats'] = stats_of(fsu, len(pop_ids)); rec['stats_fold'] = stats_of(fsf, len(pop_ids))
    except Exception as e:
        rec['stat_error'] = type(e).__name__ + ': ' + str(e)[:200]
    # the SNP-file format of the same data (Misc.make_data_dict): its spectrum must be the same spectrum
    if c.get('snp_text'):
        try:
            p2 = write_text(os.path.join(tmp, 'c%d.snps.txt' % c['id']), c['snp_text'], c.get('snp_transport', 'plain'))
            try:
                dds = dadi.Misc.make_data_dict(p2)
            except Exception as e:
                if c.get('snp_transport', 'plain') == 'plain':
                    raise
                rec['snp_transport_error'] = type(e).__name__ + ': ' + str(e)[:200]
                dds = dadi.Misc.make_data_dict(write_text(os.path.join(tmp, 'c%d.snps.txt' % c['id']), c['snp_text'], 'plain'))
            rec['snp_dd'] = dd_out(dds)
            rec['snp_fs_pol'] = fs_out(dadi.Spectrum.from_data_dict(dds, pop_ids, projs, mask_corners=mc, polarized=True))
            rec['snp_fs_fold'] = fs_out(dadi.Spectrum.from_data_dict(dds, pop_ids, projs, mask_corners=mc, polarized=False))
        except Exception as e:
            rec['snp_error'] = type(e).__name__ + ': ' + str(e)[:200]
    return rec

def main():
    cases = json.load(sys.stdin)
    tmp = tempfile.mkdtemp(prefix='c13_')
    out = []
    try:
        for c in cases:
            try:
                out.append(run_case(c, tmp))
            except Exception as e:
                out.append({'id': c['id'], 'driver_error': type(e).__name__ + ': ' + str(e)[:300]})
    finally:
        shutil.rmtree(tmp, ignore_errors=True)
    print(json.dumps(out))
main()
