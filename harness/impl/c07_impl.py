"""Runs dadi.Numerics.make_extrap_func / make_extrap_log_func on the generated cases (real code, overlay)."""
import sys, json, warnings, logging
warnings.filterwarnings('ignore')
import numpy as np
import dadi
logging.getLogger('Numerics').setLevel(logging.ERROR)
np.seterr(all='ignore')

def main():
    cases = json.load(sys.stdin)
    out = []
    for c in cases:
        xs = c['xs']; pts_l = c['pts']           # pts_l[i] -> xs[i]
        xmap = dict(zip(pts_l, xs))
        coefs = c['coefs']                       # per entry, lowest degree first
        over = c.get('ys_override')              # per entry list of k values or None
        shape = c.get('shape')
        rec = {'id': c['id']}
        calls = []
        def model(a, b, pts, scale=1.0):
            x = xmap[pts]
            vals = []
            for e, cs in enumerate(coefs):
                if over and over[e] is not None:
                    v = over[e][pts_l.index(pts)]
                else:
                    v = 0.0
                    for cc in reversed(cs):
                        v = v * x + cc
                    if c['log']:
                        v = float(np.exp(v))
                vals.append(v * scale * (a + b) / (a + b))
            arr = np.array(vals, dtype=float)
            calls.append((pts, [float(t) for t in arr]))
            if c['mode'] == 'scalar':
                return arr[0]
            if c['mode'] == 'spectrum':
                arr = arr.reshape(shape)
                fs = dadi.Spectrum(arr, mask_corners=c.get('mask_corners', True), pop_ids=c.get('pop_ids'))
                # what the result itself carries: the spacing (default), a DIFFERENT value (an explicit extrap_x_l must win), or None
                ax = c.get('attr_x', 'same')
                fs.extrap_x = x if ax == 'same' else (None if ax == 'none' else 0.5 / pts + 0.01)
                return fs
            return arr
        try:
            xl = None if c['x_from'] == 'attr' else list(xs)
            if c['log'] and c.get('via_log_func', False):
                f = dadi.Numerics.make_extrap_log_func(model, extrap_x_l=xl)
            else:
                kw = {}
                if c['fail_mag'] != 10:
                    kw['fail_mag'] = c['fail_mag']
                f = dadi.Numerics.make_extrap_func(model, extrap_x_l=xl, extrap_log=c['log'], **kw)
            p = pts_l if len(pts_l) > 1 or not c.get('scalar_pts') else pts_l[0]
            if c['pts_passing'] == 'kw':
                res = f(1.5, 2.5, pts=p)
            else:
                res = f(1.5, 2.5, p)
            ys = {}
            for pts, vals in calls:
                ys[pts] = vals
            rec['ys'] = [[ys[p][e] for p in pts_l] for e in range(len(coefs))]
            if c['mode'] == 'spectrum':
                rec['pop_ids'] = getattr(res, 'pop_ids', None)
                rec['is_spectrum'] = isinstance(res, dadi.Spectrum)
                rec['mask'] = [bool(t) for t in np.ma.getmaskarray(res).ravel()]
                rec['res'] = [float(t) for t in np.asarray(res.data).ravel()]
                rec['shape'] = list(res.shape)
            elif c['mode'] == 'scalar':
                rec['res'] = [float(res)]
            else:
                rec['res'] = [float(t) for t in np.asarray(res).ravel()]
            rec['name'] = f.__name__
        except Exception as e:
            rec['error'] = type(e).__name__ + ': ' + str(e)[:200]
        out.append(rec)
    print(json.dumps(out))
main()
