"""Runs dadi.Numerics.make_extrap_func / make_extrap_log_func on the generated cases (real code, overlay).

Every case wraps its model ONCE (twice when one x list is shared between two wrapped functions) and then calls the wrapped
function(s) several times, as an optimiser does.  Per call the driver records what the model returned for every grid size
(in the order of that call's pts list), the result, whether every object the caller handed over (extrap_x_l, every pts list)
is still bit-identical to what it was before the first call, and which buffers the result shares with arrays returned by the
model or with earlier results.  After recording, the result and the model's arrays of that call are overwritten with a
sentinel, so that anything a wrapper kept by reference shows up in the following calls.
"""
import sys, json, warnings, logging
warnings.filterwarnings('ignore')
import numpy as np
import dadi
logging.getLogger('Numerics').setLevel(logging.ERROR)
np.seterr(all='ignore')

SENTINEL = -12345.6789

def snap(o):
    """bit-exact description of an argument object"""
    if isinstance(o, np.ndarray):
        return ['ndarray', str(o.dtype), list(o.shape), o.tobytes().hex()]
    if isinstance(o, (list, tuple)):
        return [type(o).__name__, [[type(e).__name__, float(e).hex()] for e in o]]
    return [type(o).__name__, repr(o)]

def make_obj(vals, kind, integer=False):
    if kind == 'tuple':
        return tuple(vals)
    if kind == 'ndarray':
        return np.array(vals, dtype=int if integer else float)
    if kind == 'scalar':
        return vals[0]
    return list(vals)

def make_fm(kind, value):
    """fail_mag in the python-level type the case names (edge-value stream): the same number, written differently"""
    from fractions import Fraction
    if kind == 'int': return int(value)
    if kind == 'float': return float(value)
    if kind == 'neg_zero': return -0.0
    if kind == 'bool': return bool(value)
    if kind == 'np_bool': return np.bool_(bool(value))
    if kind == 'np_float64': return np.float64(value)
    if kind == 'np_float32': return np.float32(value)
    if kind == 'np_int64': return np.int64(value)
    if kind == 'np_int32': return np.int32(value)
    if kind == '0d_float': return np.array(float(value))
    if kind == '0d_int': return np.array(int(value))
    if kind == 'fraction': return Fraction(value)
    if kind == 'inf': return float('inf')
    if kind == 'np_inf': return np.float64('inf')
    raise ValueError('unknown fail_mag kind %r' % kind)

def buffers(o):
    """the numpy buffers of a result / model value: data and (for masked arrays) mask"""
    out = []
    if isinstance(o, np.ma.MaskedArray):
        out.append(('data', o.data))
        m = np.ma.getmask(o)
        if m is not np.ma.nomask:
            out.append(('mask', m))
    elif isinstance(o, np.ndarray):
        out.append(('data', o))
    return out

def run_case(c):
    k = c['k']
    grid_pts = c.get('grid_pts') or c['pts']
    grid_x = c.get('grid_x') or c['xs']
    xmap = dict(zip(grid_pts, grid_x))
    shape = c.get('shape')
    coefs_by_fn = [c['coefs']] + ([c['coefs2']] if c.get('coefs2') else [])
    over = c.get('ys_override')              # per entry list of k values (aligned with the first k grid sizes) or None
    calls = c.get('calls')
    if calls is None:                        # replay files written before the multi-call format: one call
        p = c['pts']
        calls = [{'fn': 0, 'passing': c.get('pts_passing', 'pos'), 'pts': p, 'args': [1.5, 2.5],
                  'pts_kind': 'scalar' if (len(p) == 1 and c.get('scalar_pts')) else 'list'}]
    rec = {'id': c['id'], 'calls': []}
    trace = []                               # (pts, values, returned object) of the model evaluations of the current call

    def make_model(coefs):
        def model(a, b, pts, scale=1.0):
            pts = int(pts)
            x = xmap[pts]
            factor = (a + b) / 4.0
            vals = []
            for e, cs in enumerate(coefs):
                if over and over[e] is not None:
                    v = over[e][grid_pts.index(pts) % k]
                else:
                    v = 0.0
                    for cc in reversed(cs):
                        v = v * x + cc
                    if c['log']:
                        v = float(np.exp(v))
                vals.append(v * scale * factor)
            arr = np.array(vals, dtype=float)
            vals = [float(t) for t in arr]
            if c['mode'] == 'scalar':
                trace.append((pts, vals, None))
                return arr[0]
            if c['mode'] == 'spectrum':
                arr = arr.reshape(shape)
                pid = c.get('pop_ids')
                fs = dadi.Spectrum(arr, mask_corners=c.get('mask_corners', True), pop_ids=list(pid) if pid is not None else None)
                # what the result itself carries: the spacing (default), a DIFFERENT value (an explicit extrap_x_l must win), or None
                ax = c.get('attr_x', 'same')
                fs.extrap_x = x if ax == 'same' else (None if ax == 'none' else 0.5 / pts + 0.01)
                trace.append((pts, vals, fs))
                return fs
            trace.append((pts, vals, arr))
            return arr
        model.__name__ = 'model'
        return model

    # ---- wrap ONCE
    try:
        xl = None if c['x_from'] == 'attr' else make_obj(c['xs'], c.get('xl_kind', 'list'))
        xl_before = snap(xl) if xl is not None else None
        funcs = []
        for coefs in coefs_by_fn:            # two wrapped functions share the very same extrap_x_l object
            model = make_model(coefs)
            if c['log'] and c.get('via_log_func', False):
                f = dadi.Numerics.make_extrap_log_func(model, extrap_x_l=xl)
            else:
                kw = {}
                if c.get('fm_kind'):
                    kw['fail_mag'] = make_fm(c['fm_kind'], c['fail_mag'])
                elif c['fail_mag'] != 10:
                    kw['fail_mag'] = c['fail_mag']
                f = dadi.Numerics.make_extrap_func(model, extrap_x_l=xl, extrap_log=c['log'], **kw)
            funcs.append(f)
        rec['name'] = funcs[0].__name__
    except Exception as e:
        rec['error'] = type(e).__name__ + ': ' + str(e)[:200]
        return rec

    pts_objs = {}                            # the caller's pts lists: one object per (grid sizes, kind), re-used for every call
    keep = []                                # earlier results and model arrays stay alive (no address re-use)
    for call in calls:
        out = {}
        del trace[:]
        key = (tuple(call['pts']), call.get('pts_kind', 'list'))
        if key not in pts_objs:
            o = make_obj(call['pts'], key[1], integer=True)
            pts_objs[key] = (o, snap(o))
        p = pts_objs[key][0]
        a, b_ = call.get('args', [1.5, 2.5])
        f = funcs[call.get('fn', 0)]
        try:
            if call['passing'] == 'kw':
                res = f(a, b_, pts=p)
            else:
                res = f(a, b_, p)
            ys = {}
            for pts, vals, _ in trace:
                ys[pts] = vals
            out['evaluated'] = [t[0] for t in trace]
            if all(int(q) in ys for q in call['pts']):
                out['ys'] = [[ys[int(q)][e] for q in call['pts']] for e in range(len(coefs_by_fn[0]))]
            else:
                out['ys'] = None                 # the wrapped function did not evaluate the model on every grid size it was given
            if c['mode'] == 'spectrum':
                out['pop_ids'] = getattr(res, 'pop_ids', None)
                out['is_spectrum'] = isinstance(res, dadi.Spectrum)
                out['mask'] = [bool(t) for t in np.ma.getmaskarray(res).ravel()]
                out['res'] = [float(t) for t in np.asarray(res.data).ravel()]
                out['shape'] = list(res.shape)
            elif c['mode'] == 'scalar':
                out['res'] = [float(res)]
            else:
                out['res'] = [float(t) for t in np.asarray(res).ravel()]
            # ---- aliasing: result buffers against the model's arrays of this call, everything kept from earlier calls, the arguments
            alias = []
            rb = buffers(res)
            for nm, buf in rb:
                for pts, _, obj in trace:
                    for nm2, buf2 in buffers(obj):
                        if np.shares_memory(buf, buf2):
                            alias.append('result.%s shares memory with the model\'s %s for pts=%d of this call' % (nm, nm2, pts))
                for j, obj in keep:
                    for nm2, buf2 in buffers(obj):
                        if np.shares_memory(buf, buf2):
                            alias.append('result.%s shares memory with %s of call %d' % (nm, nm2, j))
                for o in [xl] + [t[0] for t in pts_objs.values()]:
                    if isinstance(o, np.ndarray) and np.shares_memory(buf, o):
                        alias.append('result.%s shares memory with an argument array' % nm)
            out['alias'] = alias
            # ---- the arrays the model returned are the model's (it may hand out cached spectra): still what it returned?
            changed = []
            for pts, vals, obj in trace:
                if obj is not None:
                    cur = [float(t) for t in np.asarray(obj.data if isinstance(obj, np.ma.MaskedArray) else obj).ravel()]
                    if cur != vals:
                        changed.append([pts, vals, cur])
            out['model_arrays_changed'] = changed
            # ---- leave nothing usable behind
            j = len(rec['calls'])
            for nm, buf in rb:
                if nm == 'data' and buf.flags.writeable:
                    buf[...] = SENTINEL
            for pts, _, obj in trace:
                for nm2, buf2 in buffers(obj):
                    if nm2 == 'data' and buf2.flags.writeable:
                        buf2[...] = SENTINEL
                keep.append((j, obj))
            keep.append((j, res))
        except Exception as e:
            out['error'] = type(e).__name__ + ': ' + str(e)[:200]
        # ---- argument-freezing predicate, after every call
        out['xl_frozen'] = (xl is None) or snap(xl) == xl_before
        if not out['xl_frozen']:
            out['xl_now'] = snap(xl)
        bad = [list(kk[0]) for kk, (o, s0) in pts_objs.items() if snap(o) != s0]
        out['pts_frozen'] = not bad
        if bad:
            out['pts_changed'] = [[list(kk[0]), snap(o)] for kk, (o, s0) in pts_objs.items() if snap(o) != s0]
        rec['calls'].append(out)
    return rec

def main():
    cases = json.load(sys.stdin)
    print(json.dumps([run_case(c) for c in cases]))
main()
