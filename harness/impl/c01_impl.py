"""Runs the real one-population code of dadi (overlay build) on generated cases.
kinds: 'dens'  PhiManip.phi_1D on a grid
       'hist'  a size history through Integration.one_pop / Demographics1D / DFE.DemogSelModels, wrapped by
               Numerics.make_extrap_func / make_extrap_log_func, at several Integration.timescale_factor values
       'stat'  stationarity: phi_1D(...) integrated further by one_pop with the same parameters
"""
import sys, json, math, warnings, logging, os
warnings.filterwarnings('ignore')
import numpy as np
np.seterr(all='ignore')
import dadi
from dadi import Integration, PhiManip, Numerics, Demographics1D
from dadi.DFE import DemogSelModels
logging.getLogger('Numerics').setLevel(logging.ERROR)

def fl(a):
    return [float(t) for t in np.asarray(a, dtype=float).ravel()]

def grid_of(c):
    if 'xx' in c:
        return np.array(c['xx'], dtype=float)
    return Numerics.default_grid(c['pts'])

def dens(c):
    xx = grid_of(c)
    kw = dict(nu=c['nu'], theta0=c['theta0'], gamma=c['gamma'], h=c['h'], beta=c['beta'])
    with warnings.catch_warnings(record=True) as wl:
        warnings.simplefilter('always')
        if c.get('via') == 'genic':
            kw.pop('h')
            phi = PhiManip.phi_1D_genic(xx, **kw)
        elif c.get('via') == 'snm':
            phi = PhiManip.phi_1D_snm(xx, nu=c['nu'], theta0=c['theta0'], beta=c['beta'])
        else:
            phi = PhiManip.phi_1D(xx, **kw)
    nlimit = sum(1 for w in wl if 'maximum number of subdivisions' in str(w.message))
    warnings.filterwarnings('ignore')
    phi = np.asarray(phi, dtype=float)
    return {'xx': fl(xx), 'phi': [float(t) if math.isfinite(t) else repr(float(t)) for t in phi], 'quad_limit_warnings': nlimit}

def nu_arg(e, as_func):
    """e: epoch dict (oldest-first history); forward time t in [0, T]"""
    if e['kind'] == 'exp':
        a, b, T = e['nu_start'], e['nu_end'], e['T']
        return lambda t: a * math.exp(math.log(b / a) * t / T)
    if as_func:
        return lambda t, v=e['nu']: v
    return e['nu']

def generic_model(params, ns, pts):
    hist, as_func, theta0 = params
    xx = Numerics.default_grid(pts)
    phi = PhiManip.phi_1D(xx, theta0=theta0)
    for e in hist:
        if as_func and e['kind'] == 'const':
            phi = Integration.one_pop(phi, xx, e['T'], nu=nu_arg(e, True), theta0=(lambda t: theta0))
        else:
            phi = Integration.one_pop(phi, xx, e['T'], nu=nu_arg(e, as_func), theta0=theta0)
    return dadi.Spectrum.from_phi(phi, ns, (xx,))

LIB = {'snm': Demographics1D.snm, 'two_epoch': Demographics1D.two_epoch, 'growth': Demographics1D.growth,
       'bottlegrowth': Demographics1D.bottlegrowth, 'three_epoch': Demographics1D.three_epoch,
       'equil': DemogSelModels.equil, 'two_epoch_sel': DemogSelModels.two_epoch_sel}

def hist(c):
    via = c['via']
    if via in LIB:
        func = LIB[via]; params = c['params']
    else:
        func = generic_model; params = (c['hist'], via == 'func', c.get('theta0', 1.0))
    f = Numerics.make_extrap_log_func(func) if c['extrap'] == 'log' else Numerics.make_extrap_func(func)
    out = {}
    for tf in c['tfs']:
        Integration.timescale_factor = tf
        fs = f(params, (c['n'],), c['pts_l'])
        out[repr(tf)] = fl(np.asarray(fs.data))
    Integration.timescale_factor = 1e-3
    return {'fs': out}

def stat(c):
    """phi_1D(nu, theta0, gamma, h, beta) on default_grid(pts), integrated for T with the same parameters;
    returns the spectra (n samples) before and after for every pts, plus the same for the density built with
    selection strength gamma instead of gamma*nu ('prefix': phi_1D(nu=1, theta0*nu, gamma))."""
    res = {}
    Integration.timescale_factor = c.get('tf', 1e-3)
    for pts in c['pts_l']:
        xx = Numerics.default_grid(pts)
        kw = dict(gamma=c['gamma'], h=c['h'], beta=c['beta'])
        rec = {}
        for name, phi0 in (('cur', PhiManip.phi_1D(xx, nu=c['nu'], theta0=c['theta0'], **kw)),
                           ('prefix', PhiManip.phi_1D(xx, nu=1.0, theta0=c['theta0'] * c['nu'], **kw))):
            if name == 'prefix' and not c.get('with_prefix'):
                continue
            phi1 = Integration.one_pop(phi0, xx, c['T'], nu=c['nu'], theta0=c['theta0'], **kw)
            f0 = dadi.Spectrum.from_phi(phi0, (c['n'],), (xx,))
            f1 = dadi.Spectrum.from_phi(phi1, (c['n'],), (xx,))
            rec[name] = {'before': fl(f0.data), 'after': fl(f1.data),
                         'finite': bool(np.all(np.isfinite(phi0)) and np.all(np.isfinite(phi1))),
                         'minphi': float(np.min(phi0))}
        res[str(pts)] = rec
    Integration.timescale_factor = 1e-3
    return res

def drv(c):
    """a few steps of Integration.one_pop on an arbitrary density (constants / functions of time), for the
    entry-by-entry comparison with the scheme model (Model/Scheme.v, Model/NDSweep.v)"""
    Integration.timescale_factor = c['tf']
    xx = np.array(c['grid'], dtype=float)
    phi = np.array(c['phi'], dtype=float)
    p = c['pops'][0]
    fn = c['as_func']
    def par(v, s=0.0):
        if fn is None:
            return v
        if fn == 'const':
            return (lambda t, v=v: v)
        return (lambda t, v=v, s=s: v + s * t)
    res = Integration.one_pop(phi, xx, c['T'], nu=par(p['nu'], p.get('nu_slope', 0.0)), gamma=par(p['gamma']), h=par(p['h']),
                              theta0=par(c['theta0'], c.get('theta_slope', 0.0)), beta=par(p['beta']))
    Integration.timescale_factor = 1e-3
    return {'res': fl(res)}

def snmfix(c):
    """the neutral equilibrium density integrated further by one_pop with the same nu, theta0, beta: Proofs/SnmStationary.v
    proves that the interior entries are reproduced EXACTLY (any grid from 0 to 1, any time step)"""
    Integration.timescale_factor = c['tf']
    xx = np.array(c['grid'], dtype=float) if 'grid' in c else Numerics.default_grid(c['pts'])
    nu, th, beta = c['nu'], c['theta0'], c['beta']
    phi = PhiManip.phi_1D(xx, nu=nu, theta0=th, beta=beta) if c['via'] == 'phi_1D' else PhiManip.phi_1D_snm(xx, nu=nu, theta0=th, beta=beta)
    phi = np.asarray(phi, dtype=float)
    fn = c['as_func']
    def par(v):
        return (lambda t, v=v: v) if fn else v
    out = Integration.one_pop(phi.copy(), xx, c['T'], nu=par(nu), theta0=par(th), beta=par(beta), gamma=par(0.0) if c.get('gamma_arg') else 0, h=c.get('h', 0.5))
    Integration.timescale_factor = 1e-3
    return {'before': fl(phi), 'after': fl(out), 'xx': fl(xx)}

def one(c):
    rec = {'id': c['id']}
    try:
        rec.update({'dens': dens, 'hist': hist, 'stat': stat, 'drv': drv, 'snmfix': snmfix}[c['kind']](c))
    except Exception as e:
        rec['error'] = type(e).__name__ + ': ' + str(e)[:300]
    return rec

def main():
    cases = json.load(sys.stdin)
    heavy = [c for c in cases if c['kind'] not in ('dens', 'drv', 'snmfix')]
    light = [c for c in cases if c['kind'] in ('dens', 'drv', 'snmfix')]
    out = [one(c) for c in light]
    if len(heavy) > 3:
        import multiprocessing as mp
        with mp.get_context('fork').Pool(min(6, len(heavy))) as pool:
            out += pool.map(one, heavy, chunksize=1)
    else:
        out += [one(c) for c in heavy]
    print(json.dumps(out))
main()
