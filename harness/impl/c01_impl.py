"""Runs the real one-population code of dadi (overlay build) on generated cases.
kinds: 'dens'  PhiManip.phi_1D on a grid
       'hist'  a size history through Integration.one_pop / Demographics1D / DFE.DemogSelModels, wrapped by
               Numerics.make_extrap_func / make_extrap_log_func, at several Integration.timescale_factor values
       'stat'  stationarity: phi_1D(...) integrated further by one_pop with the same parameters
       'histx' a history given as ABSOLUTE-time functions nu(t), theta0(t), gamma(t), integrated by one call or by chained
               calls with initial_t = start and T = end of each piece, optionally with a shifted time origin
       'drv1'  a few steps of one_pop with every argument of its signature (initial_t, frozen, deme_ids, each parameter
               as a number / constant function / linear function of time)
       'chain' one call over [t0, T] against two calls split at a step boundary of the single call
"""
import sys, json, math, warnings, logging, os
warnings.filterwarnings('ignore')
import numpy as np
np.seterr(all='ignore')
import dadi
from dadi import Integration, PhiManip, Numerics, Demographics1D
from dadi.DFE import DemogSelModels
logging.getLogger('Numerics').setLevel(logging.ERROR)

def fl(a):
    return [float(t) for t in np.asarray(a, dtype=float).ravel()]

def grid_of(c):
    if 'xx' in c:
        return np.array(c['xx'], dtype=float)
    return Numerics.default_grid(c['pts'])

def dens(c):
    xx = grid_of(c)
    kw = dict(nu=c['nu'], theta0=c['theta0'], gamma=c['gamma'], h=c['h'], beta=c['beta'])
    with warnings.catch_warnings(record=True) as wl:
        warnings.simplefilter('always')
        if c.get('via') == 'genic':
            kw.pop('h')
            phi = PhiManip.phi_1D_genic(xx, **kw)
        elif c.get('via') == 'snm':
            phi = PhiManip.phi_1D_snm(xx, nu=c['nu'], theta0=c['theta0'], beta=c['beta'])
        else:
            phi = PhiManip.phi_1D(xx, **kw)
    nlimit = sum(1 for w in wl if 'maximum number of subdivisions' in str(w.message))
    warnings.filterwarnings('ignore')
    phi = np.asarray(phi, dtype=float)
    return {'xx': fl(xx), 'phi': [float(t) if math.isfinite(t) else repr(float(t)) for t in phi], 'quad_limit_warnings': nlimit}

def nu_arg(e, as_func):
    """e: epoch dict (oldest-first history); forward time t in [0, T]"""
    if e['kind'] == 'exp':
        a, b, T = e['nu_start'], e['nu_end'], e['T']
        return lambda t: a * math.exp(math.log(b / a) * t / T)
    if as_func:
        return lambda t, v=e['nu']: v
    return e['nu']

def generic_model(params, ns, pts):
    hist, as_func, theta0 = params
    xx = Numerics.default_grid(pts)
    phi = PhiManip.phi_1D(xx, theta0=theta0)
    for e in hist:
        if as_func and e['kind'] == 'const':
            phi = Integration.one_pop(phi, xx, e['T'], nu=nu_arg(e, True), theta0=(lambda t: theta0))
        else:
            phi = Integration.one_pop(phi, xx, e['T'], nu=nu_arg(e, as_func), theta0=theta0)
    return dadi.Spectrum.from_phi(phi, ns, (xx,))

LIB = {'snm': Demographics1D.snm, 'two_epoch': Demographics1D.two_epoch, 'growth': Demographics1D.growth,
       'bottlegrowth': Demographics1D.bottlegrowth, 'three_epoch': Demographics1D.three_epoch,
       'equil': DemogSelModels.equil, 'two_epoch_sel': DemogSelModels.two_epoch_sel}

def hist(c):
    via = c['via']
    if via in LIB:
        func = LIB[via]; params = c['params']
    else:
        func = generic_model; params = (c['hist'], via == 'func', c.get('theta0', 1.0))
    f = Numerics.make_extrap_log_func(func) if c['extrap'] == 'log' else Numerics.make_extrap_func(func)
    out = {}
    for tf in c['tfs']:
        Integration.timescale_factor = tf
        fs = f(params, (c['n'],), c['pts_l'])
        out[repr(tf)] = fl(np.asarray(fs.data))
    Integration.timescale_factor = 1e-3
    return {'fs': out}

def stat(c):
    """phi_1D(nu, theta0, gamma, h, beta) on default_grid(pts), integrated for T with the same parameters;
    returns the spectra (n samples) before and after for every pts, plus the same for the density built with
    selection strength gamma instead of gamma*nu ('prefix': phi_1D(nu=1, theta0*nu, gamma))."""
    res = {}
    Integration.timescale_factor = c.get('tf', 1e-3)
    for pts in c['pts_l']:
        xx = Numerics.default_grid(pts)
        kw = dict(gamma=c['gamma'], h=c['h'], beta=c['beta'])
        rec = {}
        for name, phi0 in (('cur', PhiManip.phi_1D(xx, nu=c['nu'], theta0=c['theta0'], **kw)),
                           ('prefix', PhiManip.phi_1D(xx, nu=1.0, theta0=c['theta0'] * c['nu'], **kw))):
            if name == 'prefix' and not c.get('with_prefix'):
                continue
            phi1 = Integration.one_pop(phi0, xx, c['T'], nu=c['nu'], theta0=c['theta0'], **kw)
            f0 = dadi.Spectrum.from_phi(phi0, (c['n'],), (xx,))
            f1 = dadi.Spectrum.from_phi(phi1, (c['n'],), (xx,))
            rec[name] = {'before': fl(f0.data), 'after': fl(f1.data),
                         'finite': bool(np.all(np.isfinite(phi0)) and np.all(np.isfinite(phi1))),
                         'minphi': float(np.min(phi0))}
        res[str(pts)] = rec
    Integration.timescale_factor = 1e-3
    return res

def drv(c):
    """a few steps of Integration.one_pop on an arbitrary density (constants / functions of time), for the
    entry-by-entry comparison with the scheme model (Model/Scheme.v, Model/NDSweep.v)"""
    Integration.timescale_factor = c['tf']
    xx = np.array(c['grid'], dtype=float)
    phi = np.array(c['phi'], dtype=float)
    p = c['pops'][0]
    fn = c['as_func']
    def par(v, s=0.0):
        if fn is None:
            return v
        if fn == 'const':
            return (lambda t, v=v: v)
        return (lambda t, v=v, s=s: v + s * t)
    res = Integration.one_pop(phi, xx, c['T'], nu=par(p['nu'], p.get('nu_slope', 0.0)), gamma=par(p['gamma']), h=par(p['h']),
                              theta0=par(c['theta0'], c.get('theta_slope', 0.0)), beta=par(p['beta']))
    Integration.timescale_factor = 1e-3
    return {'res': fl(res)}

def snmfix(c):
    """the neutral equilibrium density integrated further by one_pop with the same nu, theta0, beta: Proofs/SnmStationary.v
    proves that the interior entries are reproduced EXACTLY (any grid from 0 to 1, any time step)"""
    Integration.timescale_factor = c['tf']
    xx = np.array(c['grid'], dtype=float) if 'grid' in c else Numerics.default_grid(c['pts'])
    nu, th, beta = c['nu'], c['theta0'], c['beta']
    phi = PhiManip.phi_1D(xx, nu=nu, theta0=th, beta=beta) if c['via'] == 'phi_1D' else PhiManip.phi_1D_snm(xx, nu=nu, theta0=th, beta=beta)
    phi = np.asarray(phi, dtype=float)
    fn = c['as_func']
    def par(v):
        return (lambda t, v=v: v) if fn else v
    out = Integration.one_pop(phi.copy(), xx, c['T'], nu=par(nu), theta0=par(th), beta=par(beta), gamma=par(0.0) if c.get('gamma_arg') else 0, h=c.get('h', 0.5))
    Integration.timescale_factor = 1e-3
    return {'before': fl(phi), 'after': fl(out), 'xx': fl(xx)}

# ------------------------------------------------------------------------------------------------
# histories with ABSOLUTE-time parameter functions, integrated by one or several calls with initial_t / T

class AbsFuncs:
    """parameter functions of absolute time for a history given as epochs (oldest first, the first one starting at
    time 0): nu (piecewise constant / exponential), theta0 and gamma (piecewise constant).  Epoch i is in force on
    (edge_{i-1}, edge_i] (an implicit step ending at an edge uses the parameters of the epoch that ends there); the
    comparison leaves 1e-9 of the total length so that float rounding of current_t + this_dt never decides the epoch.
    Outside [0, Ttot] - where an integration over [0, Ttot] never looks - the functions return the 'outside' values."""
    def __init__(self, c):
        self.eps = c['epochs']
        self.edges = [float(v) for v in np.cumsum([e['T'] for e in self.eps])]
        self.starts = [0.0] + self.edges[:-1]
        self.tol = 1e-9 * self.edges[-1]
        self.outside = c['outside']
        self.shift = float(c.get('shift', 0.0))
        self.evaluated = []
    def idx(self, t):
        if t < -self.tol or t > self.edges[-1] + self.tol:
            return None
        for i, e in enumerate(self.edges):
            if t <= e + self.tol:
                return i
    def nu_abs(self, t):
        i = self.idx(t)
        if i is None:
            return self.outside['nu']
        e = self.eps[i]
        if e['kind'] == 'exp':
            return e['nu_start'] * math.exp(math.log(e['nu_end'] / e['nu_start']) * (t - self.starts[i]) / e['T'])
        return e['nu']
    def theta_abs(self, t):
        i = self.idx(t)
        return self.outside['theta'] if i is None else self.eps[i]['theta']
    def gamma_abs(self, t):
        i = self.idx(t)
        return self.outside['gamma'] if i is None else self.eps[i]['gamma']
    def arg(self, name, as_func, a, b):
        """the argument passed for one call over the absolute interval (a, b] (both already without the shift)"""
        f = {'nu': self.nu_abs, 'theta0': self.theta_abs, 'gamma': self.gamma_abs}[name]
        if name in as_func:
            s = self.shift
            return (lambda t: f(t - s))
        # a plain number: only legitimate when the parameter does not change inside this call
        ia, ib = self.idx(a + 2 * self.tol), self.idx(b)
        key = {'nu': 'nu', 'theta0': 'theta', 'gamma': 'gamma'}[name]
        vals = set()
        for i in range(ia, ib + 1):
            if name == 'nu' and self.eps[i]['kind'] == 'exp':
                raise RuntimeError('generator: nu changes inside the call (%r, %r] but is not passed as a function' % (a, b))
            vals.add(self.eps[i][key])
        if len(vals) != 1:
            raise RuntimeError('generator: %s changes inside the call (%r, %r] but is not passed as a function' % (name, a, b))
        vb = vals.pop()
        return float(vb)

def histx_model(params, ns, pts):
    c = params
    F = AbsFuncs(c)
    xx = Numerics.default_grid(pts)
    phi = PhiManip.phi_1D(xx, theta0=c['theta_anc'])
    cuts = c['cuts']; s = F.shift
    for a, b in zip(cuts[:-1], cuts[1:]):
        kw = dict(nu=F.arg('nu', c['as_func'], a, b), theta0=F.arg('theta0', c['as_func'], a, b), gamma=F.arg('gamma', c['as_func'], a, b))
        if s != 0 or a != 0 or c.get('pass_zero_t0'):
            kw['initial_t'] = s + a
        phi = Integration.one_pop(phi, xx, s + b, **kw)
    return dadi.Spectrum.from_phi(phi, ns, (xx,))

def histx(c):
    f = Numerics.make_extrap_log_func(histx_model) if c['extrap'] == 'log' else Numerics.make_extrap_func(histx_model)
    out = {}
    for tf in c['tfs']:
        Integration.timescale_factor = tf
        fs = f(c, (c['n'],), c['pts_l'])
        out[repr(tf)] = fl(np.asarray(fs.data))
    Integration.timescale_factor = 1e-3
    return {'fs': out}

# ------------------------------------------------------------------------------------------------
# one_pop with every argument of its signature, for the entry-by-entry comparison with integrate_const / integrate_tdep
# started at time t0 (Model/NDSweep.v)

PAR1 = ('nu', 'gamma', 'h', 'beta', 'theta0')

def drv1_kwargs(c, record=None):
    kw = {}
    for name in PAR1:
        v, s = c['par'][name]
        form = c['form'][name]
        if form == 'scalar':
            kw[name] = v
        elif form == 'const':
            kw[name] = (lambda t, v=v: v)
        else:
            kw[name] = (lambda t, v=v, s=s: v + s * t)
    if record is not None:
        f = kw['nu']
        def nu_rec(t, f=f):
            record.append(float(t))
            return f(t)
        kw['nu'] = nu_rec
    if 'frozen' in c:
        kw['frozen'] = c['frozen']
    if 'deme_ids' in c:
        kw['deme_ids'] = c['deme_ids']
    return kw

def drv1(c):
    Integration.timescale_factor = c['tf']
    xx = np.array(c['grid'], dtype=float)
    phi = np.array(c['phi'], dtype=float)
    kw = drv1_kwargs(c)
    if c.get('pass_t0', True):
        kw['initial_t'] = c['t0']
    res = Integration.one_pop(phi, xx, c['T'], **kw)
    Integration.timescale_factor = 1e-3
    return {'res': fl(res), 'input_untouched': bool(np.array_equal(phi, np.array(c['phi'], dtype=float)))}

def chain(c):
    """one call over [t0, T] against two calls [t0, t1], [t1, T] with t1 = the time reached by the single call after
    'cut_step' steps (read off the arguments with which the size function is called)"""
    Integration.timescale_factor = c['tf']
    xx = np.array(c['grid'], dtype=float)
    phi = np.array(c['phi'], dtype=float)
    times = []
    single = Integration.one_pop(phi, xx, c['T'], initial_t=c['t0'], **drv1_kwargs(c, record=times))
    out = {'single': fl(single), 'times': times}
    k = c['cut_step']
    if not (len(times) >= k + 2):
        out['error'] = 'generator: the single call made %d steps, cut_step = %d' % (len(times) - 1, k)
        return out
    t1 = times[k]
    out['t1'] = t1
    leg1 = Integration.one_pop(phi, xx, t1, initial_t=c['t0'], **drv1_kwargs(c))
    leg2 = Integration.one_pop(leg1, xx, c['T'], initial_t=t1, **drv1_kwargs(c))
    Integration.timescale_factor = 1e-3
    out.update(leg1=fl(leg1), leg2=fl(leg2))
    return out

def one(c):
    rec = {'id': c['id']}
    try:
        rec.update({'dens': dens, 'hist': hist, 'stat': stat, 'drv': drv, 'snmfix': snmfix, 'histx': histx, 'drv1': drv1, 'chain': chain}[c['kind']](c))
    except Exception as e:
        rec['error'] = type(e).__name__ + ': ' + str(e)[:300]
    return rec

def main():
    cases = json.load(sys.stdin)
    LIGHT = ('dens', 'drv', 'snmfix', 'drv1', 'chain')
    heavy = [c for c in cases if c['kind'] not in LIGHT]
    light = [c for c in cases if c['kind'] in LIGHT]
    out = [one(c) for c in light]
    if len(heavy) > 3:
        import multiprocessing as mp
        with mp.get_context('fork').Pool(min(int(os.environ.get('C01_POOL', '6')), len(heavy))) as pool:
            out += pool.map(one, heavy, chunksize=1)
    else:
        out += [one(c) for c in heavy]
    print(json.dumps(out))
main()
