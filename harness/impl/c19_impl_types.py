"""C19, stream 'argument types': builders that hand the SAME NUMBERS to dadi.Godambe in different python / numpy types,
containers and memory layouts, and the ops that run the real code (overlay) on them.  Imported by c19_impl.py.

  build(kind, vals)   vals: number or (nested) list of python numbers -> the object of that kind  (tables SCALAR / SEQ / GRID)
  snap(obj)           what must be unchanged after a call: (type, dtype, contents, mask, writeable flag)
  op_chi2t            sum_chi2_ppf(x, weights) : called twice with the same objects
  op_hesst            get_hess / get_grad / hessian_elem on a polynomial, typed p0 / eps / args / ii / jj / one_sided / f0
"""
import numpy as np
import dadi
from dadi import Godambe


# ---- builders ------------------------------------------------------------------------------------------------------
NPT = {'f64': np.float64, 'f32': np.float32, 'f16': np.float16, 'i64': np.int64, 'i32': np.int32, 'i16': np.int16, 'i8': np.int8,
       'u8': np.uint8, 'u64': np.uint64, 'npbool': np.bool_, 'bool': np.bool_}

def _strided(a):
    buf = np.zeros((2 * a.shape[0],) + a.shape[1:], dtype=a.dtype)
    buf[1::2] = -77                                    # neighbours in memory that do not belong to the argument
    buf[::2] = a
    return buf[::2]

def _neg(a):
    buf = np.array(a[::-1], copy=True)
    return buf[::-1]

def scalar(kind, v):
    if kind == 'float':
        return float(v)
    if kind == 'int':
        return int(v)
    if kind == 'bool':
        return bool(v)
    if kind.startswith('a0_'):
        return np.array(v, dtype=NPT[kind[3:]])
    return NPT[kind](v)

def _flat(v):
    return [t for row in v for t in _flat(row)] if isinstance(v, (list, tuple)) else [v]

def _mixed(v):
    """python ints where integral, python floats elsewhere; a list of integers only keeps one float (so that the list is 'mixed')"""
    out = [int(t) if float(t).is_integer() else float(t) for t in v]
    if all(isinstance(t, int) for t in out) and out:
        out[0] = float(out[0])
    return out

def build(kind, v):
    """kind: a SCALAR name, '<container>_<element>' for 1-D ('list_float', 'tuple_int', 'list_f64', 'nd_i32', ...), with a layout
    suffix for arrays ('nd_f64_strided', 'nd_f64_neg', 'nd_f64_ro', 'nd_f64_F', 'nd_f64_T', 'nd_f64_2dstrided'), 'ma_<dtype>[_mask]', 'list2_<el>'."""
    if not isinstance(v, (list, tuple)):
        return scalar(kind, v)
    parts = kind.split('_')
    cont, el, lay = parts[0], parts[1], (parts[2] if len(parts) > 2 else None)
    if cont in ('list', 'tuple', 'list2'):
        def conv(t):
            return scalar(el, t)
        if el == 'mixed':
            out = _mixed(v)
        elif cont == 'list2':
            out = [[conv(t) for t in row] for row in v]
        else:
            out = [conv(t) for t in v]
        return tuple(out) if cont == 'tuple' else out
    dt = NPT[el]
    a = np.array(v, dtype=dt)
    if cont == 'ma':
        if lay == 'mask':
            return np.ma.masked_array(a, mask=np.zeros(a.shape, dtype=bool))
        return np.ma.masked_array(a)
    if lay is None or lay == 'C':
        return a
    if lay == 'F':
        return np.asfortranarray(a)
    if lay == 'T':
        return np.array(a.T, order='C').T               # a transposed view of a C-ordered buffer
    if lay == 'strided':
        return _strided(a)
    if lay == '2dstrided':
        buf = np.full((a.shape[0], 2 * a.shape[1] + 1), -77, dtype=dt)
        buf[:, 1::2] = a
        return buf[:, 1::2]
    if lay == 'neg':
        return _neg(a)
    if lay == 'ro':
        a.flags.writeable = False
        return a
    raise ValueError('layout ' + kind)

def snap(o):
    if o is None or isinstance(o, (bool, int, float)):
        return (type(o).__name__, repr(o))
    if isinstance(o, np.generic):
        return (type(o).__name__, repr(o.item()))
    if isinstance(o, np.ndarray):
        m = np.ma.getmask(o)
        return (type(o).__name__, str(o.dtype), o.shape, o.strides, repr(np.asarray(o).tolist()), None if m is np.ma.nomask else repr(np.asarray(m).tolist()),
                bool(o.flags.writeable))
    if isinstance(o, (list, tuple)):
        return (type(o).__name__, tuple(snap(t) for t in o))
    return (type(o).__name__, repr(o))

def fl(x):
    try:
        x = float(x)
    except Exception:
        return None
    return x if np.isfinite(x) else ('nan' if np.isnan(x) else ('inf' if x > 0 else '-inf'))

def describe_result(r):
    a = np.asarray(np.ma.getdata(r))
    m = np.ma.getmask(r)
    return {'scalar': bool(np.isscalar(r)), 'type': type(r).__name__, 'dtype': str(a.dtype), 'shape': list(a.shape),
            'val': [fl(t) for t in a.ravel()], 'masked': bool(m is not np.ma.nomask and np.any(m))}


def scribble(r):
    if isinstance(r, np.ndarray) and r.flags.writeable:
        try:
            r[...] = -55
        except (OverflowError, TypeError, ValueError):
            r[...] = 99

# ---- sum_chi2_ppf -------------------------------------------------------------------------------------------------
def op_chi2t(c):
    rec = {'id': c['id']}
    x = build(c['x_kind'], c['x'])
    has_w = c.get('w_kind') is not None
    w = build(c['w_kind'], c['weights']) if has_w else None
    sx, sw = snap(x), snap(w)
    calls = []
    for k in range(2):
        try:
            r = Godambe.sum_chi2_ppf(x, w) if has_w and not c.get('w_keyword') else \
                Godambe.sum_chi2_ppf(x, weights=w) if has_w else Godambe.sum_chi2_ppf(x)
            d = describe_result(r)
            d['aliases_x'] = bool(isinstance(r, np.ndarray) and isinstance(x, np.ndarray) and np.shares_memory(r, x))
            d['aliases_w'] = bool(isinstance(r, np.ndarray) and isinstance(w, np.ndarray) and np.shares_memory(r, w))
            scribble(r)                                  # the caller may do what it likes with the result
        except Exception as e:
            d = {'error': type(e).__name__ + ': ' + str(e)[:200]}
        calls.append(d)
    rec['calls'] = calls
    rec['x_unchanged'] = snap(x) == sx
    rec['w_unchanged'] = snap(w) == sw
    return rec


# ---- get_hess / get_grad / hessian_elem ---------------------------------------------------------------------------
def op_hesst(c):
    lin = [(float(a), int(k)) for a, k in c['lin']]
    qd = [(float(a), int(k), int(l)) for a, k, l in c['qd']]
    c0 = float(c['c'])
    extra_vals = c.get('args', [])
    seen_types = set()
    def func(p, *args):
        if [float(t) for t in args] != [float(t) for t in extra_vals]:
            raise RuntimeError('args not passed through: %r' % (args,))
        seen_types.add(type(p).__name__ + ':' + str(getattr(p, 'dtype', '')))
        v = c0
        for a, k in lin:
            v += a * float(p[k])
        for a, k, l in qd:
            v += a * float(p[k]) * float(p[l])
        return v
    rec = {'id': c['id']}
    p = build(c['p_kind'], c['p'])
    eps = build(c['eps_kind'], c['eps'])
    args_kind = c.get('args_kind', 'list')
    extra = None if args_kind == 'omit' else (tuple(extra_vals) if args_kind == 'tuple' else list(extra_vals))
    kw = {} if extra is None else {'args': extra}
    sp, se, sa = snap(p), snap(eps), snap(extra)
    n = len(c['p'])
    calls = []
    for k in range(2):
        d = {}
        try:
            if c.get('direct') is None:
                H = Godambe.get_hess(func, p, eps, **kw)
                g = Godambe.get_grad(func, p, eps, **kw)
                d['hess'] = [[fl(t) for t in row] for row in np.asarray(H)]
                d['grad'] = [fl(t) for t in np.asarray(g).ravel()]
                d['hess_dtype'] = str(np.asarray(H).dtype); d['grad_dtype'] = str(np.asarray(g).dtype)
                d['grad_shape'] = list(np.asarray(g).shape)
                d['aliases'] = bool(isinstance(p, np.ndarray) and (np.shares_memory(H, p) or np.shares_memory(g, p)))
                scribble(H); scribble(g)
            else:
                dd = c['direct']
                os_ = None if dd.get('os_kind') is None else build(dd['os_kind'], dd['one_sided'])
                f0 = build(dd.get('f0_kind', 'float'), func(c['p'], *extra_vals))
                so = snap(os_)
                H = [[None] * n for _ in range(n)]
                for ii in range(n):
                    for jj in range(n):
                        kk = dict(kw)
                        if os_ is not None:
                            kk['one_sided'] = os_
                        e = Godambe.hessian_elem(func, f0, p, scalar(dd.get('ix_kind', 'int'), ii), scalar(dd.get('ix_kind', 'int'), jj), eps, **kk)
                        H[ii][jj] = fl(e)
                        d.setdefault('elem_types', set()).add(type(e).__name__)
                d['hess'] = H
                d['elem_types'] = sorted(d['elem_types'])
                d['os_unchanged'] = snap(os_) == so
        except Exception as e:
            d = {'error': type(e).__name__ + ': ' + str(e)[:200]}
        calls.append(d)
    rec['calls'] = calls
    rec['p_unchanged'] = snap(p) == sp
    rec['eps_unchanged'] = snap(eps) == se
    rec['args_unchanged'] = snap(extra) == sa
    rec['func_saw'] = sorted(seen_types)
    return rec


# ---- spectra (data / bootstraps of the get_godambe family) -------------------------------------------------------------
def build_spectrum(kind, vals, shape, extra_mask=None):
    """kind: 'spectrum_<dtype>[_F|_strided]' (a dadi.Spectrum built from an array of that dtype / layout), 'ma_<dtype>' (masked array with
    the Spectrum's mask), 'nd_<dtype>[_F]' / 'list' (no mask: Spectrum(boot) masks the corners; bootstraps only, no extra mask)"""
    parts = kind.split('_')
    cont, el, lay = parts[0], (parts[1] if len(parts) > 1 else 'f64'), (parts[2] if len(parts) > 2 else None)
    a = np.array(vals, dtype=float).reshape(shape)
    if cont == 'list':
        return [[scalar(el, t) for t in row] for row in a.tolist()] if a.ndim == 2 else [scalar(el, t) for t in a.tolist()]
    a = a.astype(NPT[el])
    if lay == 'F':
        a = np.asfortranarray(a)
    elif lay == 'strided':
        a = _strided(a)
    if cont == 'nd':
        return a
    ref = dadi.Spectrum(np.array(vals, dtype=float).reshape(shape))
    mask = np.ma.getmaskarray(ref)
    if extra_mask:
        mask = np.logical_or(mask, np.array(extra_mask, dtype=bool).reshape(shape))
    if cont == 'ma':
        return np.ma.masked_array(a, mask=mask)
    fs = dadi.Spectrum(a)
    fs.mask = np.logical_or(np.ma.getmaskarray(fs), mask)
    return fs
