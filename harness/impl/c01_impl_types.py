"""C01 implementation driver for the ARGUMENT TYPES / CONTAINERS / RE-USE OF ARGUMENT OBJECTS stream (harness/props/c01_types.py).

stdin: JSON list of cases -> JSON list of records (same order).  Every value the harness sends is a JSON number; a case names, per
argument, the Python / numpy TYPE (and for vectors / grids the CONTAINER) in which the value is handed to the library.  The argument objects
are built ONCE per case and the SAME objects are handed to every call of the case (the grid sizes of an extrapolation, the successive
timescale factors, the immediate repeat).

kinds
  't_model'   a one-population model function (Demographics1D.*, DFE.DemogSelModels.equil / two_epoch_sel), wrapped by make_extrap_func /
              make_extrap_log_func (extrap 'lin' / 'log') or called directly (extrap None, pts a scalar): params (values), ptypes (type per
              entry), pcont (container), n / ntype / nscont, pts_l / ptstype / ptscont, tfs = the timescale factor of each successive call
  't_onepop'  Integration.one_pop on phi_1D(default_grid(pts)): vals {T, initial_t, nu, gamma, h, theta0, beta}, types, form 'scalar' / 'func'
              (every parameter a function of time RETURNING THE SAME typed object each time), omit, grid_as, phi_as, reps
  't_eq'      PhiManip.phi_1D / phi_1D_genic / phi_1D_snm: vals, types, grid_as, reps
  't_fromphi' Spectrum.from_phi in 1-D: n / ntype / nscont, grid_as, phi_as, xxcont, reps

record: 'calls' (result of every call, C order, as floats; masked entries of spectra as they are), 'changed' (list of
{arg, before, after}: argument objects that are not bit-for-bit what they were before the first call: class, dtype, shape, strides, bytes /
repr, and for containers the identity of every element), or 'error'.
"""
import sys, os, json, warnings, logging
warnings.filterwarnings('ignore')
import numpy as np
np.seterr(all='ignore')
import dadi
from dadi import Integration, PhiManip, Numerics, Demographics1D
from dadi.DFE import DemogSelModels
logging.getLogger('Numerics').setLevel(logging.ERROR)

def conv(ty, v):
    if ty in (None, 'float'):
        return float(v)
    if ty in ('int', 'bool', 'np.int64', 'np.int32', 'np.bool_', '0d-int', '0d-bool', '0d-int32'):
        if v != int(v):
            raise RuntimeError('generator: %r has no %s spelling' % (v, ty))
        if 'bool' in ty and v not in (0, 1):
            raise RuntimeError('generator: %r has no %s spelling' % (v, ty))
    if ty == 'int': return int(v)
    if ty == 'bool': return bool(v)
    if ty == 'np.float64': return np.float64(v)
    if ty == 'np.float32':
        r = np.float32(v)
        if float(r) != float(v):
            raise RuntimeError('generator: %r is not a float32' % (v,))
        return r
    if ty == 'np.int64': return np.int64(v)
    if ty == 'np.int32': return np.int32(v)
    if ty == 'np.bool_': return np.bool_(v)
    if ty == '0d-float': return np.array(float(v))
    if ty == '0d-float32': return np.array(v, dtype=np.float32)
    if ty == '0d-int': return np.array(int(v))
    if ty == '0d-int32': return np.array(int(v), dtype=np.int32)
    if ty == '0d-bool': return np.array(bool(v))
    raise RuntimeError('unknown type ' + repr(ty))

def vector(cont, items, vals):
    """items: the typed entries (objects); vals: their values"""
    if cont in (None, 'list'): return list(items)
    if cont == 'tuple': return tuple(items)
    if cont == 'f64': return np.array([float(v) for v in vals], dtype=float)
    if cont == 'f32': return np.array([float(v) for v in vals], dtype=np.float32)
    if cont == 'i64': return np.array([int(v) for v in vals], dtype=np.int64)
    if cont == 'i32': return np.array([int(v) for v in vals], dtype=np.int32)
    if cont == 'object': return np.array(list(items), dtype=object)
    if cont == 'view':
        base = np.full(2 * len(vals) + 1, -7.0); base[1::2] = [float(v) for v in vals]
        return base[1::2]
    if cont == 'negview':
        base = np.array([float(v) for v in vals][::-1]); return base[::-1]
    if cont == 'scalar':
        assert len(items) == 1
        return items[0]
    raise RuntimeError('unknown container ' + repr(cont))

def grid_as(xx, how):
    xx = np.array(xx, dtype=float)
    if how in (None, 'ndarray'): return xx
    if how == 'list': return [float(v) for v in xx]
    if how == 'tuple': return tuple(float(v) for v in xx)
    if how == 'strided':
        base = np.full(2 * len(xx) + 1, -3.0); base[1::2] = xx
        return base[1::2]
    if how == 'negstrided':
        base = np.array(xx[::-1]); return base[::-1]
    if how == 'readonly':
        xx.setflags(write=False); return xx
    raise RuntimeError('unknown grid spelling ' + repr(how))

def snap(o):
    if isinstance(o, np.ndarray):
        m = np.ma.getmaskarray(o).tobytes() if isinstance(o, np.ma.MaskedArray) else b''
        body = np.ascontiguousarray(np.ma.getdata(o)).tobytes().hex() if o.dtype != object else repr(o.tolist())
        return [type(o).__name__, str(o.dtype), list(o.shape), list(o.strides), body, m.hex()]
    if isinstance(o, (list, tuple)):
        return [type(o).__name__, [[id(e)] + snap(e) for e in o]]
    return [type(o).__name__, repr(o)]

def show(o):
    if isinstance(o, np.ndarray):
        return '%s(%s, dtype=%s)' % (type(o).__name__, np.array2string(np.ma.getdata(o), precision=17, threshold=12), o.dtype)
    if isinstance(o, (list, tuple)):
        return type(o).__name__ + '(' + ', '.join(show(e) for e in o) + ')'
    return '%s(%r)' % (type(o).__name__, o)

class Held:
    def __init__(self):
        self.items = []
    def add(self, name, o):
        self.items.append((name, o, snap(o), show(o)))
        return o
    def changed(self):
        out = []
        for name, o, s, sh in self.items:
            if snap(o) != s:
                out.append({'arg': name, 'before': sh, 'after': show(o)})
        return out

def fl(a):
    a = np.asarray(np.ma.getdata(a), dtype=float)
    return [float(t) if np.isfinite(t) else repr(float(t)) for t in a.ravel()]

LIB = {'snm': Demographics1D.snm, 'two_epoch': Demographics1D.two_epoch, 'growth': Demographics1D.growth,
       'bottlegrowth': Demographics1D.bottlegrowth, 'three_epoch': Demographics1D.three_epoch,
       'equil': DemogSelModels.equil, 'two_epoch_sel': DemogSelModels.two_epoch_sel}

def t_model(c):
    H = Held()
    func = LIB[c['model']]
    vals = c['params']
    items = [conv(t, v) for t, v in zip(c['ptypes'], vals)]
    params = H.add('params', vector(c.get('pcont'), items, vals))
    ns = H.add('ns', vector(c.get('nscont') or 'tuple', [conv(c.get('ntype') or 'int', c['n'])], [c['n']]))
    ex = c.get('extrap')
    if ex:
        pl = c['pts_l']
        pts = H.add('pts', vector(c.get('ptscont'), [conv(c.get('ptstype') or 'int', p) for p in pl], pl))
        f = Numerics.make_extrap_log_func(func) if ex == 'log' else Numerics.make_extrap_func(func)
    else:
        pts = H.add('pts', conv(c.get('ptstype') or 'int', c['pts_l'][0]))
        f = func
    calls = []
    try:
        for tf in c['tfs']:
            Integration.timescale_factor = tf
            fs = f(params, ns, pts)
            calls.append(fl(fs))
    finally:
        Integration.timescale_factor = 1e-3
    return {'calls': calls, 'changed': H.changed(), 'mask': [bool(t) for t in np.ma.getmaskarray(fs).ravel()]}

PAR = ('nu', 'gamma', 'h', 'theta0', 'beta')

def t_onepop(c):
    H = Held()
    xx0 = Numerics.default_grid(c['pts'])
    xx = H.add('xx', grid_as(xx0, c.get('grid_as')))
    phi0 = PhiManip.phi_1D(xx0, gamma=c.get('gamma0', 0.0))
    phi = np.array(phi0, dtype=float)
    if c.get('phi_as') == 'strided':
        base = np.full(2 * len(phi) + 1, -5.0); base[1::2] = phi; phi = base[1::2]
    elif c.get('phi_as') == 'readonly':
        phi.setflags(write=False)
    H.add('phi', phi)
    ty = c.get('types') or {}
    omit = set(c.get('omit') or [])
    kw = {}
    for name in PAR + ('initial_t',):
        if name in omit:
            continue
        o = H.add(name, conv(ty.get(name), c['vals'][name]))
        if c.get('form') == 'func' and name in PAR:
            kw[name] = (lambda t, o=o: o)
        else:
            kw[name] = o
    T = H.add('T', conv(ty.get('T'), c['vals']['T']))
    calls = []
    Integration.timescale_factor = c['tf']
    try:
        for rep in range(c.get('reps', 2)):
            if c.get('T_keyword'):
                res = Integration.one_pop(phi, xx, T=T, **kw)
            else:
                res = Integration.one_pop(phi, xx, T, **kw)
            calls.append(fl(res))
    finally:
        Integration.timescale_factor = 1e-3
    return {'calls': calls, 'changed': H.changed(), 'phi0': fl(phi0)}

EQ = {'phi_1D': PhiManip.phi_1D, 'phi_1D_genic': PhiManip.phi_1D_genic, 'phi_1D_snm': PhiManip.phi_1D_snm}

def t_eq(c):
    H = Held()
    xx0 = Numerics.default_grid(c['pts'])
    xx = H.add('xx', grid_as(xx0, c.get('grid_as')))
    ty = c.get('types') or {}
    kw = {name: H.add(name, conv(ty.get(name), v)) for name, v in c['vals'].items()}
    calls = []
    for rep in range(c.get('reps', 2)):
        calls.append(fl(EQ[c['fn']](xx, **kw)))
    return {'calls': calls, 'changed': H.changed()}

def t_fromphi(c):
    H = Held()
    xx0 = Numerics.default_grid(c['pts'])
    xx = H.add('xx', grid_as(xx0, c.get('grid_as')))
    phi = np.array(PhiManip.phi_1D(xx0, gamma=c.get('gamma0', -1.0), nu=2.0), dtype=float)
    if c.get('phi_as') == 'strided':
        base = np.full(2 * len(phi) + 1, -5.0); base[1::2] = phi; phi = base[1::2]
    elif c.get('phi_as') == 'readonly':
        phi.setflags(write=False)
    elif c.get('phi_as') == 'list':
        phi = [float(v) for v in phi]
    H.add('phi', phi)
    ns = H.add('ns', vector(c.get('nscont') or 'tuple', [conv(c.get('ntype') or 'int', c['n'])], [c['n']]))
    xxs = H.add('xxs', (xx,) if (c.get('xxcont') or 'tuple') == 'tuple' else [xx])
    calls = []
    for rep in range(c.get('reps', 2)):
        fs = dadi.Spectrum.from_phi(phi, ns, xxs)
        calls.append(fl(fs))
    return {'calls': calls, 'changed': H.changed(), 'mask': [bool(t) for t in np.ma.getmaskarray(fs).ravel()]}

KINDS = {'t_model': t_model, 't_onepop': t_onepop, 't_eq': t_eq, 't_fromphi': t_fromphi}

def one(c):
    rec = {'id': c['id']}
    try:
        rec.update(KINDS[c['kind']](c))
    except Exception as e:
        rec['error'] = type(e).__name__ + ': ' + str(e)[:300]
    return rec

def main():
    cases = json.load(sys.stdin)
    heavy = [c for c in cases if c['kind'] == 't_model']
    light = [c for c in cases if c['kind'] != 't_model']
    out = [one(c) for c in light]
    if len(heavy) > 3:
        import multiprocessing as mp
        with mp.get_context('fork').Pool(min(int(os.environ.get('C01_POOL', '3')), len(heavy))) as pool:
            out += pool.map(one, heavy, chunksize=4)
    else:
        out += [one(c) for c in heavy]
    print(json.dumps(out))

if __name__ == '__main__':
    main()
