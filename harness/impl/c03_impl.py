"""C03 implementation driver: 'driver' cases (as C02), 'phi1d' = the equilibrium density, and 'program' cases = whole
models built from the public API.

stdin: JSON list of cases -> JSON list of {'id', 'res', 'mask'} | {'id', 'error'} (all cases in THIS process, in list order).

Sessions (harness/props/c03_orders.py): stdin {'sessions': [{'id': str, 'calls': [case...]}...]} ->
  {'sessions': [{'id', 'pid', 'results': [{'pos', 'pid', 'res', 'mask'} | {'pos', 'pid', 'error'}...]}...], 'parent': pid}.
  Every session runs in its OWN process forked from this interpreter right after `import dadi` (no dadi call has been made in
  the parent, which never evaluates a call itself: every module-level memo is empty at the start of a session), its calls
  strictly in list order.  A session with one call is the "pristine interpreter" value of that call.
"""
import sys, os, json, warnings
warnings.filterwarnings('ignore')
sys.path.insert(0, os.path.dirname(os.path.abspath(__file__)))
import numpy as np
np.seterr(all='ignore')
import dadi
from dadi import Integration, PhiManip
import c02_impl

SEGS = []      # lengths of the pieces of the last traced program (harness bookkeeping only)

def program(c):
    """steps: list of dicts; state = (phi, xx). Returns flattened final object (phi or spectrum)."""
    Integration.timescale_factor = c['tf']
    Integration.use_delj_trick = False
    try:
        return _program(c)
    finally:
        Integration.timescale_factor = 1e-3

def _program(c):
    xx = np.array(c['grid'], dtype=float)
    phi = None
    out = None
    trace = [] if c.get('trace') else None
    for st in c['steps']:
        op = st['op']
        if op == 'phi_1D':
            phi = PhiManip.phi_1D(xx, nu=st['nu'], theta0=st['theta0'], gamma=st['gamma'], h=st['h'], **({'beta': st['beta']} if 'beta' in st else {}))
        elif op == 'one_pop':
            phi = Integration.one_pop(phi, xx, st['T'], nu=st['nu'], gamma=st['gamma'], h=st['h'], theta0=st['theta0'])
        elif op == 'split12':
            phi = PhiManip.phi_1D_to_2D(xx, phi)
        elif op == 'two_pops':
            kw = dict(nu1=st['nu'][0], nu2=st['nu'][1], m12=st['m'][0], m21=st['m'][1], gamma1=st['gamma'][0], gamma2=st['gamma'][1],
                      h1=st['h'][0], h2=st['h'][1], theta0=st['theta0'])
            if st.get('func'):
                kw = {k: (lambda t, v=v: v) if k != 'theta0' else v for k, v in kw.items()}
            if st.get('growth'):
                nu0, nu1, T = st['growth']
                kw['nu1'] = lambda t, nu0=nu0, nu1=nu1, T=T: nu0 + (nu1 - nu0) * t / T
            phi = Integration.two_pops(phi, xx, st['T'], **kw)
        elif op == 'pulse12':
            phi = PhiManip.phi_2D_admix_1_into_2(phi, st['f'], xx, xx)
        elif op == 'split23':
            phi = PhiManip.phi_2D_to_3D_split_2(xx, phi)
        elif op == 'three_pops':
            n = st['nu']; m = st['m']; g = st['gamma']
            hk = {'h%d' % (i + 1): v for i, v in enumerate(st['h'])} if 'h' in st else {}
            phi = Integration.three_pops(phi, xx, st['T'], nu1=n[0], nu2=n[1], nu3=n[2], m12=m[0], m13=m[1], m21=m[2], m23=m[3], m31=m[4], m32=m[5],
                                         gamma1=g[0], gamma2=g[1], gamma3=g[2], theta0=st['theta0'], **hk)
        elif op == 'split34':
            phi = PhiManip.phi_3D_to_4D(phi, st['f'][0], st['f'][1], xx, xx, xx, xx)
        elif op == 'split45':
            phi = PhiManip.phi_4D_to_5D(phi, st['f'][0], st['f'][1], st['f'][2], xx, xx, xx, xx, xx)
        elif op in ('four_pops', 'five_pops'):
            d = 4 if op == 'four_pops' else 5
            kw = {'theta0': st['theta0']}
            for i in range(d):
                kw['nu%d' % (i + 1)] = st['nu'][i]; kw['gamma%d' % (i + 1)] = st['gamma'][i]; kw['h%d' % (i + 1)] = st['h'][i]
            pairs = [(i, j) for i in range(d) for j in range(d) if i != j]
            for (i, j), v in zip(pairs, st['m']):
                kw['m%d%d' % (i + 1, j + 1)] = v
            phi = (Integration.four_pops if d == 4 else Integration.five_pops)(phi, xx, st['T'], **kw)
        elif op == 'remove':
            phi = PhiManip.remove_pop(phi, xx, st['k'])
        elif op == 'from_phi':
            out = dadi.Spectrum.from_phi(phi, st['ns'], [xx] * phi.ndim)
        else:
            raise ValueError(op)
        if trace is not None and op != 'from_phi':
            trace.append(np.array(phi, dtype=float).ravel())
    if trace is not None:
        # every density of the model in order (equilibrium, after each epoch / split / pulse), then the spectrum
        vals = [float(t) for a in trace for t in a]; mask = [False] * len(vals)
        SEGS[:] = [len(a) for a in trace]
        if out is not None:
            vals += [float(t) for t in np.asarray(out.data).ravel()]; mask += [bool(t) for t in np.ma.getmaskarray(out).ravel()]
            SEGS.append(out.size)
        return vals, mask
    if out is not None:
        return [float(t) for t in np.asarray(out.data).ravel()], [bool(t) for t in np.ma.getmaskarray(out).ravel()]
    return [float(t) for t in np.asarray(phi).ravel()], None

def one(c):
    rec = {}
    try:
        if c['kind'] == 'driver':
            rec['res'] = c02_impl.driver(c)
            rec['mask'] = None
        elif c['kind'] == 'phi1d':
            xx = np.array(c['grid'], dtype=float)
            rec['res'] = [float(t) for t in PhiManip.phi_1D(xx, nu=c['nu'], theta0=c['theta0'], gamma=c['gamma'], h=c['h'], beta=c['beta'])]
            rec['mask'] = None
        else:
            rec['res'], rec['mask'] = program(c)
            if c.get('trace'):
                rec['segs'] = list(SEGS)
    except Exception as e:
        rec['error'] = type(e).__name__ + ': ' + str(e)[:300]
    return rec

def run_session(sess):
    """the calls of one session, in order, in a process of their own (forked before any dadi call was made)"""
    rd, wr = os.pipe()
    sys.stdout.flush(); sys.stderr.flush()
    pid = os.fork()
    if pid == 0:
        code = 0
        try:
            os.close(rd)
            out = []
            for pos, c in enumerate(sess['calls']):
                r = one(c); r['pos'] = pos; r['pid'] = os.getpid()
                out.append(r)
            with os.fdopen(wr, 'w') as f:
                f.write(json.dumps(out))
        except BaseException as e:
            sys.stderr.write('session %s: %r\n' % (sess.get('id'), e)); code = 1
        os._exit(code)
    os.close(wr)
    with os.fdopen(rd) as f:
        txt = f.read()
    _, status = os.waitpid(pid, 0)
    if status != 0 or not txt:
        return {'id': sess.get('id'), 'pid': pid, 'results': [{'error': 'session process died (status %d)' % status, 'pos': k, 'pid': pid}
                                                                for k in range(len(sess['calls']))]}
    return {'id': sess.get('id'), 'pid': pid, 'results': json.loads(txt)}

def main():
    cases = json.load(sys.stdin)
    if isinstance(cases, dict) and 'sessions' in cases:
        print(json.dumps({'sessions': [run_session(s) for s in cases['sessions']], 'parent': os.getpid()}))
        return
    out = []
    for c in cases:
        rec = one(c); rec['id'] = c['id']
        if 'error' in rec:
            rec.pop('res', None); rec.pop('mask', None)
        out.append(rec)
    print(json.dumps(out))
if __name__ == '__main__':
    main()
