"""C03 implementation driver: 'driver' cases (as C02), and 'program' cases = whole models built from the public API."""
import sys, os, json, warnings
warnings.filterwarnings('ignore')
sys.path.insert(0, os.path.dirname(os.path.abspath(__file__)))
import numpy as np
np.seterr(all='ignore')
import dadi
from dadi import Integration, PhiManip
import c02_impl

def program(c):
    """steps: list of dicts; state = (phi, xx). Returns flattened final object (phi or spectrum)."""
    Integration.timescale_factor = c['tf']
    Integration.use_delj_trick = False
    xx = np.array(c['grid'], dtype=float)
    phi = None
    out = None
    for st in c['steps']:
        op = st['op']
        if op == 'phi_1D':
            phi = PhiManip.phi_1D(xx, nu=st['nu'], theta0=st['theta0'], gamma=st['gamma'], h=st['h'])
        elif op == 'one_pop':
            phi = Integration.one_pop(phi, xx, st['T'], nu=st['nu'], gamma=st['gamma'], h=st['h'], theta0=st['theta0'])
        elif op == 'split12':
            phi = PhiManip.phi_1D_to_2D(xx, phi)
        elif op == 'two_pops':
            kw = dict(nu1=st['nu'][0], nu2=st['nu'][1], m12=st['m'][0], m21=st['m'][1], gamma1=st['gamma'][0], gamma2=st['gamma'][1],
                      h1=st['h'][0], h2=st['h'][1], theta0=st['theta0'])
            if st.get('func'):
                kw = {k: (lambda t, v=v: v) if k != 'theta0' else v for k, v in kw.items()}
            if st.get('growth'):
                nu0, nu1, T = st['growth']
                kw['nu1'] = lambda t, nu0=nu0, nu1=nu1, T=T: nu0 + (nu1 - nu0) * t / T
            phi = Integration.two_pops(phi, xx, st['T'], **kw)
        elif op == 'pulse12':
            phi = PhiManip.phi_2D_admix_1_into_2(phi, st['f'], xx, xx)
        elif op == 'split23':
            phi = PhiManip.phi_2D_to_3D_split_2(xx, phi)
        elif op == 'three_pops':
            n = st['nu']; m = st['m']; g = st['gamma']
            phi = Integration.three_pops(phi, xx, st['T'], nu1=n[0], nu2=n[1], nu3=n[2], m12=m[0], m13=m[1], m21=m[2], m23=m[3], m31=m[4], m32=m[5],
                                         gamma1=g[0], gamma2=g[1], gamma3=g[2], theta0=st['theta0'])
        elif op == 'remove':
            phi = PhiManip.remove_pop(phi, xx, st['k'])
        elif op == 'from_phi':
            out = dadi.Spectrum.from_phi(phi, st['ns'], [xx] * phi.ndim)
        else:
            raise ValueError(op)
    Integration.timescale_factor = 1e-3
    if out is not None:
        return [float(t) for t in np.asarray(out.data).ravel()], [bool(t) for t in np.ma.getmaskarray(out).ravel()]
    return [float(t) for t in np.asarray(phi).ravel()], None

def main():
    cases = json.load(sys.stdin)
    out = []
    for c in cases:
        rec = {'id': c['id']}
        try:
            if c['kind'] == 'driver':
                rec['res'] = c02_impl.driver(c)
            elif c['kind'] == 'phi1d':
                xx = np.array(c['grid'], dtype=float)
                rec['res'] = [float(t) for t in PhiManip.phi_1D(xx, nu=c['nu'], theta0=c['theta0'], gamma=c['gamma'], h=c['h'], beta=c['beta'])]
                rec['mask'] = None
            else:
                rec['res'], rec['mask'] = program(c)
        except Exception as e:
            rec['error'] = type(e).__name__ + ': ' + str(e)[:300]
        out.append(rec)
    print(json.dumps(out))
if __name__ == '__main__':
    main()
