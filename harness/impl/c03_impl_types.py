"""C03 implementation driver for the ARGUMENT TYPES / CONTAINERS / LAYOUTS stream (harness/props/c03_types.py).

stdin: JSON list of calls -> JSON list of records, same order, all calls in THIS process.  Every value the harness sends is a JSON number;
a call names, per argument, the Python / numpy TYPE (and for arrays the container / memory layout) in which the value is handed to the
library.  The VALUES never change, only their spelling (`conv`, `grid_as`, `phi_as`, `relayout` of c04_impl: python int / float / bool,
numpy int64 / int32 / float64 / float32 / bool_, 0-d arrays; list / tuple / float32 / longdouble / object / masked grids; padded,
strided, reversed, Fortran-ordered, masked, subclassed densities).

kinds
  'eq'          PhiManip.phi_1D / phi_1D_genic / phi_1D_snm:  vals {nu, theta0, gamma, h, beta}, types {name: type}, omit [names left at the
                default], positional = number of leading arguments after the grid passed positionally (order read from the signature),
                grid_type, xlayout
  'driver'      Integration.one_pop .. five_pops (fields of c04_impl.integrate: arg_types, flag_types, grid_type, phi_type, layout, xlayout)
  'inject'      Integration._inject_mutations_dD on a copy of the density: types {dt, theta0}
  'compute_dt'  Integration._compute_dt: types {nu, gamma, h, ms}, ms_container list / tuple / ndarray
  'program'     a whole model (phi_1D, one_pop, split, two_pops, [three_pops], from_phi): num_type = the type of every WHOLE-valued number among
                the classes of num_classes (nu, theta0, gamma, m, T, beta, f); everything else a python float; grid_type; ns_type

Every record carries, next to 'res' (logical content, C order) and 'mask':
  'unchanged'   every array / 0-d array object handed to the library holds the same bytes, dtype, shape and strides after the call
  'again'       the SAME argument objects handed over a second time give the bit-identical result (kinds eq, driver, compute_dt)
  'rtype'       class and dtype of the result (reported only)
"""
import sys, os, json, inspect, warnings
warnings.filterwarnings('ignore')
sys.path.insert(0, os.path.dirname(os.path.abspath(__file__)))
import numpy as np
np.seterr(all='ignore')
import dadi
from dadi import Integration, PhiManip
import c04_impl as T4

conv, relayout, grid_as, phi_as = T4.conv, T4.relayout, T4.grid_as, T4.phi_as

def snap(o):
    """what must not change about an argument object"""
    if isinstance(o, np.ndarray):
        m = np.ma.getmaskarray(o).tobytes() if isinstance(o, np.ma.MaskedArray) else b''
        return (type(o).__name__, str(o.dtype), o.shape, o.strides, np.asarray(o).tobytes() if o.dtype != object else repr(o.tolist()), m)
    if isinstance(o, (list, tuple)):
        return (type(o).__name__, repr(o))
    return (type(o).__name__, repr(o))

def same_bits(a, b):
    a = np.ma.getdata(a); b = np.ma.getdata(b)
    a = np.asarray(a, dtype=float); b = np.asarray(b, dtype=float)
    return a.shape == b.shape and a.tobytes() == b.tobytes()

def out(res):
    rec = {'rtype': '%s/%s' % (type(res).__name__, getattr(res, 'dtype', None))}
    m = np.ma.getmaskarray(res) if isinstance(res, np.ma.MaskedArray) else None
    a = np.asarray(np.ma.getdata(res), dtype=float)
    rec['res'] = [float(t) for t in a.reshape(-1)]
    rec['mask'] = [bool(t) for t in m.reshape(-1)] if m is not None and m.any() else None
    rec['shape'] = list(a.shape)
    return rec

def xgrid(c):
    lay = c.get('xlayout')
    if isinstance(lay, str):
        lay = {'neg': {'neg': [0]}, 'step': {'step': [0]}, 'pad': {'pad': True}, 'negstep': {'neg': [0], 'step': [0], 'pad': True}}[lay]
    return grid_as(relayout(c['grid'], lay), c.get('grid_type'))

EQ = {'phi_1D': PhiManip.phi_1D, 'phi_1D_genic': PhiManip.phi_1D_genic, 'phi_1D_snm': PhiManip.phi_1D_snm}

def eq(c):
    fn = EQ[c['fn']]
    names = [p for p in inspect.signature(fn).parameters]
    if names[0] != 'xx':
        raise RuntimeError('signature of %s changed: %r' % (c['fn'], names))
    xx = xgrid(c)
    ty = c.get('types') or {}
    omit = set(c.get('omit') or [])
    vals = {k: conv(ty.get(k), v) for k, v in c['vals'].items() if k not in omit}
    for k in vals:
        if k not in names:
            raise RuntimeError('%s has no argument %s' % (c['fn'], k))
    pos = []; kw = dict(vals)
    for nm in names[1:1 + int(c.get('positional') or 0)]:
        if nm not in kw:
            break           # an omitted / deprecated argument ends the positional part
        pos.append(kw.pop(nm))
    held = [xx] + pos + list(kw.values())
    before = [snap(o) for o in held]
    res = fn(xx, *pos, **kw)
    rec = out(res)
    rec['unchanged'] = before == [snap(o) for o in held]
    keep = np.array(np.ma.getdata(res), dtype=float, copy=True)
    res2 = fn(xx, *pos, **kw)
    rec['again'] = same_bits(keep, res2) and same_bits(keep, res)
    return rec

def driver(c):
    xx = xgrid(c)
    phi = phi_as(relayout(np.array(c['phi'], dtype=float).reshape(c['shape']), c.get('layout')), c.get('phi_type'))
    before = [snap(xx), snap(phi)]
    res = T4.integrate(phi, xx, c)
    rec = out(res)
    if rec['shape'] != list(c['shape']):
        raise ValueError('result shape %r for input shape %r' % (rec['shape'], c['shape']))
    rec['unchanged'] = before == [snap(xx), snap(phi)]
    keep = np.array(np.ma.getdata(res), dtype=float, copy=True)
    res2 = T4.integrate(phi, xx, c)
    rec['again'] = same_bits(keep, res2) and same_bits(keep, res)
    return rec

def inject(c):
    d = len(c['shape'])
    xx = xgrid(c)
    phi = phi_as(relayout(np.array(c['phi'], dtype=float).reshape(c['shape']), c.get('layout')), c.get('phi_type'))
    ty = c.get('types') or {}
    dt = conv(ty.get('dt'), c['dt']); th = conv(ty.get('theta0'), c['theta0'])
    fn = getattr(Integration, '_inject_mutations_%dD' % d)
    flags = [False] * (4 if d == 2 else d) if d > 1 else []
    before = [snap(xx), snap(dt), snap(th)]
    res = fn(phi, dt, *([xx] * d), th, *flags)
    rec = out(res)
    rec['unchanged'] = before == [snap(xx), snap(dt), snap(th)]
    rec['again'] = True
    return rec

def compute_dt(c):
    ty = c.get('types') or {}
    Integration.timescale_factor = c['tf']
    try:
        dx = np.diff(np.array(c['grid'], dtype=float))
        ms = [conv(ty.get('ms'), m) for m in c['ms']]
        cont = c.get('ms_container') or 'list'
        ms = {'list': list, 'tuple': tuple, 'ndarray': np.array}[cont](ms)
        args = [conv(ty.get('nu'), c['nu']), ms, conv(ty.get('gamma'), c['gamma']), conv(ty.get('h'), c['h'])]
        before = [snap(o) for o in args]
        r = Integration._compute_dt(dx, *args)
        r2 = Integration._compute_dt(dx, *args)
        rec = out(np.array([r]))
        rec['unchanged'] = before == [snap(o) for o in args]
        rec['again'] = same_bits(np.array([r]), np.array([r2]))
        return rec
    finally:
        Integration.timescale_factor = 1e-3

def program(c):
    Integration.timescale_factor = c['tf']
    Integration.use_delj_trick = False
    try:
        return _program(c)
    finally:
        Integration.timescale_factor = 1e-3

def _program(c):
    nt = c.get('num_type'); classes = set(c.get('num_classes') or [])
    def n(cls, v):
        if nt is None or cls not in classes:
            return float(v) if c.get('floats') else v
        if nt in ('float', 'np.float64', 'np.float32', '0d-float'):
            return conv(nt, v)
        if v != int(v):
            return float(v)             # a fractional value has no integer spelling: the user writes a float
        if nt in ('bool', 'np.bool_', '0d-bool') and v not in (0, 1):
            return int(v) if nt == 'bool' else np.int64(v)
        return conv(nt, v)
    xx = xgrid(c)
    held = [xx]; before = [snap(xx)]
    phi = None; res = None
    for st in c['steps']:
        op = st['op']
        if op == 'phi_1D':
            kw = dict(nu=n('nu', st['nu']), theta0=n('theta0', st['theta0']), gamma=n('gamma', st['gamma']), h=st['h'])
            if 'beta' in st:
                kw['beta'] = n('beta', st['beta'])
            if st.get('fn'):
                kw.pop('h')
                if st['fn'] == 'phi_1D_snm':
                    kw.pop('gamma')
            phi = EQ[st.get('fn') or 'phi_1D'](xx, **kw)
        elif op == 'one_pop':
            phi = Integration.one_pop(phi, xx, n('T', st['T']), nu=n('nu', st['nu']), gamma=n('gamma', st['gamma']), h=st['h'], theta0=n('theta0', st['theta0']))
        elif op == 'split12':
            phi = PhiManip.phi_1D_to_2D(xx, phi)
        elif op == 'two_pops':
            phi = Integration.two_pops(phi, xx, n('T', st['T']), nu1=n('nu', st['nu'][0]), nu2=n('nu', st['nu'][1]), m12=n('m', st['m'][0]), m21=n('m', st['m'][1]),
                                       gamma1=n('gamma', st['gamma'][0]), gamma2=n('gamma', st['gamma'][1]), h1=st['h'][0], h2=st['h'][1], theta0=n('theta0', st['theta0']))
        elif op == 'pulse12':
            phi = PhiManip.phi_2D_admix_1_into_2(phi, n('f', st['f']), xx, xx)
        elif op == 'split23':
            phi = PhiManip.phi_2D_to_3D_split_2(xx, phi)
        elif op == 'three_pops':
            nu = st['nu']; m = st['m']; g = st['gamma']
            phi = Integration.three_pops(phi, xx, n('T', st['T']), nu1=n('nu', nu[0]), nu2=n('nu', nu[1]), nu3=n('nu', nu[2]),
                                         m12=n('m', m[0]), m13=n('m', m[1]), m21=n('m', m[2]), m23=n('m', m[3]), m31=n('m', m[4]), m32=n('m', m[5]),
                                         gamma1=n('gamma', g[0]), gamma2=n('gamma', g[1]), gamma3=n('gamma', g[2]), theta0=n('theta0', st['theta0']))
        elif op == 'remove':
            phi = PhiManip.remove_pop(phi, xx, st['k'])
        elif op == 'from_phi':
            ns = st['ns']; t = c.get('ns_type') or 'list'
            ns = {'list': lambda v: [int(x) for x in v], 'tuple': lambda v: tuple(int(x) for x in v), 'ndarray': lambda v: np.array(v, dtype=int),
                  'np.int64-list': lambda v: [np.int64(x) for x in v], 'np.int32-tuple': lambda v: tuple(np.int32(x) for x in v)}[t](ns)
            held.append(ns); before.append(snap(ns))
            res = dadi.Spectrum.from_phi(phi, ns, [xx] * phi.ndim)
        else:
            raise ValueError(op)
    rec = out(res if res is not None else phi)
    if res is not None:
        rec['mask'] = [bool(t) for t in np.ma.getmaskarray(res).reshape(-1)]
    rec['unchanged'] = before == [snap(o) for o in held]
    rec['again'] = True
    return rec

KINDS = {'eq': eq, 'driver': driver, 'inject': inject, 'compute_dt': compute_dt, 'program': program}

def main():
    calls = json.load(sys.stdin)
    res = []
    for c in calls:
        try:
            rec = KINDS[c['kind']](c)
            if not all(np.isfinite(rec['res'])):
                rec['nonfinite'] = True
        except Exception as e:
            rec = {'error': type(e).__name__ + ': ' + str(e)[:300]}
        res.append(rec)
    print(json.dumps(res))

if __name__ == '__main__':
    main()
