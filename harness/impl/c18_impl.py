"""Runs the REAL dadi.LowPass.LowPass code (overlay) on generated cases.

kinds:
  helpers : one population (nseq, nsub, cov, F) -> partitions_and_probabilities ('genotype' and, per allele
            count, 'allele_frequency'), projection_matrix, calling_error_matrix,
            probability_of_no_call_1D_GATK_multisample, probability_enough_individuals_covered,
            projection_inbreeding of every partition
  lowpass : make_low_pass_func_GATK_multisample on a model Spectrum; also returns what the precalculation
            cached (prob_nocall_ND, use_sim_mat, the simulated arrays) read from the closure, the plain
            Spectrum.project of the model, and the model's own total
numpy's global RNG and LowPass.rng are seeded per case only so that the closure checks are reproducible.
"""
import sys, json, warnings
warnings.filterwarnings('ignore')
import numpy as np
import dadi
from dadi.LowPass import LowPass as LP
np.seterr(all='ignore')

def mkcov(probs):
    return np.array([np.arange(len(probs)), np.array(probs, dtype=float)])

def fl(a):
    return [float(t) for t in np.asarray(a, dtype=float).ravel()]

def helpers(c):
    nseq, nsub, F = c['nseq'], c['nsub'], c['F']
    cov = mkcov(c['cov'])
    rec = {}
    parts, probs = LP.partitions_and_probabilities(nseq, 'genotype', F)
    rec['parts'] = [[[int(g) for g in p] for p in ps] for ps in parts]
    rec['probs'] = [fl(p) for p in probs]
    # the 'allele_frequency' flavour must agree with the 'genotype' one
    af_ok = True
    for af in range(nseq + 1):
        p2, pr2 = LP.partitions_and_probabilities(nseq, 'allele_frequency', F, af)
        if [[int(g) for g in p] for p in p2] != rec['parts'][af] or fl(pr2) != rec['probs'][af]:
            af_ok = False
    rec['af_flavour_same'] = af_ok
    rec['proj'] = [fl(r) for r in LP.projection_matrix(nseq, nsub, F)]
    rec['cem'] = [fl(r) for r in LP.calling_error_matrix(cov, nsub, F)]
    rec['nocall'] = fl(LP.probability_of_no_call_1D_GATK_multisample(cov, nseq, F))
    rec['enough'] = float(LP.probability_enough_individuals_covered(cov, nseq, nsub))
    rec['projinb'] = [fl(LP.projection_inbreeding(p, nsub)) for ps in rec['parts'] for p in ps]
    return rec

def lowpass(c):
    pops = c['pops']
    d = len(pops)
    ids = ['p%d' % i for i in range(d)]
    cov = {i: mkcov(p['cov']) for i, p in zip(ids, pops)}
    nseq = [p['nseq'] for p in pops]; nsub = [p['nsub'] for p in pops]
    Fx = [p['F'] for p in pops]
    if c.get('Fx_none'):
        Fx = None
    arr = np.array(c['model'], dtype=float).reshape([n + 1 for n in nseq])
    np.random.seed(c['seed'])
    LP.rng = np.random.default_rng(c['seed'])
    calls = []
    def func(params, ns, pts):
        calls.append(list(ns))
        fs = dadi.Spectrum(arr.copy(), pop_ids=ids)
        fs.extrap_x = 0.125
        return fs
    f = LP.make_low_pass_func_GATK_multisample(func, cov, ids, nseq, nsub, sim_threshold=c['thr'], Fx=Fx, nsim=c['nsim'])
    out = f([1.0], nsub, 10)
    cl = dict(zip(f.__code__.co_freevars, [x.cell_contents for x in f.__closure__]))
    pnc, use, proj, herr, sims = cl['precalc_cache'][tuple(nsub)]
    m = func([1.0], nseq, 10)
    # plain projection with the code's own projection_matrix along every axis (masked corners count as 0)
    pl = np.where(np.ma.getmaskarray(m), 0.0, np.ma.getdata(m))
    for ax, (ns_, nb_, F_) in enumerate(zip(nseq, nsub, Fx if Fx is not None else [0] * d)):
        pl = np.swapaxes(np.swapaxes(pl, ax, -1).dot(LP.projection_matrix(ns_, nb_, F_)), ax, -1)
    rec = {'plainF': fl(pl), 'out': fl(np.ma.getdata(out)), 'out_mask': [bool(t) for t in np.ma.getmaskarray(out).ravel()],
           'shape': list(out.shape), 'model_mask': [bool(t) for t in np.ma.getmaskarray(m).ravel()],
           'model_total': float(m.sum()), 'out_total': float(np.ma.getdata(out).sum()),
           'pnc': fl(pnc), 'use': [bool(t) for t in np.asarray(use).ravel()],
           'sims': [[[int(t) for t in k], fl(v)] for k, v in sims.items()],
           'sim_shapes_ok': all(list(np.shape(v)) == [n + 1 for n in nsub] for v in sims.values()),
           'called_ns': calls[0], 'folded': bool(out.folded), 'name': f.__name__,
           'plain': fl(np.ma.getdata(m.project(nsub))), 'plain_mask': [bool(t) for t in np.ma.getmaskarray(m.project(nsub)).ravel()]}
    return rec

def main():
    cases = json.load(sys.stdin)
    out = []
    for c in cases:
        rec = {'id': c['id']}
        try:
            rec.update(helpers(c) if c['kind'] == 'helpers' else lowpass(c))
            # non-finite values cannot cross JSON exactly: report them
            def bad(v):
                if isinstance(v, float):
                    return v != v or v in (float('inf'), float('-inf'))
                if isinstance(v, list):
                    return any(bad(t) for t in v)
                return False
            nf = [k for k, v in rec.items() if bad(v)]
            if nf:
                rec = {'id': c['id'], 'error': 'non-finite values in ' + ','.join(nf)}
        except Exception as e:
            import traceback
            rec['error'] = type(e).__name__ + ': ' + str(e)[:300] + ' @ ' + traceback.format_exc()[-300:]
        out.append(rec)
    print(json.dumps(out))
main()
