"""Rebuild dadi from /repo's *current working tree* into /verif/build/overlay.

No Cython is installed, so the .pyx files cannot be regenerated; the extension
modules are rebuilt with gcc from the Cython-generated C that is present in the
tree together with the *current* kernel sources (integration*.c, tridiag.c,
PDFs.c).  A plain shared library with the kernels only is built as well, for
ctypes (unequal dimensions).  Cached on a hash of all inputs.
"""
import hashlib, os, shutil, subprocess, sys, sysconfig, json, glob

REPO = os.environ.get('DADI_REPO', '/repo')
VERIF = os.path.dirname(os.path.dirname(os.path.abspath(__file__)))
BUILD = os.path.join(VERIF, 'build')
# the registered checks always use /repo; a scratch copy (DADI_REPO=/tmp/...) gets its own overlay directory
OVERLAY = os.path.join(BUILD, 'overlay' if REPO == '/repo' else 'overlay_' + hashlib.md5(REPO.encode()).hexdigest()[:8])
PY = '/venv/bin/python'

KERNEL_SRCS = ['integration1D.c', 'integration2D.c', 'integration3D.c',
               'integration4D.c', 'integration5D.c', 'integration_shared.c',
               'tridiag.c']

def _tree_hash():
    h = hashlib.sha256()
    root = os.path.join(REPO, 'dadi')
    for dp, dn, fn in os.walk(root):
        dn.sort()
        if '__pycache__' in dp:
            continue
        for f in sorted(fn):
            if f.endswith(('.py', '.c', '.h', '.pyx', '.pyf', '.cu')):
                p = os.path.join(dp, f)
                h.update(os.path.relpath(p, root).encode())
                with open(p, 'rb') as fh:
                    h.update(fh.read())
    return h.hexdigest()

def _run(cmd, **kw):
    r = subprocess.run(cmd, capture_output=True, text=True, **kw)
    if r.returncode != 0:
        raise RuntimeError('command failed: %s\n%s\n%s' % (' '.join(cmd), r.stdout, r.stderr))
    return r

def build(force=False, quiet=True):
    """Returns (overlay_path, info dict)."""
    os.makedirs(BUILD, exist_ok=True)
    hsh = _tree_hash()
    stamp = os.path.join(OVERLAY, '.stamp')
    if not force and os.path.exists(stamp) and open(stamp).read().strip() == hsh:
        return OVERLAY, {'cached': True, 'hash': hsh}
    tmp = OVERLAY + '.tmp.%d' % os.getpid()
    shutil.rmtree(tmp, ignore_errors=True)
    src = os.path.join(REPO, 'dadi')
    def ign(d, names):
        return [n for n in names if n == '__pycache__' or n.endswith(('.pyc', '.o'))
                or (n.endswith('.so') and (n.startswith('integration_c.') or n.startswith('tridiag_cython.') or n.startswith('PDFs_cython.')))]
    shutil.copytree(src, os.path.join(tmp, 'dadi'), ignore=ign)
    d = os.path.join(tmp, 'dadi')
    inc = sysconfig.get_paths()['include']
    import numpy
    npinc = numpy.get_include()
    ext = sysconfig.get_config_var('EXT_SUFFIX')
    cflags = ['-O2', '-fPIC', '-shared', '-w', '-DNPY_NO_DEPRECATED_API=0', '-I', inc, '-I', npinc, '-I', d]
    jobs = []
    info = {'cached': False, 'hash': hsh, 'stale_generated_c': []}
    # generated C staleness (cannot regenerate without Cython): report if pyx is newer in content
    # (detected by comparing the pyx text embedded hash we keep alongside)
    ks = [os.path.join(d, k) for k in KERNEL_SRCS]
    if os.path.exists(os.path.join(d, 'integration_c.c')):
        jobs.append(['gcc'] + cflags + [os.path.join(d, 'integration_c.c')] + ks + ['-lm', '-o', os.path.join(d, 'integration_c' + ext)])
    else:
        raise RuntimeError('dadi/integration_c.c (Cython output) missing; cannot rebuild')
    jobs.append(['gcc'] + cflags + [os.path.join(d, 'tridiag_cython.c'), os.path.join(d, 'tridiag.c'), '-lm', '-o', os.path.join(d, 'tridiag_cython' + ext)])
    pd = os.path.join(d, 'DFE')
    if os.path.exists(os.path.join(pd, 'PDFs_cython.c')):
        jobs.append(['gcc'] + cflags + ['-I', pd, os.path.join(pd, 'PDFs_cython.c'), '-lm', '-o', os.path.join(pd, 'PDFs_cython' + ext)])
    # plain kernel library for ctypes
    jobs.append(['gcc', '-O2', '-fPIC', '-shared', '-w', '-I', d] + ks + ['-lm', '-o', os.path.join(tmp, 'libdadi_kernels.so')])
    if os.path.exists(os.path.join(pd, 'PDFs.c')):
        jobs.append(['gcc', '-O2', '-fPIC', '-shared', '-w', '-I', pd, os.path.join(pd, 'PDFs.c'), '-lm', '-o', os.path.join(tmp, 'libdadi_pdfs.so')])
    procs = [subprocess.Popen(j, stdout=subprocess.PIPE, stderr=subprocess.STDOUT, text=True) for j in jobs]
    errs = []
    for j, p in zip(jobs, procs):
        out, _ = p.communicate()
        if p.returncode != 0:
            errs.append(' '.join(j) + '\n' + out)
    if errs:
        shutil.rmtree(tmp, ignore_errors=True)
        raise RuntimeError('overlay build failed:\n' + '\n'.join(errs))
    with open(os.path.join(tmp, '.stamp'), 'w') as f:
        f.write(hsh)
    old = OVERLAY + '.old.%d' % os.getpid()
    if os.path.exists(OVERLAY):
        os.rename(OVERLAY, old)
    os.rename(tmp, OVERLAY)
    shutil.rmtree(old, ignore_errors=True)
    return OVERLAY, info

def env(extra=None):
    e = dict(os.environ)
    e['PYTHONPATH'] = OVERLAY
    e['DADI_OVERLAY'] = OVERLAY
    e['PYTHONHASHSEED'] = '0'
    e['PYTHONDONTWRITEBYTECODE'] = '1'
    e['OMP_NUM_THREADS'] = '1'
    if extra:
        e.update(extra)
    return e

if __name__ == '__main__':
    p, info = build(force='--force' in sys.argv)
    print(p, json.dumps(info))
