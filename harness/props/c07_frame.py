"""C07 — frame condition of the wrapped function, read off the CURRENT source of Numerics.make_extrap_func (AST, fail-closed).

The Coq model of a wrapped function used repeatedly (`run_calls`, Model/Extrap.v) hands the captured list on unchanged and
every call is the pure function of (captured list, results of this call): C07_calls_are_independent.  That is only a
statement about the code if `extrap_func`
  (a) performs no in-place operation on an object that outlives the call: the captured `extrap_x_l` (and `x_l` where it
      aliases it), the caller's `pts_l`, the arrays returned by the model (elements of `result_l`, `best_result`, and
      `ex_result` in the one-grid branch);
  (b) writes to nothing but its own local variables (no nonlocal/global, no store into closure cells, function attributes
      or module objects), so no call can leave anything behind for the next one.
Everything that is not recognised as harmless fails the obligation (it is then the generator's job - one wrap, several calls,
argument-freezing predicate - to produce the failing input).
"""
import ast, os

CONTAINERS = {'args', 'kwargs', 'result_l'}          # subscripting / iterating these yields an object owned by the caller or the model
ROOT_TAINT = {'extrap_x_l'}                          # the captured argument of make_extrap_func
MODULE_ROOTS = {'numpy', 'functools', 'logger', 'math', 'os'}
READONLY_METHODS = {'index', 'count', 'copy', 'tolist', 'get', 'keys', 'values', 'items'}
MUTATING_METHODS = {'sort', 'reverse', 'append', 'extend', 'pop', 'insert', 'remove', 'clear', 'fill', 'put', 'resize', 'itemset',
                    'partition', 'setflags', 'setfield', 'byteswap', 'update', 'setdefault', 'popitem', 'harden_mask', 'soften_mask',
                    '__setitem__', '__delitem__', '__iadd__', '__imul__', '__isub__', '__itruediv__'}
# callees that may receive a protected object: they neither modify it nor keep it
EXTRAPS = {'linear_extrap', 'quadratic_extrap', 'cubic_extrap', 'quartic_extrap', 'quintic_extrap'}   # straight-line formulas (pyexpr obligations)
FRESH_CALLEES = {'len', 'list', 'tuple', 'sorted', 'map', 'zip', 'enumerate', 'reversed', 'min', 'max', 'sum', 'abs', 'float', 'int',
                 'numpy.isscalar', 'numpy.argmin', 'numpy.argsort', 'numpy.log', 'numpy.exp', 'numpy.log10', 'numpy.array', 'numpy.sort',
                 'numpy.any', 'numpy.all', 'numpy.ma.filled', 'numpy.isnan', 'numpy.isfinite', 'functools.partial'} | EXTRAPS
ALIASING_CALLEES = {'numpy.asarray', 'numpy.asanyarray', 'numpy.ravel', 'numpy.reshape', 'numpy.squeeze', 'numpy.atleast_1d',
                    'numpy.ma.getdata', 'numpy.ma.getmask', 'numpy.ma.getmaskarray', 'numpy.ma.asarray', 'iter', 'numpy.transpose'}
# reviewed stores into objects that are (flow-insensitively) possibly owned by the model: (statement, innermost enclosing `if` test)
ALLOWED_STORES = {
    ('ex_result[extrap_failed] = best_result[extrap_failed]', 'len(pts_l) > 1'),   # ex_result is a fresh array for 2..6 grids (see below)
    ('ex_result.pop_ids = result_l[0].pop_ids', None),                            # label glue (for one grid: assigns the attribute to itself)
}

def dotted(node):
    parts = []
    while isinstance(node, ast.Attribute):
        parts.append(node.attr); node = node.value
    if isinstance(node, ast.Name):
        parts.append(node.id)
        return '.'.join(reversed(parts))
    return None

def root_name(node):
    while isinstance(node, (ast.Attribute, ast.Subscript, ast.Starred)):
        node = node.value
    return node.id if isinstance(node, ast.Name) else None

def target_names(t):
    if isinstance(t, ast.Name):
        return [t.id]
    if isinstance(t, (ast.Tuple, ast.List)):
        return [n for e in t.elts for n in target_names(e)]
    if isinstance(t, ast.Starred):
        return target_names(t.value)
    return []

class Frame:
    def __init__(self, fn):
        self.fn = fn
        self.inner = [n for n in fn.body if isinstance(n, ast.FunctionDef)]
        self.problems = {'inplace': [], 'escape': [], 'calls': [], 'shape': []}
        self.tainted = set(ROOT_TAINT)
        self.parent = {}
        for p in ast.walk(fn):
            for c in ast.iter_child_nodes(p):
                self.parent[c] = p

    def where(self, node):
        return 'line %d: %s' % (getattr(node, 'lineno', 0), ast.unparse(node)[:120])

    # ---- taint -----------------------------------------------------------------------------------------------------
    def expr_tainted(self, e):
        if isinstance(e, ast.Name):
            return e.id in self.tainted
        if isinstance(e, ast.Starred):
            return self.expr_tainted(e.value)
        if isinstance(e, ast.Subscript):
            r = root_name(e)
            return r in CONTAINERS or r in self.tainted
        if isinstance(e, ast.Attribute):
            return root_name(e) in self.tainted or root_name(e) in CONTAINERS
        if isinstance(e, ast.IfExp):
            return self.expr_tainted(e.body) or self.expr_tainted(e.orelse)
        if isinstance(e, ast.BoolOp):
            return any(self.expr_tainted(v) for v in e.values)
        if isinstance(e, ast.NamedExpr):
            return self.expr_tainted(e.value)
        if isinstance(e, ast.Call):
            name = dotted(e.func)
            argt = any(self.expr_tainted(a) for a in e.args) or any(self.expr_tainted(k.value) for k in e.keywords)
            if name in FRESH_CALLEES:
                return False
            if isinstance(e.func, ast.Attribute) and name is not None and name.split('.')[0] not in MODULE_ROOTS:
                # method of an object: x_l.copy() is fresh; anything else on a protected object is handled by the call rule
                recv = self.expr_tainted(e.func.value)
                return recv and e.func.attr not in ('copy', 'tolist')
            return argt            # aliasing or unknown callee: conservatively an alias of what went in
        return False               # displays, comprehensions, arithmetic, constants: fresh objects

    def iter_tainted(self, it):
        """does iterating over `it` yield objects owned by the caller / the model?"""
        if isinstance(it, ast.Name):
            return it.id in CONTAINERS or it.id in self.tainted
        if isinstance(it, ast.Call):
            return any(self.iter_tainted(a) for a in it.args)
        if isinstance(it, (ast.Subscript, ast.Attribute)):
            return root_name(it) in CONTAINERS or root_name(it) in self.tainted
        return False

    def compute_taint(self):
        changed = True
        while changed:
            changed = False
            for n in ast.walk(self.fn):
                new = []
                if isinstance(n, ast.Assign) and self.expr_tainted(n.value):
                    for t in n.targets:
                        new += target_names(t)
                elif isinstance(n, (ast.AnnAssign, ast.NamedExpr)) and n.value is not None and self.expr_tainted(n.value):
                    new += target_names(n.target)
                elif isinstance(n, (ast.For, ast.comprehension)) and self.iter_tainted(n.iter):
                    new += target_names(n.target)
                elif isinstance(n, ast.withitem) and n.optional_vars is not None and self.expr_tainted(n.context_expr):
                    new += target_names(n.optional_vars)
                for x in new:
                    if x not in self.tainted:
                        self.tainted.add(x); changed = True

    # ---- rules -----------------------------------------------------------------------------------------------------
    def guard_of(self, node):
        """test of the innermost enclosing `if` whose BODY (not orelse) contains the node"""
        cur = node
        while cur in self.parent:
            p = self.parent[cur]
            if isinstance(p, ast.If) and any(cur is s for s in p.body):
                return ast.unparse(p.test)
            cur = p
        return None

    def locals_of(self, f):
        names = {a.arg for a in f.args.args + f.args.kwonlyargs}
        if f.args.vararg: names.add(f.args.vararg.arg)
        if f.args.kwarg: names.add(f.args.kwarg.arg)
        for n in ast.walk(f):
            if isinstance(n, ast.Name) and isinstance(n.ctx, ast.Store):
                names.add(n.id)
        return names

    def check(self):
        fn = self.fn
        if len(self.inner) != 1 or self.inner[0].name != 'extrap_func':
            self.problems['shape'].append('make_extrap_func is expected to define exactly one inner function extrap_func')
            return
        inner = self.inner[0]
        self.compute_taint()
        inner_locals = self.locals_of(inner)
        inner_nodes = set(ast.walk(inner))
        for n in ast.walk(fn):
            # (b) nothing outlives a call
            if isinstance(n, (ast.Global, ast.Nonlocal)):
                self.problems['escape'].append(self.where(n))
            if isinstance(n, (ast.Lambda, ast.ClassDef)) or (isinstance(n, ast.FunctionDef) and n is not fn and n is not inner):
                self.problems['shape'].append('unexpected nested definition, ' + self.where(n))
            if isinstance(n, ast.arguments):
                for d in list(n.defaults) + [d for d in n.kw_defaults if d is not None]:
                    if not isinstance(d, ast.Constant):
                        self.problems['escape'].append('non-constant default argument (persists between calls), ' + self.where(d))
            # stores
            stores = []
            if isinstance(n, ast.Assign):
                stores = [(t, n) for t in n.targets]
            elif isinstance(n, (ast.AugAssign, ast.AnnAssign)):
                stores = [(n.target, n)]
            elif isinstance(n, ast.Delete):
                stores = [(t, n) for t in n.targets]
            elif isinstance(n, (ast.For, ast.comprehension)):
                stores = [(n.target, n)]
            flat = []
            for t, st in stores:
                if isinstance(t, (ast.Tuple, ast.List)):
                    flat += [(e, st) for e in t.elts]
                else:
                    flat.append((t, st))
            for t, st in flat:
                if isinstance(t, ast.Starred):
                    t = t.value
                if isinstance(t, ast.Name):
                    if isinstance(st, ast.AugAssign) and t.id in self.tainted:
                        self.problems['inplace'].append('augmented assignment to %s (in place for lists/arrays), %s' % (t.id, self.where(st)))
                    continue
                r = root_name(t)
                text = ast.unparse(st)
                if r is None:
                    self.problems['inplace'].append('store through an expression that is not rooted at a name, ' + self.where(st)); continue
                if r in self.tainted or r == 'result_l' or r == 'args':
                    if (text, self.guard_of(st)) not in ALLOWED_STORES:
                        self.problems['inplace'].append('item/attribute store into %s (may be the captured list, the caller\'s pts list or an array '
                                                        'returned by the model), %s' % (r, self.where(st)))
                elif n in inner_nodes and r not in inner_locals:
                    self.problems['escape'].append('extrap_func stores into %s, which outlives the call, %s' % (r, self.where(st)))
                elif n not in inner_nodes and r != 'extrap_func':
                    self.problems['escape'].append('make_extrap_func stores into %s, %s' % (r, self.where(st)))
            # calls
            if isinstance(n, ast.Call):
                for k in n.keywords:
                    if k.arg in ('out', 'where') and not (isinstance(k.value, ast.Constant) and k.value.value is None):
                        self.problems['inplace'].append('%s= keyword, %s' % (k.arg, self.where(n)))
                name = dotted(n.func)
                is_method = isinstance(n.func, ast.Attribute) and (name is None or name.split('.')[0] not in MODULE_ROOTS)
                if is_method:
                    r = root_name(n.func.value)
                    recv_prot = r in self.tainted or r in ('result_l', 'args') or (isinstance(n.func.value, ast.Subscript) and r in CONTAINERS)
                    outlives = n in inner_nodes and r is not None and r not in inner_locals
                    if (recv_prot or outlives) and n.func.attr not in READONLY_METHODS:
                        kind = 'in-place method' if n.func.attr in MUTATING_METHODS else 'method not known to be read-only'
                        self.problems['inplace' if recv_prot else 'escape'].append('%s .%s() on %s, %s' % (kind, n.func.attr, r, self.where(n)))
                    if r is None and n.func.attr not in READONLY_METHODS:
                        self.problems['calls'].append('method call on an unnamed object, ' + self.where(n))
                prot_args = [a for a in list(n.args) + [k.value for k in n.keywords] if self.expr_tainted(a)
                             or (isinstance(a, ast.Name) and a.id in ('result_l',))]
                if prot_args:
                    ok = name in FRESH_CALLEES or name in ALIASING_CALLEES
                    if name == 'func' or name == 'make_extrap_func':
                        ok = True      # the model itself / the documented pass-through
                    if is_method and root_name(n.func.value) in self.tainted | {'result_l'} and n.func.attr in READONLY_METHODS:
                        ok = True
                    if not ok:
                        self.problems['calls'].append('%s passed to %s, which is not known to leave its arguments alone, %s'
                                                      % (', '.join(ast.unparse(a) for a in prot_args), name or ast.unparse(n.func), self.where(n)))
        # the reviewed store `ex_result[extrap_failed] = ...` relies on: ex_result aliases a model array only in the one-grid branch, and
        # pts_l is not rebound after the dispatch
        first_ex = None
        for n in ast.walk(inner):
            if isinstance(n, ast.Assign) and any('ex_result' in target_names(t) for t in n.targets):
                first_ex = n.lineno if first_ex is None else min(first_ex, n.lineno)
                if self.expr_tainted(n.value) and self.guard_of(n) != 'len(pts_l) == 1':
                    self.problems['inplace'].append('ex_result may alias an array returned by the model outside the one-grid branch, ' + self.where(n))
        for n in ast.walk(inner):
            if isinstance(n, ast.Assign) and any('pts_l' in target_names(t) for t in n.targets) and first_ex is not None and n.lineno > first_ex:
                self.problems['shape'].append('pts_l rebound after the dispatch, ' + self.where(n))

def frame_obligations(ctx, path):
    names = {
        'inplace': 'make_extrap_func: no in-place operation (sort/reverse/append/pop/insert/item assignment/augmented assignment/out=) on '
                   'extrap_x_l, x_l, pts_l or the arrays returned by the model',
        'escape': 'make_extrap_func: extrap_func writes to nothing that outlives the call (no nonlocal/global, closure cell, function '
                  'attribute, mutable default or module object)',
        'calls': 'make_extrap_func: protected objects are only handed to callees known to leave their arguments alone',
        'shape': 'make_extrap_func: one inner function extrap_func, no further nested definitions',
    }
    try:
        tree = ast.parse(open(path).read())
        fns = [n for n in tree.body if isinstance(n, ast.FunctionDef) and n.name == 'make_extrap_func']
        if len(fns) != 1:
            raise ValueError('%d definitions of make_extrap_func' % len(fns))
        fr = Frame(fns[0]); fr.check()
        for key, text in names.items():
            ctx.obligation(text, not fr.problems[key], 'translator', '; '.join(fr.problems[key][:6]))
        # make_extrap_log_func: a pass-through
        lf = [n for n in tree.body if isinstance(n, ast.FunctionDef) and n.name == 'make_extrap_log_func']
        body = [s for s in lf[0].body if not (isinstance(s, ast.Expr) and isinstance(s.value, ast.Constant))] if len(lf) == 1 else []
        ok = (len(body) == 1 and isinstance(body[0], ast.Return)
              and ast.unparse(body[0].value) == 'make_extrap_func(func, extrap_x_l=extrap_x_l, extrap_log=True)')
        ctx.obligation('make_extrap_log_func is make_extrap_func(func, extrap_x_l=extrap_x_l, extrap_log=True)', ok, 'translator',
                       '' if ok else (ast.unparse(lf[0])[-300:] if lf else 'not found'))
        return fr
    except Exception as e:
        ctx.obligation('frame condition of make_extrap_func readable from the source', False, 'translator', repr(e))
        return None

if __name__ == '__main__':      # stand-alone: python -m harness.props.c07_frame <Numerics.py>
    import sys
    class _C:
        def obligation(self, name, ok, kind, detail=''):
            print('OK  ' if ok else 'FAIL', name, '|', detail)
    frame_obligations(_C(), sys.argv[1])
