"""C16, export side: the real event log (dadi.Demes.cache) and the real dadi.Demes.output against the exporter model
coq/theories/Model/DemesExportModel.v (checkers: Model/DemesExportCheck.v).

Pure functions, no side effects; used by harness/tools/c16_export_check.py (stand-alone run) and meant to be called
from harness/props/c16.py (export_phase) and harness/impl/c16_impl.py (run_export):

  impl side  : rec['cache_full'] = c16_export.cache_dump(dadi.Demes.cache)            (right after dadi.Demes.output)
               rec['events1']    = events of the exported graph in generations (demes' discrete_demographic_events)
  check side : nu, rounds = rounds_of(rec['cache_full'])                              (NotInClass: not phi_1D; (record?; integration)*)
               export_case_coq(nu, rounds, Nref, gen_time, rec['graph'], rec['events1'], rec['final_ids'])
                   -> Coq term for  check_export tol  : the model's graph / events / final names = the real ones
               native_case_coq(nu, rounds, rec['calls0'])
                   -> Coq term for  check_native tol  : the log read back as calls = the calls that were made
"""
from fractions import Fraction
import math

from harness.lib import q, ql, frac

INF = float('inf')
SFUN = {'constant': 'SConstant', 'exponential': 'SExponential', 'linear': 'SLinear'}
INTEG = ['one_pop', 'two_pops', 'three_pops', 'four_pops', 'five_pops']
PULSES = {2: ['phi_2D_admix_2_into_1', 'phi_2D_admix_1_into_2'],
          3: ['phi_3D_admix_2_and_3_into_1', 'phi_3D_admix_1_and_3_into_2', 'phi_3D_admix_1_and_2_into_3'],
          4: ['phi_4D_admix_into_1', 'phi_4D_admix_into_2', 'phi_4D_admix_into_3', 'phi_4D_admix_into_4'],
          5: ['phi_5D_admix_into_1', 'phi_5D_admix_into_2', 'phi_5D_admix_into_3', 'phi_5D_admix_into_4', 'phi_5D_admix_into_5']}
PULSE_OF = {n: (d, k + 1) for d, l in PULSES.items() for k, n in enumerate(l)}
FN = {'phi_1D': 'F_phi_1D', 'one_pop': 'F_one_pop', 'two_pops': 'F_two_pops', 'three_pops': 'F_three_pops',
      'four_pops': 'F_four_pops', 'five_pops': 'F_five_pops', 'phi_1D_to_2D': 'F_phi_1D_to_2D',
      'phi_2D_to_3D_split_1': 'F_split_1', 'phi_2D_to_3D_split_2': 'F_split_2', 'phi_2D_to_3D_admix': 'F_2D_to_3D_admix',
      'phi_3D_to_4D': 'F_3D_to_4D', 'phi_4D_to_5D': 'F_4D_to_5D', 'remove_pop': 'F_remove_pop',
      'reorder_pops': 'F_reorder_pops', 'from_phi': 'F_from_phi'}

HEADER = ('From Coq Require Import ZArith QArith List.\n'
          'From Dadi Require Import Base.Num Base.NumQ Model.DemesFront Model.DemesFrontCheck Model.DemesExportModel '
          'Model.DemesExportReorderModel Model.DemesExportCheck.\nImport ListNotations.\nOpen Scope Q_scope.')


class NotInClass(Exception):
    pass


def natl(xs):
    return '[' + '; '.join('%d%%nat' % int(x) for x in xs) + ']'


def bl(xs):
    return '[' + '; '.join('true' if x else 'false' for x in xs) + ']'


def tq(x):
    return 'Inf' if x == INF else '(Fin %s)' % q(x)


def _f(x):
    return float(x)


def cache_dump(cache):
    """the event log as dadi.Demes.output sees it, as plain data (call after output: deme_ids are filled in)"""
    out = []
    for e in cache:
        t = type(e).__name__
        d = {'type': t, 'duration': (None if e.duration == INF else _f(e.duration)),
             'deme_ids': None if e.deme_ids is None else list(e.deme_ids)}
        if t == 'Initiation':
            d['start_sizes'] = [_f(x) for x in e.start_sizes]
        elif t == 'IntegrationConst':
            d['start_sizes'] = [_f(x) for x in e.start_sizes]
            d['mig'] = [_f(x) for x in e.mig]
        elif t == 'IntegrationNonConst':
            d['start_sizes'] = [_f(x) for x in e.start_sizes]
            d['end_sizes'] = [_f(x) for x in e.end_sizes]
            d['mig'] = [_f(x) for x in e.mig]
            d['linear'] = [bool(x) for x in e.linear]
        elif t == 'Split':
            d['proportions'] = [_f(x) for x in e.proportions]
        elif t == 'Remove':
            d['removed'] = int(e.removed)
        elif t == 'Reorder':
            d['neworder'] = [int(x) for x in e.neworder]
        elif t == 'Pulse':
            d['sources'] = [int(x) for x in e.sources]
            d['dest'] = int(e.dest)
            d['proportions'] = [_f(x) for x in e.proportions]
        else:
            d['unknown'] = True
        out.append(d)
    return out


def rounds_of(dump):
    """(nu, rounds): the log in the shape of Model/DemesExportModel.v; round = (event, T, const, sizes, mig) with
    event = ('none',) | ('split', props) | ('pulse', sources, dest, props) | ('remove', k) | ('reorder', order)"""
    if not dump or dump[0]['type'] != 'Initiation':
        raise NotInClass('the log does not start with phi_1D')
    nu = dump[0]['start_sizes'][0]
    rounds = []
    pending = None
    for e in dump[1:]:
        t = e['type']
        if t in ('IntegrationConst', 'IntegrationNonConst'):
            if not (e['duration'] is not None and e['duration'] > 0):
                raise NotInClass('integration of duration 0')
            if t == 'IntegrationConst':
                sizes = [(s, s, True) for s in e['start_sizes']]
            else:
                sizes = list(zip(e['start_sizes'], e['end_sizes'], e['linear']))
            rounds.append((pending or ('none',), e['duration'], t == 'IntegrationConst', sizes, list(e['mig'])))
            pending = None
        else:
            if pending is not None:
                raise NotInClass('two zero-duration records without an integration between them')
            if t == 'Split':
                pending = ('split', e['proportions'])
            elif t == 'Pulse':
                if not e['sources']:
                    raise NotInClass('pulse with all proportions 0 (not exported)')
                pending = ('pulse', e['sources'], e['dest'], e['proportions'])
            elif t == 'Remove':
                pending = ('remove', e['removed'])
            elif t == 'Reorder':
                pending = ('reorder', e['neworder'])
            else:
                raise NotInClass('record %s' % t)
    if pending is not None:
        raise NotInClass('the log ends with a zero-duration record')
    return nu, rounds


def in_theorem_class(rounds):
    """is the log in [log_ok] (the class of export_import_same_program: no reorder_pops; with reorder_pops the class
    is [log_okr], the theorem export_import_reorder)?  The rest is implied by a program that ran."""
    return all(r[0][0] != 'reorder' for r in rounds)


def log_stage(rounds):
    st = 1
    for ev, T, const, sizes, mig in rounds:
        if ev[0] == 'split':
            st = max(st, 2 if sum(1 for p in ev[1] if p != 0) == 1 else 5)
        elif ev[0] == 'pulse':
            st = max(st, 5)
        elif ev[0] in ('remove', 'reorder'):
            st = max(st, 6)
        if not const:
            st = max(st, 3)
        if any(m != 0 for m in mig):
            st = max(st, 4)
    return st


def sev_coq(ev):
    k = ev[0]
    if k == 'none':
        return 'SNone'
    if k == 'split':
        return '(SSplit %s)' % ql(ev[1])
    if k == 'pulse':
        return '(SPulse %s %d%%nat %s)' % (natl(ev[1]), ev[2], ql(ev[3]))
    if k == 'remove':
        return '(SRemove %d%%nat)' % ev[1]
    if k == 'reorder':
        return '(SReorder %s)' % natl(ev[1])
    raise ValueError(ev)


def elog_coq(nu, rounds):
    rs = []
    for ev, T, const, sizes, mig in rounds:
        sz = '[' + '; '.join('(%s, %s, %s)' % (q(a), q(b), 'true' if l else 'false') for a, b, l in sizes) + ']'
        rs.append('mkRound %s %s %s %s %s' % (sev_coq(ev), q(T), 'true' if const else 'false', sz, ql(mig)))
    return '(mkLog %s [%s])' % (q(nu), '; '.join(rs))


def graph_coq(g, ids):
    ds = []
    for d in g['demes']:
        eps = '; '.join('mkEpoch %s %s %s %s %s' % (tq(e['start_time']), q(e['end_time']), q(e['start_size']), q(e['end_size']),
                                                   SFUN[e['size_function']]) for e in d['epochs'])
        ds.append('mkDeme %d%%nat %s %s [%s]' % (ids[d['name']], tq(d['start_time']), natl([ids[a] for a in d['ancestors']]), eps))
    ms = ['mkMig %d%%nat %d%%nat %s %s %s' % (ids[m['source']], ids[m['dest']], tq(m['start_time']), q(m['end_time']), q(m['rate']))
          for m in g['migrations']]
    ps = ['mkPulse %s %d%%nat %s %s' % (natl([ids[s] for s in p['sources']]), ids[p['dest']], q(p['time']), ql(p['proportions']))
          for p in g['pulses']]
    return '(mkGraph [%s] [%s] [%s])' % ('; '.join(ds), '; '.join(ms), '; '.join(ps))


def events_coq(ev, ids):
    out = []
    for p in ev['pulses']:
        out.append('(%s, EPulse %s %d%%nat %s)' % (q(p['time']), natl([ids[s] for s in p['sources']]), ids[p['dest']], ql(p['proportions'])))
    for x in ev['branches']:
        out.append('(%s, EBranch %d%%nat %d%%nat)' % (q(x['time']), ids[x['parent']], ids[x['child']]))
    for x in ev['mergers']:
        out.append('(%s, EMerge %s %s %d%%nat)' % (q(x['time']), natl([ids[s] for s in x['parents']]), ql(x['proportions']), ids[x['child']]))
    for x in ev['admixtures']:
        out.append('(%s, EAdmix %s %s %d%%nat)' % (q(x['time']), natl([ids[s] for s in x['parents']]), ql(x['proportions']), ids[x['child']]))
    for x in ev['splits']:
        out.append('(%s, ESplit %d%%nat %s)' % (q(x['time']), ids[x['parent']], natl([ids[s] for s in x['children']])))
    return '[' + '; '.join(out) + ']'


def export_case_coq(nu, rounds, Nref, gen_time, graph, events, final_ids):
    """(log, Nref, generation_time, real graph, real events (of the graph in generations), real final names)"""
    ids = {d['name']: i for i, d in enumerate(graph['demes'])}
    return '(%s, %s, %s, %s, (%s : list (tevent Q)), (%s : list nat))' % (
        elog_coq(nu, rounds), q(Nref), '(@None Q)' if gen_time is None else '(Some %s)' % q(gen_time),
        graph_coq(graph, ids), events_coq(events, ids), natl([ids[x] for x in final_ids]))


def _nu_coq(v):
    if isinstance(v, dict):
        return '(true, [%s])' % '; '.join('(%s, %s)' % (q(t), q(x)) for t, x in v['f'])
    return '(false, [(0, %s)])' % q(v)


def lcall_coq(c):
    """a logged native call (harness/impl/c16_impl.py: {'fn', 'args'}) without names"""
    fn = c['fn']; a = c['args']
    T = 0; nus = []; fs = []; fr = []; ns = []
    if fn in PULSE_OF:
        d, k = PULSE_OF[fn]
        f = 'F_pulse %d %d' % (d, k)
        fs = [v for kk, v in a.items() if kk.startswith('f')]
    elif fn == 'phi_2D_to_3D_admix' and a['f1'] in (0, 1):
        # the log cannot tell phi_2D_to_3D_admix(f = 1 / 0) from phi_2D_to_3D_split_1 / _2 (which are defined as such)
        f = 'F_split_1' if a['f1'] == 1 else 'F_split_2'
    else:
        f = FN[fn]
        if fn in ('phi_2D_to_3D_admix', 'phi_3D_to_4D', 'phi_4D_to_5D'):
            fs = [v for kk, v in a.items() if kk in ('f1', 'f2', 'f3')]
    if fn in INTEG:
        d = INTEG.index(fn) + 1
        T = a['T']
        if d == 1:
            nus = [a['nu']]; fr = [a['frozen']]
        else:
            nus = [a['nu%d' % k] for k in range(1, d + 1)]
            fr = [a['frozen%d' % k] for k in range(1, d + 1)]
            fs = [a['m%d%d' % (x, y)] for x in range(1, d + 1) for y in range(1, d + 1) if x != y]
    elif fn == 'phi_1D':
        fs = [a['nu']]
    elif fn == 'remove_pop':
        ns = [a['popnum']]
    elif fn == 'reorder_pops':
        ns = a['neworder']
    elif fn == 'from_phi':
        ns = a['ns']
    return 'mkL (%s) %s [%s] %s %s %s []' % (f, q(T), '; '.join(_nu_coq(v) for v in nus), ql(fs), bl(fr), natl(ns))


def lcall_ids_coq(c, ids):
    """a logged call of the re-import (the importer passes the deme names), names -> ranks"""
    base = lcall_coq(c)
    assert base.endswith(' []')
    a = c['args']
    names = a.get('deme_ids') if c['fn'] != 'from_phi' else a.get('pop_ids')
    return base[:-3] + ' ' + natl([ids[x] for x in (names or [])])


def reimport_case_coq(nu, rounds, graph, ns, calls1):
    """(the program the model says comes back: sorted_calls log ++ [from_phi ns final names], the calls the real
    importer made on the real exported graph) for check_prog"""
    ids = {d['name']: i for i, d in enumerate(graph['demes'])}
    lg = elog_coq(nu, rounds)
    return '(sorted_calls %s ++ [simple_call F_from_phi [] %s (final_ids %s)], [%s])' % (
        lg, natl(ns), lg, '; '.join(lcall_ids_coq(c, ids) for c in calls1))


def native_case_coq(nu, rounds, calls0):
    """(log, the calls logged from the native run, from_phi excluded; pulses with all proportions 0 are not records)"""
    cs = [c for c in calls0 if c['fn'] != 'from_phi']
    return '(%s, [%s])' % (elog_coq(nu, rounds), '; '.join(lcall_coq(c) for c in cs))
